// vledger.h - counted callback / payload types, instance ledger, fault clock (C++11).
#ifndef VF_VLEDGER_H
#define VF_VLEDGER_H

#include "vcommon.h"
#include <atomic>
#include <memory>
#include <new>

namespace vf {

// ---------------------------------------------------------------- fault clock
enum FaultKind {
	F_CB_COPY = 0, F_CB_INVOKE, F_CB_EQ, F_PL_COPY, F_PL_MOVE, F_KEY_COPY, F_KEY_CMP, F_KEY_HASH,
	F_PRED, F_FILTER, F_COND, F_ALLOC, F_KINDS
};
inline const char * faultKindName(int k)
{
	static const char * n[] = { "cb_copy", "cb_invoke", "cb_eq", "pl_copy", "pl_move", "key_copy", "key_cmp", "key_hash",
		"pred", "filter", "cond", "alloc", "?" };
	return n[k < 0 || k > F_KINDS ? F_KINDS : k];
}

struct VFault : std::exception
{
	int kind;
	explicit VFault(int k) : kind(k) {}
	const char * what() const noexcept override { return "VFault"; }
};

struct FaultClock
{
	bool enabled;      // count fault points at all
	bool userPoints;   // count user-code points
	bool allocPoints;  // count allocations
	long count;        // points passed since reset
	long armAt;        // 0 = not armed; k = the k-th point throws
	int harnessDepth;  // >0: inside harness code, points are not counted
	long fired;        // number of faults thrown since reset
	int lastKind;
	long byKind[F_KINDS + 1];
	FaultClock() : enabled(false), userPoints(true), allocPoints(false), count(0), armAt(0), harnessDepth(0), fired(0), lastKind(-1) { memset(byKind, 0, sizeof byKind); }
	void reset() { count = 0; armAt = 0; fired = 0; lastKind = -1; memset(byKind, 0, sizeof byKind); }
};
inline FaultClock & faultClock() { static FaultClock f; return f; }

struct HarnessScope
{
	HarnessScope() { ++faultClock().harnessDepth; }
	~HarnessScope() { --faultClock().harnessDepth; }
};

// returns true if this point must fail
inline bool faultTick(int kind)
{
	FaultClock & f = faultClock();
	if(! f.enabled || f.harnessDepth > 0) return false;
	if(kind == F_ALLOC ? ! f.allocPoints : ! f.userPoints) return false;
	++f.count;
	++f.byKind[kind];
	if(f.armAt != 0 && f.count == f.armAt) {
		f.armAt = 0;
		++f.fired;
		f.lastKind = kind;
		return true;
	}
	return false;
}

inline void faultPoint(int kind)
{
	if(faultTick(kind)) throw VFault(kind);
}

// ---------------------------------------------------------------- ledger
enum LedgerKind { K_CB = 0, K_PAYLOAD = 1, K_KEY = 2, K_KINDS = 3 };

struct Ledger
{
	enum { MAXID = 1 << 15 };
	std::atomic<long> live[K_KINDS];
	std::atomic<long> constructed[K_KINDS], copied[K_KINDS], moved[K_KINDS], destroyed[K_KINDS];
	std::atomic<int> * byId[K_KINDS];
	std::atomic<long> errors;

	Ledger() {
		for(int k = 0; k < K_KINDS; ++k) {
			live[k] = 0; constructed[k] = 0; copied[k] = 0; moved[k] = 0; destroyed[k] = 0;
			byId[k] = new std::atomic<int>[MAXID];
			for(int i = 0; i < MAXID; ++i) byId[k][i].store(0, std::memory_order_relaxed);
		}
		errors = 0;
	}
	void resetCase() {
		for(int k = 0; k < K_KINDS; ++k) {
			live[k].store(0, std::memory_order_relaxed);
			for(int i = 0; i < MAXID; ++i) byId[k][i].store(0, std::memory_order_relaxed);
		}
	}
	void born(int kind, int id) {
		live[kind].fetch_add(1, std::memory_order_relaxed);
		if(id >= 0 && id < MAXID) byId[kind][id].fetch_add(1, std::memory_order_relaxed);
	}
	void died(int kind, int id) {
		live[kind].fetch_sub(1, std::memory_order_relaxed);
		destroyed[kind].fetch_add(1, std::memory_order_relaxed);
		if(id >= 0 && id < MAXID) byId[kind][id].fetch_sub(1, std::memory_order_relaxed);
	}
	long liveCount(int kind) const { return live[kind].load(std::memory_order_relaxed); }
	int liveOf(int kind, int id) const { return (id >= 0 && id < MAXID) ? byId[kind][id].load(std::memory_order_relaxed) : 0; }
};
inline Ledger & ledger() { static Ledger * l = new Ledger(); return *l; }

// Lifetime errors are violations of C08 wherever they are seen.
inline void lifetimeError(const char * what, int kind, int id)
{
	ledger().errors.fetch_add(1, std::memory_order_relaxed);
	static const char * kn[] = { "callback", "payload", "key" };
	std::string key = std::string("lifetime:") + what + ":" + kn[kind];
	violation(key, std::string(what) + " of " + kn[kind] + " id=" + num(id));
}

enum : uint32_t { MAGIC_LIVE = 0x600DF00Du, MAGIC_DEAD = 0xDEADBEA7u };

// Base of every counted object.
template <int Kind>
struct Counted
{
	int id;
	uint32_t magic;
	bool movedFrom;

	explicit Counted(int id_) : id(id_), magic(MAGIC_LIVE), movedFrom(false) {
		ledger().constructed[Kind].fetch_add(1, std::memory_order_relaxed);
		ledger().born(Kind, id);
	}
	Counted(const Counted & o) : id(o.id), magic(MAGIC_LIVE), movedFrom(o.movedFrom) {
		o.checkLive("copy-from-destroyed");
		ledger().copied[Kind].fetch_add(1, std::memory_order_relaxed);
		ledger().born(Kind, id);
	}
	Counted(Counted && o) noexcept : id(o.id), magic(MAGIC_LIVE), movedFrom(o.movedFrom) {
		o.checkLive("move-from-destroyed");
		o.movedFrom = true;
		ledger().moved[Kind].fetch_add(1, std::memory_order_relaxed);
		ledger().born(Kind, id);
	}
	Counted & operator = (const Counted & o) {
		checkLive("assign-to-destroyed");
		o.checkLive("assign-from-destroyed");
		if(this != &o) {
			ledger().died(Kind, id);
			id = o.id; movedFrom = o.movedFrom;
			ledger().born(Kind, id);
			ledger().copied[Kind].fetch_add(1, std::memory_order_relaxed);
		}
		return *this;
	}
	Counted & operator = (Counted && o) noexcept {
		checkLive("assign-to-destroyed");
		o.checkLive("assign-from-destroyed");
		if(this != &o) {
			ledger().died(Kind, id);
			id = o.id; movedFrom = o.movedFrom;
			o.movedFrom = true;
			ledger().born(Kind, id);
			ledger().moved[Kind].fetch_add(1, std::memory_order_relaxed);
		}
		return *this;
	}
	~Counted() {
		if(magic != MAGIC_LIVE) {
			lifetimeError(magic == MAGIC_DEAD ? "double-destruction" : "destruction-of-garbage", Kind, magic == MAGIC_DEAD ? id : -1);
			return;
		}
		magic = MAGIC_DEAD;
		ledger().died(Kind, id);
	}
	bool checkLive(const char * what) const {
		if(magic != MAGIC_LIVE) { lifetimeError(what, Kind, magic == MAGIC_DEAD ? id : -1); return false; }
		return true;
	}
};

// ---------------------------------------------------------------- payload
// N pattern bytes derived from the id; checksum verified on every observation.
template <int N, bool Copyable = true>
struct TPayloadT
{
	Counted<K_PAYLOAD> c;
	uint64_t check;
	unsigned char pat[N];

	static uint64_t patternFor(int id, unsigned char * p) {
		uint64_t x = (uint64_t)id * 0x9E3779B97F4A7C15ULL + 12345;
		Fnv f;
		for(int i = 0; i < N; ++i) { p[i] = (unsigned char)(splitmix(x) & 0xff); }
		f.add(p, N); f.addu((uint64_t)id);
		return f.h;
	}
	explicit TPayloadT(int id) : c(id) { check = patternFor(id, pat); }
	TPayloadT() : c(-1) { check = patternFor(-1, pat); } // blank (needed by QueuedEvent for peekEvent/takeEvent)
	TPayloadT(const TPayloadT & o) : c((faultPoint(F_PL_COPY), o.c)), check(o.check) {
		static_assert(Copyable, "copy of move-only payload");
		memcpy(pat, o.pat, N);
	}
	TPayloadT(TPayloadT && o) : c((faultPoint(F_PL_MOVE), std::move(o.c))), check(o.check) { memcpy(pat, o.pat, N); }
	TPayloadT & operator = (const TPayloadT & o) {
		static_assert(Copyable, "copy of move-only payload");
		faultPoint(F_PL_COPY);
		c = o.c; check = o.check; memcpy(pat, o.pat, N);
		return *this;
	}
	TPayloadT & operator = (TPayloadT && o) {
		faultPoint(F_PL_MOVE);
		c = std::move(o.c); check = o.check; memcpy(pat, o.pat, N);
		return *this;
	}
	int id() const { return c.id; }
	// fingerprint seen by an observer: id, or a marked value if moved-from / corrupted
	long long observe() const {
		if(! c.checkLive("use-after-destruction")) return -1000000 - c.id;
		unsigned char p[N];
		uint64_t want = patternFor(c.id, p);
		if(want != check || memcmp(p, pat, N) != 0) {
			violation("payload-corrupted", "payload id=" + num(c.id) + " has a broken pattern/checksum");
			return -2000000 - c.id;
		}
		if(c.movedFrom) return -3000000 - c.id;
		return c.id;
	}
};

template <int N>
struct TMoveOnlyT : TPayloadT<N, false>
{
	explicit TMoveOnlyT(int id) : TPayloadT<N, false>(id) {}
	TMoveOnlyT() : TPayloadT<N, false>() {}
	TMoveOnlyT(TMoveOnlyT && o) : TPayloadT<N, false>(std::move(o)) {}
	TMoveOnlyT & operator = (TMoveOnlyT && o) { TPayloadT<N, false>::operator = (std::move(o)); return *this; }
	TMoveOnlyT(const TMoveOnlyT &) = delete;
	TMoveOnlyT & operator = (const TMoveOnlyT &) = delete;
};

typedef TPayloadT<24> TPayload;
typedef TMoveOnlyT<24> TMoveOnly;

// ---------------------------------------------------------------- argument fingerprints
inline long long fpOf(int v) { return v; }
inline long long fpOf(long v) { return v; }
inline long long fpOf(long long v) { return v; }
inline long long fpOf(unsigned v) { return (long long)v; }
inline long long fpOf(const std::string & s) { Fnv f; f.add(s); return (long long)(f.h & 0x3fffffffffffLL); }
template <int N, bool C> inline long long fpOf(const TPayloadT<N, C> & p) { return p.observe(); }
// a payload whose TYPE asks for 16-byte alignment (as long double, __int128 or an SSE vector does): wherever the library stores a copy,
// the copy must sit at a 16-byte aligned address (UBSan's alignment check reports the misaligned construction, this reports the use)
template <int N>
struct alignas(16) TPayloadA16T : TPayloadT<N>
{
	explicit TPayloadA16T(int id) : TPayloadT<N>(id) {}
	TPayloadA16T() {}
};
template <int N> inline long long fpOf(const TPayloadA16T<N> & p) {
	if(reinterpret_cast<uintptr_t>(&p) % 16 != 0) { violation("alignment:over-aligned-argument-stored-at-misaligned-address", "an argument of a type with alignof 16 (id=" + num(p.id()) + ") was handed out at an address that is not a multiple of 16"); return -3000000 - p.id(); }
	return p.observe();
}
typedef TPayloadA16T<24> TPayloadA16;
template <int N> inline long long fpOf(const TMoveOnlyT<N> & p) { return p.observe(); }
template <typename T> inline long long fpOf(const std::unique_ptr<T> & p) { return p ? fpOf(*p) : -7; }
template <typename T> inline long long fpOf(const std::shared_ptr<T> & p) { return p ? fpOf(*p) : -7; }

struct ArgPack
{
	long long fp[6];
	int n;
	ArgPack() : n(0) {}
	void push(long long v) { if(n < 6) fp[n++] = v; }
	std::string str() const { std::string s = "("; for(int i = 0; i < n; ++i) { if(i) s += ","; s += num(fp[i]); } return s + ")"; }
};

inline void packArgs(ArgPack &) {}
template <typename A, typename ...R>
inline void packArgs(ArgPack & p, const A & a, const R & ...r) { p.push(fpOf(a)); packArgs(p, r...); }

// non-const int lvalues among the arguments (a driver may modify them when the prototype takes int &)
struct MutInts { int * p[6]; int n; MutInts() : n(0) {} };
inline void collectMut(MutInts &) {}
template <typename A, typename ...R> inline void collectMut(MutInts & m, A && a, R && ...r);
template <typename A> inline void collectOne(MutInts &, A &&) {}
inline void collectOne(MutInts & m, int & v) { if(m.n < 6) m.p[m.n++] = &v; }
template <typename A, typename ...R> inline void collectMut(MutInts & m, A && a, R && ...r) { collectOne(m, std::forward<A>(a)); collectMut(m, std::forward<R>(r)...); }

// ---------------------------------------------------------------- callback
// Every invocation is routed to the driver through this sink.
struct CallbackSink
{
	virtual void onCall(int cbId, const ArgPack & args, MutInts & mut) = 0;
	// the library is copying callback cbId (user code running INSIDE append/insert/copy...): a driver may act from here
	virtual void onCopy(int /*cbId*/) {}
	virtual ~CallbackSink() {}
};
inline CallbackSink *& callbackSink() { static CallbackSink * s = nullptr; return s; }

template <typename T> struct IsConsumable { enum { value = ! std::is_reference<T>::value && ! std::is_const<T>::value && std::is_move_constructible<T>::value && ! std::is_scalar<T>::value }; };
template <typename A> inline typename std::enable_if<IsConsumable<A>::value>::type consumeOne(A && a) { typename std::decay<A>::type sink(std::move(a)); (void)sink; }
template <typename A> inline typename std::enable_if<! IsConsumable<A>::value>::type consumeOne(A &&) {}
inline void consumeRvalues() {}
template <typename A, typename ...R> inline void consumeRvalues(A && a, R && ...r) { consumeOne<A>(std::forward<A>(a)); consumeRvalues(std::forward<R>(r)...); }

// the TCallback object whose operator() is running on this thread (set just before the sink is told about the call)
inline const void *& invokedInstance() { static thread_local const void * p = nullptr; return p; }

struct TCallback
{
	Counted<K_CB> c;
	int tag; // free for drivers (e.g. which prototype it was created for)

	explicit TCallback(int id, int tag_ = 0) : c(id), tag(tag_) {}
	TCallback() : c(-1), tag(0) {} // "no callback" (the library never makes one today; a changed library that does still compiles against the harness)
	TCallback(const TCallback & o) : c((faultPoint(F_CB_COPY), o.c)), tag(o.tag) { CallbackSink * s = callbackSink(); if(s) s->onCopy(c.id); }
	TCallback(TCallback && o) noexcept : c(std::move(o.c)), tag(o.tag) {}
	TCallback & operator = (const TCallback & o) { faultPoint(F_CB_COPY); c = o.c; tag = o.tag; return *this; }
	TCallback & operator = (TCallback && o) noexcept { c = std::move(o.c); tag = o.tag; return *this; }
	int id() const { return c.id; }

	bool operator == (const TCallback & o) const { faultPoint(F_CB_EQ); return c.id == o.c.id; }
	bool operator != (const TCallback & o) const { return !(*this == o); }

	template <typename ...A>
	void operator() (A && ...a) const {
		if(! c.checkLive("invoke-after-destruction")) return;
		if(c.movedFrom) { lifetimeError("invoke-of-moved-from", K_CB, c.id); }
		ArgPack p;
		packArgs(p, a...);
		MutInts m;
		collectMut(m, std::forward<A>(a)...);
		faultPoint(F_CB_INVOKE);
		CallbackSink * s = callbackSink();
		invokedInstance() = this;
		if(s) s->onCall(c.id, p, m);
		// the callback may have removed itself, re-invoked its list, ... - the object that is running must survive all of that
		// until its operator() returns (the invocation keeps its node alive)
		c.checkLive("callback-object-destroyed-while-its-invocation-was-still-running");
		// behave like a listener that takes its parameters by value and consumes them: whatever arrives as an
		// rvalue is moved from.  Harmless when the library hands every listener its own copy, visible to the
		// next listener if the library forwarded a shared argument.
		consumeRvalues(std::forward<A>(a)...);
	}
};

} // namespace vf

#endif
