// drv_autoremove.cpp - online monitor of CounterRemover / ConditionalRemover
// (property C16) against M-counter / M-cond on top of M-list, M-disp, M-queue
// (DESIGN §4, §5 C16).  C++17.
//
// Model per wrapped listener W:
//   CounterRemover, count n : W is invoked by every trigger that reaches it (M-list
//       snapshot rule) until it has been invoked max(n,1) times; the wrapper
//       detaches BEFORE the max(n,1)-th call of the listener, so a trigger issued
//       from inside that last call (re-entrant) no longer finds W.
//   ConditionalRemover, scripted outcomes o1 o2 ... : each trigger that reaches W
//       evaluates the condition exactly once (with the trigger's arguments if it
//       takes them), then invokes W; W is detached before the call of the first
//       trigger whose outcome is true.
// "A trigger reaches W" = M-list invocation rule: W is in the snapshot taken when
// the trigger starts and still attached at its turn.  Triggers are direct
// (invoke / dispatch), queued (EventQueue enqueue + process, also nested process)
// and re-entrant from inside listeners (depth <= 3).  Every trigger carries a
// unique first argument, so every observed call is attributed to its trigger.
//
// configs (caseNo % 7, or --opt cfg=N): 0 CallbackList<void(int,int)>,
//   1 EventDispatcher<int,void(int,int)>, 2 EventQueue<int,void(int,int)>,
//   3 HeterCallbackList<void(int,int),void(int)>, 4 HeterEventDispatcher<int,...same...>,
//   5 CallbackList and 6 EventQueue with a canContinueInvoking policy that stops after the first listener for marked triggers;
//   a sixth of the histories of 0-2,5,6 place the generation counter just before its wrap (no nested operations there)
// options: --opt ops=N, --opt nested=0 (no operations from inside listeners)
#include "vcommon.h"
#include "vledger.h"
#include "vaccess.h"

#include <eventpp/callbacklist.h>
#include <eventpp/eventdispatcher.h>
#include <eventpp/eventqueue.h>
#include <eventpp/hetercallbacklist.h>
#include <eventpp/hetereventdispatcher.h>
#include <eventpp/utilities/counterremover.h>
#include <eventpp/utilities/conditionalremover.h>

#include <algorithm>
#include <deque>

using namespace vf;

// ------------------------------------------------------------------ listener / condition types
struct CondSink { virtual bool onCond(int wid, bool hasArgs, int a, int b) = 0; virtual void onCondState(int wid, int seen) = 0; virtual ~CondSink() {} };
static CondSink * gCondSink = nullptr;

struct L2 { TCallback cb; explicit L2(int id) : cb(id) {} void operator() (int a, int b) const { cb(a, b); } };
struct L1 { TCallback cb; explicit L1(int id) : cb(id) {} void operator() (int a) const { cb(a); } };
// CondA keeps state of its own (how often it was evaluated): the remover must evaluate the condition object it STORES, every time
struct CondA { int wid; mutable int seen; bool operator() (int a, int b) const { ++seen; if(gCondSink) gCondSink->onCondState(wid, seen); return gCondSink ? gCondSink->onCond(wid, true, a, b) : false; } };
// callable with the trigger's arguments AND with none (default arguments): the statement says "with the trigger's arguments if it accepts them"
struct CondB { int wid; bool operator() (int a = -12345, int b = -12345) const { return gCondSink ? gCondSink->onCond(wid, true, a, b) : false; } };
struct CondN { int wid; bool operator() () const { return gCondSink ? gCondSink->onCond(wid, false, 0, 0) : false; } };

static int keyVal(int k) { return 11 * (k + 1); }

template <typename H> static auto handleAlive(const H & h, int) -> decltype(h.homoHandle.expired()) { return ! h.homoHandle.expired(); }
template <typename H> static bool handleAlive(const H & h, long) { return ! h.expired(); }

// ------------------------------------------------------------------ target adaptors
// a canContinueInvoking policy that looks at the trigger's arguments only: a trigger that carries STOPBIT reaches exactly the first listener
enum { STOPBIT = 0x1000 };
struct PolStop { static bool canContinueInvoking(int, int b) { return (b & STOPBIT) == 0; } };
template <typename T_, int NP, int CC = 0>
struct ListAd
{
	typedef T_ T;
	typedef typename T::Handle Handle;
	enum { NKEYS = 1, NPROTO = NP, QUEUED = 0, HASCC = CC, CANPLACE = NP == 1 };
	// puts the list's generation counter `dist` additions before its wrap (guarded friend hook); not for the heterogeneous list
	bool placeCounter(unsigned dist) { if constexpr (NP == 1) { if(eventpp_verif::Access::counter(t) >= 0x80000000u) return false; /* never move it backwards: linked nodes carry generations up to the current one */ eventpp_verif::Access::setCounter(t, 0xffffffffu - dist); return true; } else { (void)dist; return false; } }
	T t;
	eventpp::CounterRemover<T> cr;
	eventpp::ConditionalRemover<T> cdr;
	ListAd() : t(), cr(t), cdr(t) {}

	template <typename F> Handle addPlain(int, int where, const F & f, const Handle & before) {
		if(where == 0) return t.append(f);
		if(where == 1) return t.prepend(f);
		return t.insert(f, before);
	}
	template <typename R, typename F> static Handle addCounterWith(R && r, int where, const F & f, const Handle & before, int n, bool dflt) {
		if(dflt) {
			if(where == 0) return r.append(f);
			if(where == 1) return r.prepend(f);
			return r.insert(f, before);
		}
		if(where == 0) return r.append(f, n);
		if(where == 1) return r.prepend(f, n);
		return r.insert(f, before, n);
	}
	template <typename F> Handle addCounter(int, int where, const F & f, const Handle & before, int n, bool dflt, bool persistent) {
		if(persistent) return addCounterWith(cr, where, f, before, n, dflt);
		return addCounterWith(eventpp::counterRemover(t), where, f, before, n, dflt); // helper destroyed at the end of this statement
	}
	template <typename R, typename F, typename C> static Handle addCondWith(R && r, int where, const F & f, const Handle & before, const C & c) {
		if(where == 0) return r.append(f, c);
		if(where == 1) return r.prepend(f, c);
		return r.insert(f, before, c);
	}
	template <typename F, typename C> Handle addCond(int, int where, const F & f, const Handle & before, const C & c, bool persistent) {
		if(persistent) return addCondWith(cdr, where, f, before, c);
		return addCondWith(eventpp::conditionalRemover(t), where, f, before, c);
	}
	bool remove(int, const Handle & h) { return t.remove(h); }
	void trigger(int, int proto, int a, int b) {
		if constexpr (NP > 1) { if(proto == 1) { t(a); return; } }
		(void)proto;
		t(a, b);
	}
	void enqueue(int, int, int) {}
	void process() {}
};

template <typename T_, int NP, int Queued, int CC = 0>
struct DispAd
{
	typedef T_ T;
	typedef typename T::Handle Handle;
	enum { NKEYS = 2, NPROTO = NP, QUEUED = Queued, HASCC = CC, CANPLACE = NP == 1 };
	bool placeCounter(unsigned dist) {
		bool any = false;
		if constexpr (NP == 1) { for(int k = 0; k < 2; ++k) { auto * l = eventpp_verif::Access::findList(t, keyVal(k)); if(l && eventpp_verif::Access::counter(*l) < 0x80000000u) { eventpp_verif::Access::setCounter(*l, 0xffffffffu - dist); any = true; } } }
		else (void)dist;
		return any;
	}
	T t;
	eventpp::CounterRemover<T> cr;
	eventpp::ConditionalRemover<T> cdr;
	DispAd() : t(), cr(t), cdr(t) {}

	template <typename F> Handle addPlain(int key, int where, const F & f, const Handle & before) {
		if(where == 0) return t.appendListener(keyVal(key), f);
		if(where == 1) return t.prependListener(keyVal(key), f);
		return t.insertListener(keyVal(key), f, before);
	}
	template <typename R, typename F> static Handle addCounterWith(R && r, int key, int where, const F & f, const Handle & before, int n, bool dflt) {
		if(dflt) {
			if(where == 0) return r.appendListener(keyVal(key), f);
			if(where == 1) return r.prependListener(keyVal(key), f);
			return r.insertListener(keyVal(key), f, before);
		}
		if(where == 0) return r.appendListener(keyVal(key), f, n);
		if(where == 1) return r.prependListener(keyVal(key), f, n);
		return r.insertListener(keyVal(key), f, before, n);
	}
	template <typename F> Handle addCounter(int key, int where, const F & f, const Handle & before, int n, bool dflt, bool persistent) {
		if(persistent) return addCounterWith(cr, key, where, f, before, n, dflt);
		return addCounterWith(eventpp::counterRemover(t), key, where, f, before, n, dflt);
	}
	template <typename R, typename F, typename C> static Handle addCondWith(R && r, int key, int where, const F & f, const Handle & before, const C & c) {
		if(where == 0) return r.appendListener(keyVal(key), f, c);
		if(where == 1) return r.prependListener(keyVal(key), f, c);
		return r.insertListener(keyVal(key), f, before, c);
	}
	template <typename F, typename C> Handle addCond(int key, int where, const F & f, const Handle & before, const C & c, bool persistent) {
		if(persistent) return addCondWith(cdr, key, where, f, before, c);
		return addCondWith(eventpp::conditionalRemover(t), key, where, f, before, c);
	}
	bool remove(int key, const Handle & h) { return t.removeListener(keyVal(key), h); }
	void trigger(int key, int proto, int a, int b) {
		if constexpr (NP > 1) { if(proto == 1) { t.dispatch(keyVal(key), a); return; } }
		(void)proto;
		t.dispatch(keyVal(key), a, b);
	}
	void enqueue(int key, int a, int b) { if constexpr (Queued != 0) t.enqueue(keyVal(key), a, b); else { (void)key; (void)a; (void)b; } }
	void process() { if constexpr (Queued != 0) t.process(); }
};

typedef eventpp::HeterTuple<void(int, int), void(int)> HProtos;
typedef ListAd<eventpp::CallbackList<void(int, int)>, 1> Ad0;
typedef DispAd<eventpp::EventDispatcher<int, void(int, int)>, 1, 0> Ad1;
typedef DispAd<eventpp::EventQueue<int, void(int, int)>, 1, 1> Ad2;
typedef ListAd<eventpp::HeterCallbackList<HProtos>, 2> Ad3;
typedef DispAd<eventpp::HeterEventDispatcher<int, HProtos>, 2, 0> Ad4;
typedef ListAd<eventpp::CallbackList<void(int, int), PolStop>, 1, 1> Ad5;
typedef DispAd<eventpp::EventQueue<int, void(int, int), PolStop>, 1, 1, 1> Ad6;
static const char * kCfgName[] = { "CallbackList<void(int,int)>", "EventDispatcher<int,void(int,int)>", "EventQueue<int,void(int,int)>",
	"HeterCallbackList<void(int,int),void(int)>", "HeterEventDispatcher<int,void(int,int),void(int)>",
	"CallbackList<void(int,int)> canContinueInvoking policy on the arguments", "EventQueue<int,void(int,int)> canContinueInvoking policy on the arguments" };

// ------------------------------------------------------------------ model
enum NKind { NK_PLAIN, NK_COUNTER, NK_COND_ARGS, NK_COND_NOARGS };

struct MNode
{
	int cbid, li, kind;
	bool live;       // attached (M-list)
	bool detached;   // detached by its own wrapper
	int n, remaining;             // counter
	std::vector<bool> script; bool tail; int evals; // condition
	int calls;
};

static std::string nclass(int n) { return n <= 0 ? "n<=0" : n == 1 ? "n=1" : "n>1"; }

template <typename Ad>
struct World : CallbackSink, CondSink
{
	typedef typename Ad::Handle Handle;
	enum { NKEYS = Ad::NKEYS, NPROTO = Ad::NPROTO, NL = NKEYS * NPROTO, MAXDEPTH = 3 };

	Rng & rng;
	Ad ad;
	std::vector<MNode> nodes;
	std::vector<Handle> hs;
	std::vector<int> order[NL];
	bool listHasDetached[NL];

	struct Frame { int li, a, b; std::vector<int> snap; size_t pos; int curUid; bool cut; /* canContinueInvoking is false for this trigger and one listener has run */ };
	std::vector<Frame> frames;
	struct QEv { int key, a, b; };
	std::deque<QEv> pending;
	struct PCtx { std::vector<QEv> batch; size_t idx; bool frameOpen; size_t frameBase; };
	std::vector<PCtx> pctxs;
	struct PendingCond { bool active; int uid; bool outcome, hasArgs; int a, b; } pc;

	int serial, nextCb, budget;
	bool allowNested, dead, nontrivial, nearWrap;
	Fnv trace;

	World(Rng & r) : rng(r), serial(0), nextCb(0), budget(0), allowNested(true), dead(false), nontrivial(false), nearWrap(false) {
		frames.reserve(16);
		pc.active = false;
		for(int i = 0; i < NL; ++i) listHasDetached[i] = false;
	}

	std::string pre() const { return std::string(frames.size() * 2, ' '); }
	void log(const std::string & s) { oplog(pre() + s); trace.add(s); }
	void fail(const std::string & key, const std::string & desc) {
		violation(key, desc);
		count(("viol." + key).c_str());
		oplog(pre() + "!! " + key + " :: " + desc);
		dead = true;
	}
	static int keyOf(int li) { return li / NPROTO; }
	static int protoOf(int li) { return li % NPROTO; }
	std::string lname(int li) const { return "L" + num(li) + (NKEYS > 1 ? "(k" + num(keyVal(keyOf(li))) + (NPROTO > 1 ? (protoOf(li) ? ",void(int)" : ",void(int,int)") : "") + ")" : NPROTO > 1 ? (protoOf(li) ? "(void(int))" : "(void(int,int))") : std::string()); }
	static const char * kindName(int k) { return k == NK_PLAIN ? "plain" : k == NK_COUNTER ? "counter" : "conditional"; }
	std::string nname(int uid) const {
		const MNode & n = nodes[uid];
		std::string s = "u" + num(uid) + "/cb" + num(n.cbid) + "[" + kindName(n.kind);
		if(n.kind == NK_COUNTER) s += " n=" + num(n.n);
		if(n.kind == NK_COND_ARGS) s += "(a,b)";
		if(n.kind == NK_COND_NOARGS) s += "()";
		return s + "]";
	}
	int uidOfCb(int cbid) const { return cbid >= 0 && cbid < (int)nodes.size() && nodes[cbid].cbid == cbid ? cbid : -1; } // cbid == uid by construction

	int pickNode(int li, int wantLive /*1 live, 0 removed, -1 any*/, int wantPlain /*1 plain only, -1 any*/) {
		std::vector<int> c;
		for(size_t i = 0; i < nodes.size(); ++i) {
			const MNode & n = nodes[i];
			if(n.li != li) continue;
			if(wantLive >= 0 && (int)n.live != wantLive) continue;
			if(wantPlain == 1 && n.kind != NK_PLAIN) continue;
			c.push_back((int)i);
		}
		return c.empty() ? -1 : c[rng.below((uint32_t)c.size())];
	}

	void mDetach(int uid) {
		MNode & n = nodes[uid];
		std::vector<int> & o = order[n.li];
		o.erase(std::find(o.begin(), o.end(), uid));
		n.live = false;
	}

	// ---------- add / remove
	void doAdd(int li, int kind) {
		const int key = keyOf(li), proto = protoOf(li);
		const int where = (int)rng.below(3);
		int before = -1;
		if(where == 2) {
			const uint32_t c = rng.below(10);
			if(c < 6) before = pickNode(li, 1, -1);
			else if(c < 8) before = pickNode(li, 0, -1);
		}
		const Handle hb = before >= 0 ? hs[before] : Handle();
		const int cbid = nextCb++;
		MNode n;
		n.cbid = cbid; n.li = li; n.kind = kind; n.live = true; n.detached = false; n.n = 1; n.remaining = 0; n.tail = false; n.evals = 0; n.calls = 0;
		const bool persistent = rng.chance(1, 3);
		bool dflt = false;
		std::string what;
		Handle h;
		if(kind == NK_COUNTER) {
			n.n = rng.range(-3, 6);
			if(rng.chance(1, 8)) { n.n = 1; dflt = true; }
			n.remaining = std::max(n.n, 1);
			what = std::string("CounterRemover") + (persistent ? "(kept)" : "(temporary)") + " n=" + (dflt ? std::string("default") : num(n.n));
			if constexpr (NPROTO > 1) { if(proto == 1) h = ad.addCounter(key, where, L1(cbid), hb, n.n, dflt, persistent); }
			if(proto == 0) h = ad.addCounter(key, where, L2(cbid), hb, n.n, dflt, persistent);
			count(("wrapped.counter." + nclass(n.n)).c_str());
		}
		else if(kind == NK_COND_ARGS || kind == NK_COND_NOARGS) {
			const int len = (int)rng.below(7);
			for(int i = 0; i < len; ++i) n.script.push_back(rng.chance(1, 4));
			n.tail = rng.chance(2, 3);
			std::string sc;
			for(int i = 0; i < len; ++i) sc += n.script[i] ? '1' : '0';
			sc += n.tail ? "1*" : "0*";
			what = std::string("ConditionalRemover") + (persistent ? "(kept)" : "(temporary)") + (kind == NK_COND_ARGS ? " cond(a,b)" : " cond()") + " script=" + sc;
			if(kind == NK_COND_ARGS && cbid % 3 == 0) { CondB c; c.wid = cbid; h = ad.addCond(key, where, L2(cbid), hb, c, persistent); count("wrapped.conditional.callable_both_ways"); }
			else if(kind == NK_COND_ARGS) { CondA c; c.wid = cbid; c.seen = 0; h = ad.addCond(key, where, L2(cbid), hb, c, persistent); }
			else { CondN c; c.wid = cbid; h = ad.addCond(key, where, L2(cbid), hb, c, persistent); }
			count(kind == NK_COND_ARGS ? "wrapped.conditional.with_args" : "wrapped.conditional.no_args");
		}
		else {
			what = "plain";
			if constexpr (NPROTO > 1) { if(proto == 1) h = ad.addPlain(key, where, L1(cbid), hb); }
			if(proto == 0) h = ad.addPlain(key, where, L2(cbid), hb);
			count("plain.added");
		}
		if(kind != NK_PLAIN) count(persistent ? "helper.kept_alive" : "helper.destroyed_after_registration");
		nodes.push_back(n); hs.push_back(h);
		const int uid = (int)nodes.size() - 1;
		std::vector<int> & o = order[li];
		if(where == 0) o.push_back(uid);
		else if(where == 1) o.insert(o.begin(), uid);
		else if(before >= 0 && nodes[before].live) o.insert(std::find(o.begin(), o.end(), before), uid);
		else o.push_back(uid);
		static const char * wn[] = { "append", "prepend", "insert" };
		log(std::string("add ") + what + " " + wn[where] + " " + lname(li)
			+ (where == 2 ? " before " + (before >= 0 ? "u" + num(before) + (nodes[before].live ? "" : "(removed)") : std::string("(empty handle)")) : std::string()) + " -> u" + num(uid));
		if(! frames.empty()) count("nested.add");
		if(! handleAlive(h, 0)) fail("add:returned-dead-handle", "adding " + nname(uid) + " returned an expired handle");
	}

	void doRemovePlain(int li) {
		int uid = rng.chance(5, 6) ? pickNode(li, 1, 1) : pickNode(li, 0, 1);
		if(uid < 0) return;
		const bool expect = nodes[uid].live;
		const bool got = ad.remove(keyOf(li), hs[uid]);
		if(expect) mDetach(uid);
		log("remove plain u" + num(uid) + (expect ? "" : "(already removed)") + " from " + lname(li) + " -> " + num(got));
		count("plain.removed");
		if(! frames.empty()) count("nested.remove");
		if(got != expect) fail("remove-plain:result", "remove returned " + num(got) + " for " + nname(uid) + ", model says " + num(expect));
	}

	// ---------- frames
	void pushFrame(int li, int a, int b) {
		Frame f; f.li = li; f.a = a; f.b = b; f.snap = order[li]; f.pos = 0; f.curUid = -1; f.cut = false;
		frames.push_back(f);
		countMax("max_depth", frames.size());
		if(listHasDetached[li]) { nontrivial = true; count("triggers.after_a_detachment_in_that_list"); }
	}

	std::string missedKey(int uid) const {
		const MNode & n = nodes[uid];
		if(n.kind == NK_PLAIN) return "trigger:plain-listener-not-invoked";
		if(n.kind == NK_COUNTER) return "counter:not-invoked-while-count-remaining:" + nclass(n.n);
		return "conditional:not-invoked-before-condition-held";
	}

	// nextEventStarted: the frame of a queued event is closed because a later event of the same process() shows activity;
	// a pending condition evaluation then belongs to that later event
	void popFrame(bool nextEventStarted = false) {
		if(! dead) {
			Frame & f = frames.back();
			if(pc.active && ! nextEventStarted) fail("conditional:condition-evaluated-but-listener-not-invoked", "condition of " + nname(pc.uid) + " was evaluated and the trigger ended without invoking the listener");
			for(size_t i = f.pos; i < f.snap.size() && ! dead && ! f.cut; ++i) {
				if(nodes[f.snap[i]].live) {
					const MNode & n = nodes[f.snap[i]];
					fail(missedKey(f.snap[i]), "trigger a=" + num(f.a) + " of " + lname(f.li) + " ended without invoking " + nname(f.snap[i])
						+ (n.kind == NK_COUNTER ? " (invoked " + num(n.calls) + " time(s) so far, must be " + num(std::max(n.n, 1)) + ")" : std::string()));
				}
			}
		}
		frames.pop_back();
	}

	bool runningBelow(int uid) const { for(size_t i = 0; i < frames.size(); ++i) if(frames[i].curUid == uid) return true; return false; }

	// the frame the call with first argument `a` belongs to; opens the next queued event of the innermost process() if needed
	bool resolveFrame(int a, int cbid) {
		if(! frames.empty() && frames.back().a == a) return true;
		if(! pctxs.empty()) {
			PCtx & p = pctxs.back();
			if(frames.size() == p.frameBase + (p.frameOpen ? 1 : 0)) {
				size_t j = p.idx;
				while(j < p.batch.size() && p.batch[j].a != a) ++j;
				if(j < p.batch.size()) {
					if(p.frameOpen) { popFrame(true); p.frameOpen = false; log("event done"); }
					if(dead) return false;
					for(size_t k = p.idx; k < j && ! dead; ++k) skippedEvent(p.batch[k]);
					if(dead) return false;
					p.idx = j + 1;
					const QEv e = p.batch[j];
					log("queued event k" + num(keyVal(e.key)) + " (" + num(e.a) + "," + num(e.b) + ") is dispatched");
					pushFrame(e.key * NPROTO, e.a, e.b);
					pctxs.back().frameOpen = true;
					return true;
				}
			}
		}
		fail("trigger:call-attributed-to-no-trigger-in-progress", "cb" + num(cbid) + " invoked with first argument " + num(a) + " which is not the trigger in progress");
		return false;
	}
	// a queued event was passed over without any call: nothing may have been expected
	void skippedEvent(const QEv & e) {
		const std::vector<int> & o = order[e.key * NPROTO];
		if(! o.empty()) fail(missedKey(o[0]), "queued event (" + num(e.a) + "," + num(e.b) + ") of k" + num(keyVal(e.key)) + " was processed without invoking " + nname(o[0]));
		else { log("queued event k" + num(keyVal(e.key)) + " (" + num(e.a) + ") has no listener"); if(listHasDetached[e.key * NPROTO]) { nontrivial = true; count("triggers.after_a_detachment_in_that_list"); } }
	}

	// a condition that counts its own evaluations: the count kept inside the stored condition object must advance with every evaluation
	void onCondState(int wid, int seen) override {
		if(dead) return;
		const int uid = uidOfCb(wid);
		if(uid < 0) return;
		if(seen != nodes[uid].evals + 1) fail("conditional:state-kept-in-the-condition-object-is-lost", "condition of " + nname(uid) + " sees its own evaluation count " + num(seen) + " at evaluation #" + num(nodes[uid].evals + 1) + " (a fresh copy of the condition evaluated each time?)");
		else count("condition_state_checked");
	}
	// ---------- the library evaluates a condition
	bool onCond(int wid, bool hasArgs, int a, int b) override {
		if(dead) return false;
		const int uid = uidOfCb(wid);
		if(uid < 0 || (nodes[uid].kind != NK_COND_ARGS && nodes[uid].kind != NK_COND_NOARGS)) { fail("conditional:unknown-condition-evaluated", "condition " + num(wid)); return false; }
		count("condition_evaluations");
		if(pc.active) {
			if(pc.uid == uid) fail("conditional:condition-evaluated-twice-for-one-trigger", "condition of " + nname(uid) + " evaluated again before its listener was invoked");
			else fail("conditional:condition-evaluated-but-listener-not-invoked", "condition of " + nname(pc.uid) + " was evaluated, then the condition of " + nname(uid));
			return false;
		}
		MNode & n = nodes[uid];
		if(n.detached) { fail(std::string("conditional:condition-evaluated-after-detachment") + (runningBelow(uid) ? ":reentrant-during-last-call" : ":later-trigger"), "condition of " + nname(uid) + " evaluated after the trigger whose condition held"); return false; }
		if(hasArgs != (n.kind == NK_COND_ARGS)) { fail("conditional:wrong-condition-overload", nname(uid)); return false; }
		const bool outcome = n.evals < (int)n.script.size() ? (bool)n.script[n.evals] : n.tail;
		++n.evals;
		pc.active = true; pc.uid = uid; pc.outcome = outcome; pc.hasArgs = hasArgs; pc.a = a; pc.b = b;
		log("cond u" + num(uid) + (hasArgs ? "(" + num(a) + "," + num(b) + ")" : std::string("()")) + " #" + num(n.evals) + " -> " + num(outcome));
		return outcome;
	}

	// ---------- the library invokes a listener
	void onCall(int cbid, const ArgPack & args, MutInts &) override {
		if(dead) return;
		const int uid = uidOfCb(cbid);
		if(uid < 0) { fail("trigger:unknown-callback-invoked", "cb" + num(cbid)); return; }
		const int proto = protoOf(nodes[uid].li);
		if(args.n != (proto == 0 ? 2 : 1)) { fail("trigger:arguments", nname(uid) + " received " + args.str()); return; }
		if(pc.active && pc.uid != uid) { fail("conditional:condition-evaluated-but-listener-not-invoked", "condition of " + nname(pc.uid) + " was evaluated, then " + nname(uid) + " was invoked"); return; }
		if(! resolveFrame((int)args.fp[0], cbid)) return;
		const size_t fi = frames.size() - 1;
		{
			Frame & f = frames[fi];
			const MNode & n = nodes[uid];
			if(f.cut) { fail("trigger:listener-invoked-after-canContinueInvoking-returned-false", nname(uid) + " invoked by trigger (" + num(f.a) + "," + num(f.b) + ") of " + lname(f.li) + " for which the policy stops the invocation after the first listener"); return; }
			size_t p = f.pos;
			while(p < f.snap.size() && ! nodes[f.snap[p]].live) ++p;
			if(! (p < f.snap.size() && f.snap[p] == uid)) {
				std::string key;
				const std::string exp = p < f.snap.size() ? nname(f.snap[p]) : std::string("no further listener");
				if(n.li != f.li) key = "trigger:listener-invoked-for-wrong-list";
				else if(n.detached) key = std::string(kindName(n.kind)) + ":invoked-after-detachment" + (n.kind == NK_COUNTER ? ":" + nclass(n.n) : std::string()) + (runningBelow(uid) ? ":reentrant-during-last-call" : ":later-trigger");
				else if(! n.live) key = "trigger:removed-listener-invoked";
				else {
					const std::vector<int>::const_iterator it = std::find(f.snap.begin(), f.snap.end(), uid);
					if(it == f.snap.end()) key = "trigger:listener-added-during-trigger-invoked";
					else if((size_t)(it - f.snap.begin()) < f.pos) key = "trigger:listener-invoked-twice";
					else key = missedKey(f.snap[p]);
				}
				fail(key, nname(uid) + " invoked " + args.str() + " by trigger a=" + num(f.a) + " of " + lname(f.li) + " (invoked " + num(n.calls) + " time(s) before"
					+ (n.kind == NK_COUNTER ? ", count " + num(n.n) : std::string()) + "); model expected " + exp);
				return;
			}
			f.pos = p + 1;
			f.curUid = uid;
			if(Ad::HASCC && (f.b & STOPBIT)) { f.cut = true; count("canContinue.trigger_cut_after_first_listener"); if(p + 1 < f.snap.size()) count("canContinue.listeners_suppressed", f.snap.size() - p - 1); }
			if(args.fp[0] != f.a || (proto == 0 && args.fp[1] != f.b)) { fail("trigger:arguments", nname(uid) + " received " + args.str() + ", trigger carries (" + num(f.a) + "," + num(f.b) + ")"); return; }
		}
		bool justDetached = false;
		{
			MNode & n = nodes[uid];
			++n.calls;
			count("listener_calls");
			if(n.kind == NK_COUNTER) {
				if(--n.remaining == 0) justDetached = true;
			}
			else if(n.kind != NK_PLAIN) {
				if(! pc.active) { fail("conditional:listener-invoked-without-evaluating-condition", nname(uid)); return; }
				if(pc.hasArgs && (pc.a != frames[fi].a || pc.b != frames[fi].b)) { fail("conditional:condition-arguments", "condition of " + nname(uid) + " received (" + num(pc.a) + "," + num(pc.b) + "), trigger carries (" + num(frames[fi].a) + "," + num(frames[fi].b) + ")"); return; }
				if(pc.outcome) justDetached = true;
				pc.active = false;
			}
			log("call " + nname(uid) + args.str() + (n.kind == NK_COUNTER ? " #" + num(n.calls) + "/" + num(std::max(n.n, 1)) : std::string()) + (justDetached ? " (last: detached)" : ""));
			if(justDetached) {
				n.detached = true;
				mDetach(uid);
				listHasDetached[n.li] = true;
				count(n.kind == NK_COUNTER ? "detached.counter" : "detached.conditional");
				if(frames.size() > 1) count("detached.in_nested_trigger");
				if(fi > 0 && ! pctxs.empty()) count("detached.under_process");
			}
		}
		nestedActions(uid, justDetached);
		if(! dead && fi < frames.size()) frames[fi].curUid = -1;
	}

	// ---------- triggers
	void doTrigger(int li, int reentrantOf /* uid or -1 */, bool lastCall) {
		const int a = ++serial, b = (int)rng.below(50) | ((Ad::HASCC && rng.chance(1, 4)) ? (int)STOPBIT : 0);
		log("trigger " + lname(li) + " (" + num(a) + (protoOf(li) == 0 ? "," + num(b) : std::string()) + ")");
		count(frames.empty() ? "triggers.direct_top_level" : "triggers.direct_nested");
		if(reentrantOf >= 0 && nodes[reentrantOf].kind != NK_PLAIN) {
			count("triggers.reentrant_from_wrapped_listener");
			if(lastCall) count("triggers.reentrant_during_last_allowed_call");
		}
		pushFrame(li, a, b);
		ad.trigger(keyOf(li), protoOf(li), a, b);
		popFrame();
		log("trigger done");
	}
	void doEnqueue(int key) {
		QEv e; e.key = key; e.a = ++serial; e.b = (int)rng.below(50) | ((Ad::HASCC && rng.chance(1, 4)) ? (int)STOPBIT : 0);
		pending.push_back(e);
		ad.enqueue(key, e.a, e.b);
		log("enqueue k" + num(keyVal(key)) + " (" + num(e.a) + "," + num(e.b) + ")");
		count(frames.empty() ? "queue.enqueue_top_level" : "queue.enqueue_nested");
	}
	void doProcess() {
		PCtx p; p.batch.assign(pending.begin(), pending.end()); p.idx = 0; p.frameOpen = false; p.frameBase = frames.size();
		pending.clear();
		log("process (" + num((long long)p.batch.size()) + " queued)");
		count(frames.empty() ? "queue.process_top_level" : "queue.process_nested");
		count("triggers.queued", p.batch.size());
		pctxs.push_back(p);
		ad.process();
		if(pctxs.back().frameOpen) { popFrame(); pctxs.back().frameOpen = false; if(! dead) log("event done"); }
		for(size_t k = pctxs.back().idx; k < pctxs.back().batch.size() && ! dead; ++k) skippedEvent(pctxs.back().batch[k]);
		pctxs.pop_back();
		log("process done");
	}

	void nestedActions(int uid, bool justDetached) {
		if(! allowNested || dead || budget <= 0) return;
		const int li = nodes[uid].li;
		const int kind = nodes[uid].kind;
		const uint32_t p = justDetached ? 80 : kind != NK_PLAIN ? 50 : 22;
		if(! rng.chance(p, 100)) return;
		const int cnt = 1 + (int)rng.below(2);
		for(int i = 0; i < cnt && budget > 0 && ! dead; ++i) {
			--budget;
			count("nested.actions");
			const uint32_t c = rng.below(100);
			const bool canTrigger = (int)frames.size() < MAXDEPTH;
			if(c < (justDetached ? 70u : 50u) && canTrigger) doTrigger(li, uid, justDetached);
			else if(c < 60 && canTrigger) doTrigger((int)rng.below(NL), -1, false);
			else if(c < 70) doAdd(rng.chance(2, 3) ? li : (int)rng.below(NL), NK_PLAIN);
			else if(c < 78) doAddWrapped(rng.chance(2, 3) ? li : (int)rng.below(NL));
			else if(c < 88) doRemovePlain(rng.chance(2, 3) ? li : (int)rng.below(NL));
			else if(Ad::QUEUED && c < 95) doEnqueue(rng.chance(2, 3) ? keyOf(li) : (int)rng.below(NKEYS));
			else if(Ad::QUEUED && canTrigger && pctxs.size() < 2) doProcess();
			else doRemovePlain(li);
		}
	}

	void doAddWrapped(int li) {
		if(nodes.size() >= 60) return;
		const uint32_t c = rng.below(10);
		int kind = c < 5 ? NK_COUNTER : c < 8 ? NK_COND_ARGS : NK_COND_NOARGS;
		if(protoOf(li) == 1) kind = NK_COUNTER; // the ConditionalRemover wrapper always binds to the first prototype of a heterogeneous list
		doAdd(li, kind);
	}

	void step() {
		const int li = (int)rng.below(NL);
		const uint32_t c = rng.below(100);
		// near-wrap histories (no operations from inside listeners there, so no invocation is in progress when the counter wraps)
		if(nearWrap && rng.chance(1, 8)) { const unsigned dist = rng.below(10); if(ad.placeCounter(dist)) { log("generation counter(s) placed " + num((long long)dist) + " addition(s) before the wrap"); count("wrap.counter_placed"); } return; }
		if(c < 24) doAddWrapped(li);
		else if(c < 36) { if(nodes.size() < 60) doAdd(li, NK_PLAIN); }
		else if(c < 44) doRemovePlain(li);
		else if(Ad::QUEUED && c < 58) doEnqueue(keyOf(li));
		else if(Ad::QUEUED && c < 68) doProcess();
		else doTrigger(li, -1, false);
	}

	void quiescent() {
		if(dead) return;
		if(! frames.empty() || ! pctxs.empty()) { fail("harness:frames-left", "frame stack not empty at top level"); return; }
		if(pc.active) { fail("conditional:condition-evaluated-but-listener-not-invoked", "condition of " + nname(pc.uid) + " evaluated outside its trigger"); return; }
		for(size_t i = 0; i < nodes.size(); ++i) {
			const MNode & n = nodes[i];
			if(n.kind == NK_COND_ARGS || n.kind == NK_COND_NOARGS) {
				if(n.evals != n.calls) { fail("conditional:evaluations-differ-from-invocations", nname((int)i) + ": " + num(n.evals) + " evaluations, " + num(n.calls) + " invocations"); return; }
			}
			if(n.kind == NK_COUNTER && n.calls > std::max(n.n, 1)) { fail("counter:invoked-more-than-count:" + nclass(n.n), nname((int)i) + " invoked " + num(n.calls) + " times"); return; }
		}
	}

	void run(int nops) {
		callbackSink() = this;
		gCondSink = this;
		for(int i = 0; i < nops && ! dead; ++i) { budget = 24; step(); quiescent(); }
		// drain the queue, then trigger every list a few more times: detached listeners must stay silent
		if(! dead && Ad::QUEUED) { budget = 24; doProcess(); quiescent(); }
		for(int round = 0; round < 3 && ! dead; ++round) {
			if(round == 2) allowNested = false;
			for(int li = 0; li < NL && ! dead; ++li) { budget = 12; doTrigger(li, -1, false); quiescent(); }
		}
		for(size_t i = 0; i < nodes.size(); ++i) {
			const MNode & n = nodes[i];
			if(n.kind == NK_COUNTER) count(n.detached ? "final.counter_detached" : "final.counter_still_attached");
			else if(n.kind != NK_PLAIN) count(n.detached ? "final.conditional_detached" : "final.conditional_still_attached");
		}
		callbackSink() = nullptr;
		gCondSink = nullptr;
	}
};

// ------------------------------------------------------------------ case runner
static uint64_t gTraceXor = 0;

template <typename Ad>
static void runCfg(Rng & rng, uint64_t caseNo, int cfgIndex)
{
	ledger().resetCase();
	const long long fixedOps = ctx().optInt("ops", 0);
	const int nops = fixedOps > 0 ? (int)fixedOps : rng.range(8, 40);
	uint64_t h;
	bool nontrivial;
	{
		World<Ad> w(rng);
		w.allowNested = ctx().optInt("nested", 1) != 0;
		if(Ad::CANPLACE && rng.chance(1, 6)) { w.nearWrap = true; w.allowNested = false; count("near_wrap_histories"); }
		oplog(std::string("config ") + num(cfgIndex) + ": " + kCfgName[cfgIndex] + " ops=" + num(nops));
		w.run(nops);
		h = w.trace.h;
		nontrivial = w.nontrivial;
		count("listeners_created", w.nodes.size());
	}
	count((std::string("config.") + num(cfgIndex)).c_str());
	Fnv f; f.addu(h); f.addu((uint64_t)cfgIndex);
	if(nontrivial) markNontrivial(f.h);
	gTraceXor ^= mix(h, caseNo);
	if(wantSample() && nontrivial && ! caseHasViolation()) addSample("{\"case\":" + unum(caseNo) + ",\"history\":" + oplogJson(ctx().oplog, 80) + "}");
}

enum { NCFG = 7 };

static void runCase(uint64_t caseNo, Rng & rng)
{
	const long long only = ctx().optInt("cfg", -1);
	const int cfg = only >= 0 ? (int)only : (int)(caseNo % NCFG);
	switch(cfg) {
	case 0: runCfg<Ad0>(rng, caseNo, 0); break;
	case 1: runCfg<Ad1>(rng, caseNo, 1); break;
	case 2: runCfg<Ad2>(rng, caseNo, 2); break;
	case 3: runCfg<Ad3>(rng, caseNo, 3); break;
	case 4: runCfg<Ad4>(rng, caseNo, 4); break;
	case 5: runCfg<Ad5>(rng, caseNo, 5); break;
	case 6: runCfg<Ad6>(rng, caseNo, 6); break;
	default: --ctx().casesRun; break;
	}
}

int main(int argc, char ** argv)
{
	return runMain(argc, argv, runCase, []() {
		ctx().counters["trace_xor_lo"] = gTraceXor & 0xffffffffu;
		ctx().counters["trace_xor_hi"] = gTraceXor >> 32;
	});
}
