// drv_remover.cpp - online monitor of ScopedRemover (property C15) against
// M-remover on top of M-list / M-disp (DESIGN §4, §5 C15).  C++17.
//
// A pool of 3-5 ScopedRemover objects in raw storage (created default /
// with a target / by move construction, destroyed and re-created in any
// order), two target instances of one kind per case.  After EVERY operation
// every target is triggered (invoke / dispatch of each key / enqueue+process)
// and the set and order of the callbacks that run is compared with the model.
//
// Model (exactly as loose as the statement):
//   node.owner  = the remover (identity `rid`) responsible for a listener added
//                 through a remover; passes to the destination on move
//                 construction / move assignment / swap; when the owner is
//                 destroyed, reset or re-targeted the listener must be detached.
//   limbo group = what the DESTINATION of a move assignment was responsible for
//                 has no owner any more; it may be detached at once or stay
//                 attached (read back at each trigger), but must be detached
//                 once every remover of its group is gone.  The group starts as
//                 {dest, source} and grows by every remover that later
//                 exchanges content with a member (conservative).
//   moved-from removers have an UNKNOWN target: nothing is added through them
//                 until they are re-targeted.
//   setDispatcher/setCallbackList to the SAME instance: unspecified whether the
//                 listeners stay -> read back once.
//
// configs (caseNo % 6, or --opt cfg=N): 0 CallbackList<void(int)>,
//   1 EventDispatcher<int,void(int)>, 2 EventQueue<int,void(int)>,
//   3-5 the same with SingleThreading policies.
// options: --opt ops=N (fixed number of operations), --opt nested=0 (no operations from inside callbacks)
#include "vcommon.h"
#include "vledger.h"
#include "vaccess.h"

#include <eventpp/callbacklist.h>
#include <eventpp/eventdispatcher.h>
#include <eventpp/eventqueue.h>
#include <eventpp/utilities/scopedremover.h>

#include <algorithm>
#include <map>
#include <memory>
#include <set>
#include <utility>

using namespace vf;
typedef eventpp_verif::Access Access;

struct PolMulti {};
struct PolSingle { typedef eventpp::SingleThreading Threading; };

static int keyVal(int k) { return 11 * (k + 1); }

// ------------------------------------------------------------------ target kinds
template <typename Pol>
struct KCL
{
	typedef eventpp::CallbackList<void(int), Pol> T;
	typedef eventpp::ScopedRemover<T> R;
	typedef typename T::Handle Handle;
	enum { NKEYS = 1, QUEUED = 0 };
	static const char * name() { return "CallbackList<void(int)>"; }
	static Handle addVia(R & r, int how, int, const TCallback & cb, const Handle & before) {
		if(how == 0) return r.append(cb);
		if(how == 1) return r.prepend(cb);
		return r.insert(cb, before);
	}
	static Handle addDirect(T & t, int how, int, const TCallback & cb, const Handle & before) {
		if(how == 0) return t.append(cb);
		if(how == 1) return t.prepend(cb);
		return t.insert(cb, before);
	}
	static bool removeVia(R & r, int, const Handle & h) { return r.remove(h); }
	static bool removeDirect(T & t, int, const Handle & h) { return t.remove(h); }
	static void retarget(R & r, T & t) { r.setCallbackList(t); }
	static void trigger(T & t, int, int arg) { t(arg); }
	static void enqueue(T &, int, int) {}
	static void process(T &) {}
};

template <typename D>
struct KDispBase
{
	typedef D T;
	typedef eventpp::ScopedRemover<T> R;
	typedef typename T::Handle Handle;
	static Handle addVia(R & r, int how, int key, const TCallback & cb, const Handle & before) {
		if(how == 0) return r.appendListener(keyVal(key), cb);
		if(how == 1) return r.prependListener(keyVal(key), cb);
		return r.insertListener(keyVal(key), cb, before);
	}
	static Handle addDirect(T & t, int how, int key, const TCallback & cb, const Handle & before) {
		if(how == 0) return t.appendListener(keyVal(key), cb);
		if(how == 1) return t.prependListener(keyVal(key), cb);
		return t.insertListener(keyVal(key), cb, before);
	}
	static bool removeVia(R & r, int key, const Handle & h) { return r.removeListener(keyVal(key), h); }
	static bool removeDirect(T & t, int key, const Handle & h) { return t.removeListener(keyVal(key), h); }
	static void retarget(R & r, T & t) { r.setDispatcher(t); }
	static void trigger(T & t, int key, int arg) { t.dispatch(keyVal(key), arg); }
};

template <typename Pol>
struct KED : KDispBase<eventpp::EventDispatcher<int, void(int), Pol> >
{
	typedef eventpp::EventDispatcher<int, void(int), Pol> T;
	enum { NKEYS = 3, QUEUED = 0 };
	static const char * name() { return "EventDispatcher<int,void(int)>"; }
	static void enqueue(T &, int, int) {}
	static void process(T &) {}
};

template <typename Pol>
struct KEQ : KDispBase<eventpp::EventQueue<int, void(int), Pol> >
{
	typedef eventpp::EventQueue<int, void(int), Pol> T;
	enum { NKEYS = 3, QUEUED = 1 };
	static const char * name() { return "EventQueue<int,void(int)>"; }
	static void enqueue(T & t, int key, int arg) { t.enqueue(keyVal(key), arg); }
	static void process(T & t) { t.process(); }
};

// a dispatcher whose Map policy identifies events more coarsely than operator== does (here: modulo 1000; think of a case-insensitive
// string map): listeners are added under k, removed through the remover under k + 1000 and triggered under k + 2000 - all the same
// event for the dispatcher, so all the same event for a remover of that dispatcher
struct ModLess { bool operator() (int a, int b) const { return a % 1000 < b % 1000; } };
template <typename K, typename V> using CoarseMap = std::map<K, V, ModLess>;
struct PolCoarse { template <typename K, typename V> using Map = CoarseMap<K, V>; };
struct KEDCoarse : KDispBase<eventpp::EventDispatcher<int, void(int), PolCoarse> >
{
	typedef eventpp::EventDispatcher<int, void(int), PolCoarse> T;
	enum { NKEYS = 3, QUEUED = 0 };
	static const char * name() { return "EventDispatcher<int,void(int)> with a Map whose key equivalence is coarser than =="; }
	static bool removeVia(R & r, int key, const Handle & h) { return r.removeListener(keyVal(key) + 1000, h); }
	static bool removeDirect(T & t, int key, const Handle & h) { return t.removeListener(keyVal(key) + 3000, h); }
	static void trigger(T & t, int key, int arg) { t.dispatch(keyVal(key) + 2000, arg); }
	static void enqueue(T &, int, int) {}
	static void process(T &) {}
};

// ------------------------------------------------------------------ model
enum TState { TS_NULL, TS_KNOWN, TS_UNKNOWN };
static const char * tsName(int ts, int tgt) { static const char * n[] = { "T0", "T1" }; return ts == TS_NULL ? "null" : ts == TS_UNKNOWN ? "unknown" : n[tgt]; }

struct MNode
{
	int cbid, tgt, key;
	bool attached;   // model: must (or, if optional, may) run when its list is triggered
	bool via;        // added through a remover
	int owner;       // rid of the responsible remover, -1 none
	int group;       // limbo group, -1 none
	bool optOnce;    // re-target to the same instance: read back once
	bool ran;        // ran in the current round
	bool limboSeen;
	const char * cause; // why the model detached it
};

static const unsigned char kPrefill[4] = { 0x00, 0xFF, 0xA5, 0x5C };

enum OpKind { OP_CREATE, OP_ADD_VIA, OP_ADD_DIRECT, OP_REMOVE_VIA, OP_REMOVE_DIRECT, OP_RESET, OP_RETARGET,
	OP_MOVE_CTOR, OP_MOVE_ASSIGN, OP_SWAP, OP_DESTROY, OP_KINDS };

template <typename K>
struct World : CallbackSink
{
	typedef typename K::T T;
	typedef typename K::R R;
	typedef typename K::Handle Handle;
	enum { NT = 2, MAXR = 5, NKEYS = K::NKEYS };

	Rng & rng;
	std::unique_ptr<T> tg[NT];
	struct alignas(16) RSlot { unsigned char buf[sizeof(R)]; };
	RSlot rs[MAXR];
	struct MRem { bool alive; int rid; int ts; int tgt; };
	MRem mr[MAXR];
	int nr;
	int nextRid;

	std::vector<MNode> nodes;
	std::vector<Handle> hs;
	std::vector<int> order[NT][NKEYS];
	std::vector<std::set<int> > groups;

	struct Frame { int tgt, key, arg; std::vector<int> snap; size_t pos; };
	std::vector<Frame> frames;
	size_t cur;
	int serial;

	struct Plan { bool active; int actor; int kind; int slot; int victim; } plan;
	bool allowNested;

	std::string lastOp;
	Fnv trace;
	bool dead;
	bool sawTransfer, sawDestroyWithListeners;
	int nextCb;

	World(Rng & r) : rng(r), nr(0), nextRid(0), cur(0), serial(0), allowNested(true), dead(false),
		sawTransfer(false), sawDestroyWithListeners(false), nextCb(0)
	{
		plan.active = false;
		for(int i = 0; i < MAXR; ++i) { mr[i].alive = false; mr[i].rid = -1; mr[i].ts = TS_NULL; mr[i].tgt = 0; }
	}
	~World() {
		callbackSink() = nullptr;
		for(int i = 0; i < MAXR; ++i) if(mr[i].alive) { rem(i).~R(); mr[i].alive = false; }
	}

	R & rem(int slot) { return *reinterpret_cast<R *>(rs[slot].buf); }
	void prefill(int slot) {
		const unsigned pat = rng.below(5);
		if(pat < 4) memset(rs[slot].buf, kPrefill[pat], sizeof(R));
		else for(size_t k = 0; k < sizeof(R); ++k) rs[slot].buf[k] = (unsigned char)rng.below(256);
	}

	void log(const std::string & s) { oplog(s); trace.add(s); }
	void fail(const std::string & key, const std::string & desc) {
		violation(key, desc);
		count(("viol." + key).c_str());
		oplog("!! " + key + " :: " + desc);
		dead = true;
	}
	std::string rname(int slot) const { return "R" + num(slot) + "#" + num(mr[slot].rid); }
	std::string nname(int uid) const { const MNode & n = nodes[uid]; return "u" + num(uid) + "/cb" + num(n.cbid) + "@T" + num(n.tgt) + (NKEYS > 1 ? ".k" + num(keyVal(n.key)) : std::string()); }

	// ---------- model helpers
	bool optional(const MNode & n) const { return n.group >= 0 || n.optOnce; }
	int ownedCount(int rid) const { int c = 0; for(size_t i = 0; i < nodes.size(); ++i) if(nodes[i].attached && nodes[i].owner == rid) ++c; return c; }
	int slotOfRid(int rid) const { for(int i = 0; i < nr; ++i) if(mr[i].alive && mr[i].rid == rid) return i; return -1; }

	void detach(int uid, const char * cause) {
		MNode & n = nodes[uid];
		if(! n.attached) return;
		std::vector<int> & o = order[n.tgt][n.key];
		o.erase(std::find(o.begin(), o.end(), uid));
		n.attached = false; n.owner = -1; n.group = -1; n.optOnce = false; n.cause = cause;
	}
	// remover `rid` no longer holds anything: destroyed / reset / re-targeted to another instance
	void removerGone(int rid, const char * cause) {
		for(size_t i = 0; i < nodes.size(); ++i) if(nodes[i].attached && nodes[i].owner == rid) detach((int)i, cause);
		for(size_t g = 0; g < groups.size(); ++g) {
			if(groups[g].erase(rid) && groups[g].empty()) {
				for(size_t i = 0; i < nodes.size(); ++i) {
					if(nodes[i].attached && nodes[i].group == (int)g) {
						count("limbo.deadline_reached_while_attached");
						detach((int)i, "limbo-deadline");
					}
				}
			}
		}
	}
	// removers a and b exchanged / handed over content: whatever is in limbo with one may now be held by the other
	void involve(int ridA, int ridB) {
		for(size_t g = 0; g < groups.size(); ++g) {
			const bool a = groups[g].count(ridA) != 0, b = groups[g].count(ridB) != 0;
			if(a != b) { groups[g].insert(ridA); groups[g].insert(ridB); }
		}
	}
	int pickAliveSlot(int requireTs = -1) {
		int cand[MAXR], n = 0;
		for(int i = 0; i < nr; ++i) if(mr[i].alive && (requireTs < 0 || mr[i].ts == requireTs)) cand[n++] = i;
		return n ? cand[rng.below((uint32_t)n)] : -1;
	}
	int pickDeadSlot() {
		int cand[MAXR], n = 0;
		for(int i = 0; i < nr; ++i) if(! mr[i].alive) cand[n++] = i;
		return n ? cand[rng.below((uint32_t)n)] : -1;
	}
	int pickOwnerSlot(bool wantNonEmpty) { // a live remover that owns (or not) attached listeners
		int cand[MAXR], n = 0;
		for(int i = 0; i < nr; ++i) if(mr[i].alive && (ownedCount(mr[i].rid) > 0) == wantNonEmpty) cand[n++] = i;
		return n ? cand[rng.below((uint32_t)n)] : -1;
	}
	int pickNode(bool attached, int tgt = -1, int key = -1) {
		std::vector<int> c;
		for(size_t i = 0; i < nodes.size(); ++i) if(nodes[i].attached == attached && (tgt < 0 || nodes[i].tgt == tgt) && (key < 0 || nodes[i].key == key)) c.push_back((int)i);
		return c.empty() ? -1 : c[rng.below((uint32_t)c.size())];
	}

	// ---------- operations (real + model); none of them triggers
	void opCreate(int slot) {
		prefill(slot);
		const int rid = nextRid++;
		if(rng.chance(2, 5)) {
			new (rs[slot].buf) R();
			mr[slot].ts = TS_NULL; mr[slot].tgt = 0;
		}
		else {
			const int t = (int)rng.below(NT);
			new (rs[slot].buf) R(*tg[t]);
			mr[slot].ts = TS_KNOWN; mr[slot].tgt = t;
		}
		mr[slot].alive = true; mr[slot].rid = rid;
		lastOp = "create";
		log("create " + rname(slot) + " target=" + tsName(mr[slot].ts, mr[slot].tgt));
	}

	void opAdd(int slot /* -1: directly on a target */) {
		const int t = slot >= 0 ? mr[slot].tgt : (int)rng.below(NT);
		const int key = (int)rng.below(NKEYS);
		const int how = (int)rng.below(3);
		int before = -1;
		if(how == 2) {
			const uint32_t c = rng.below(10);
			if(c < 6) before = pickNode(true, t, key);
			else if(c < 8) before = pickNode(false, t, key);
		}
		const int cbid = nextCb++;
		TCallback cb(cbid);
		const Handle hb = before >= 0 ? hs[before] : Handle();
		Handle h;
		if(slot >= 0) h = K::addVia(rem(slot), how, key, cb, hb);
		else h = K::addDirect(*tg[t], how, key, cb, hb);
		MNode n; n.cbid = cbid; n.tgt = t; n.key = key; n.attached = true; n.via = slot >= 0; n.owner = slot >= 0 ? mr[slot].rid : -1;
		n.group = -1; n.optOnce = false; n.ran = false; n.limboSeen = false; n.cause = "";
		nodes.push_back(n); hs.push_back(h);
		const int uid = (int)nodes.size() - 1;
		std::vector<int> & o = order[t][key];
		if(how == 0) o.push_back(uid);
		else if(how == 1) o.insert(o.begin(), uid);
		else if(before >= 0 && nodes[before].attached) o.insert(std::find(o.begin(), o.end(), before), uid);
		else o.push_back(uid);
		static const char * hn[] = { "append", "prepend", "insert" };
		lastOp = slot >= 0 ? "add-via-remover" : "add-direct";
		log(std::string(slot >= 0 ? "via " + rname(slot) : "direct T" + num(t)) + " " + hn[how] + (NKEYS > 1 ? " k" + num(keyVal(key)) : std::string())
			+ (how == 2 ? " before " + (before >= 0 ? nname(before) + (nodes[before].attached ? "" : "(removed)") : std::string("(empty handle)")) : std::string())
			+ " -> " + nname(uid));
		if(! h) fail(lastOp + ":returned-dead-handle", "adding " + nname(uid) + " returned an expired handle");
	}

	void opRemoveVia(int slot, int uid, bool nested) {
		MNode & n = nodes[uid];
		const int rid = mr[slot].rid;
		const bool inGroup = n.attached && n.group >= 0 && groups[n.group].count(rid) != 0;
		const bool mine = n.attached && n.owner == rid;
		std::string cls = ! n.attached ? "already-removed" : mine ? "own" : inGroup ? "limbo-of-own-group" : n.group >= 0 ? "limbo-of-other-group" : ! n.via ? "direct" : "of-other-remover";
		if(n.attached && n.tgt != mr[slot].tgt) cls += "-other-target";
		const bool got = K::removeVia(rem(slot), n.key, hs[uid]);
		lastOp = nested ? "nested-remove-via-remover" : "remove-via-remover";
		log(std::string(nested ? "  nested: " : "") + "remove " + nname(uid) + " (" + cls + ") via " + rname(slot) + " -> " + num(got));
		count(("remove_via." + cls).c_str());
		if(inGroup) { // unspecified who holds a limbo listener: read back
			if(got) detach(uid, "remove-via-remover");
			return;
		}
		if(got != mine) { fail("remove-via-remover:result:listener=" + cls, "remover reported " + num(got) + " for " + nname(uid) + ", statement says " + num(mine)); return; }
		if(mine) detach(uid, "remove-via-remover");
	}

	void opRemoveDirect(int uid) {
		MNode & n = nodes[uid];
		const bool expect = n.attached;
		const std::string cls = ! n.attached ? "already-removed" : n.group >= 0 ? "limbo" : n.via ? "of-remover" : "direct";
		const bool got = K::removeDirect(*tg[n.tgt], n.key, hs[uid]);
		lastOp = "remove-direct";
		log("remove " + nname(uid) + " (" + cls + ") directly -> " + num(got));
		count(("remove_direct." + cls).c_str());
		if(got != expect) { fail("remove-direct:result:listener=" + cls, "target reported " + num(got) + " for " + nname(uid) + ", model says " + num(expect)); return; }
		if(expect) detach(uid, "remove-direct");
	}

	void opReset(int slot, bool nested) {
		const int owned = ownedCount(mr[slot].rid);
		rem(slot).reset();
		lastOp = nested ? "nested-reset" : "reset";
		log(std::string(nested ? "  nested: " : "") + "reset " + rname(slot) + " (responsible for " + num(owned) + ")");
		if(owned) count("reset.with_listeners");
		removerGone(mr[slot].rid, "reset");
	}

	void opRetarget(int slot, int t) {
		MRem & m = mr[slot];
		const int owned = ownedCount(m.rid);
		K::retarget(rem(slot), *tg[t]);
		lastOp = "retarget";
		const std::string was = tsName(m.ts, m.tgt);
		if(m.ts == TS_KNOWN && m.tgt == t) {
			lastOp = "retarget-same";
			count("retarget.same_instance");
			for(size_t i = 0; i < nodes.size(); ++i) if(nodes[i].attached && nodes[i].owner == m.rid) nodes[i].optOnce = true;
		}
		else if(m.ts == TS_UNKNOWN) count("retarget.of_moved_from"); // owns nothing; may or may not have reset: not "gone"
		else {
			count(m.ts == TS_NULL ? "retarget.of_default_constructed" : "retarget.other_instance");
			if(owned) count("retarget.with_listeners");
			removerGone(m.rid, "retarget");
		}
		m.ts = TS_KNOWN; m.tgt = t;
		log("retarget " + rname(slot) + " " + was + " -> T" + num(t) + " (responsible for " + num(owned) + ")");
	}

	void takeOver(int dstSlot, int srcSlot) { // model: source's responsibility and target pass to dst; source becomes empty with unknown target
		const int dr = mr[dstSlot].rid, sr = mr[srcSlot].rid;
		for(size_t i = 0; i < nodes.size(); ++i) if(nodes[i].attached && nodes[i].owner == sr) nodes[i].owner = dr;
		mr[dstSlot].ts = mr[srcSlot].ts; mr[dstSlot].tgt = mr[srcSlot].tgt;
		mr[srcSlot].ts = TS_UNKNOWN;
		involve(dr, sr);
	}

	void opMoveCtor(int dst, int src) {
		prefill(dst);
		const int owned = ownedCount(mr[src].rid);
		new (rs[dst].buf) R(std::move(rem(src)));
		mr[dst].alive = true; mr[dst].rid = nextRid++;
		lastOp = "move-ctor";
		log("move-construct " + rname(dst) + " from " + rname(src) + " (target " + tsName(mr[src].ts, mr[src].tgt) + ", responsible for " + num(owned) + ")");
		if(owned) count("move_ctor.with_listeners");
		takeOver(dst, src);
	}

	void opMoveAssign(int dst, int src) {
		const int dr = mr[dst].rid, sr = mr[src].rid;
		const int dOwned = ownedCount(dr), sOwned = ownedCount(sr);
		rem(dst) = std::move(rem(src));
		lastOp = dOwned ? "move-assign-into-nonempty" : "move-assign";
		log("move-assign " + rname(dst) + " (target " + tsName(mr[dst].ts, mr[dst].tgt) + ", responsible for " + num(dOwned) + ") = " + rname(src)
			+ " (target " + tsName(mr[src].ts, mr[src].tgt) + ", responsible for " + num(sOwned) + ")");
		count(dOwned ? "move_assign.into_nonempty" : "move_assign.into_empty");
		if(mr[src].ts == TS_NULL) count("move_assign.from_default_constructed");
		if(mr[src].ts == TS_UNKNOWN) count("move_assign.from_moved_from");
		if(sOwned) count("move_assign.source_with_listeners");
		if(dOwned) {
			groups.push_back(std::set<int>());
			const int g = (int)groups.size() - 1;
			groups[g].insert(dr); groups[g].insert(sr);
			for(size_t i = 0; i < nodes.size(); ++i) if(nodes[i].attached && nodes[i].owner == dr) { nodes[i].owner = -1; nodes[i].group = g; nodes[i].limboSeen = false; count("limbo.listeners"); }
		}
		takeOver(dst, src);
		sawTransfer = true;
	}

	void opSwap(int a, int b) {
		const bool stdSwap = a != b && rng.chance(1, 2);
		const int ao = ownedCount(mr[a].rid), bo = ownedCount(mr[b].rid);
		if(stdSwap) { using std::swap; swap(rem(a), rem(b)); }
		else rem(a).swap(rem(b));
		lastOp = "swap";
		log(std::string(stdSwap ? "std::swap " : "swap ") + rname(a) + " (target " + tsName(mr[a].ts, mr[a].tgt) + ", " + num(ao) + ") <-> " + rname(b) + " (target " + tsName(mr[b].ts, mr[b].tgt) + ", " + num(bo) + ")");
		count(stdSwap ? "swap.std" : a == b ? "swap.self" : "swap.member");
		if(a == b) return;
		if(ao && bo) count("swap.both_nonempty");
		const int ar = mr[a].rid, br = mr[b].rid;
		for(size_t i = 0; i < nodes.size(); ++i) if(nodes[i].attached) { if(nodes[i].owner == ar) nodes[i].owner = br; else if(nodes[i].owner == br) nodes[i].owner = ar; }
		std::swap(mr[a].ts, mr[b].ts); std::swap(mr[a].tgt, mr[b].tgt);
		involve(ar, br);
		sawTransfer = true;
	}

	void opDestroy(int slot, bool nested) {
		const int owned = ownedCount(mr[slot].rid);
		lastOp = nested ? "nested-destroy" : "destroy";
		log(std::string(nested ? "  nested: " : "") + "destroy " + rname(slot) + " (responsible for " + num(owned) + ")");
		rem(slot).~R();
		mr[slot].alive = false;
		if(owned) { count("destroy.with_listeners"); sawDestroyWithListeners = true; }
		removerGone(mr[slot].rid, "destroy");
	}

	// ---------- monitoring of the triggers
	std::string unexpectedKey(int cbid, const Frame & f, std::string & desc) {
		int uid = -1;
		for(size_t i = 0; i < nodes.size(); ++i) if(nodes[i].cbid == cbid) { uid = (int)i; break; }
		if(uid < 0) { desc = "unknown callback"; return "trigger:unknown-callback-invoked"; }
		const MNode & n = nodes[uid];
		desc = nname(uid);
		if(n.tgt != f.tgt || n.key != f.key) return "trigger:listener-invoked-for-wrong-target-or-event";
		if(! n.attached) {
			desc += " (detached in the model by " + std::string(n.cause) + ")";
			if(std::string(n.cause) == "limbo-deadline") return "move-assign-into-nonempty:listener-outlives-removers";
			if(std::string(n.cause) == "limbo-observed-detached" || std::string(n.cause) == "retarget-same-observed-detached") return std::string(n.cause) + ":listener-invoked-again";
			if(std::string(n.cause) == "remove-via-remover" || std::string(n.cause) == "remove-direct") return std::string(n.cause) + ":listener-still-invoked";
			return std::string(n.cause) + ":listener-outlives-remover";
		}
		return "trigger:listener-invoked-twice-or-out-of-order";
	}

	void observeNotRun(int uid) { // an optional listener did not run at its turn: it is detached
		MNode & n = nodes[uid];
		log("  (" + nname(uid) + " did not run: " + (n.group >= 0 ? "limbo listener" : "listener of a remover re-targeted to the same instance") + " is detached)");
		if(n.group >= 0) {
			if(! n.limboSeen) count("limbo.first_seen_detached"); else count("limbo.detached_later_before_deadline");
			n.limboSeen = true;
			detach(uid, "limbo-observed-detached");
		}
		else detach(uid, "retarget-same-observed-detached");
	}

	void missed(int uid) {
		const MNode & n = nodes[uid];
		fail(lastOp + ":" + (n.via ? "listener-of-live-remover-not-invoked" : "direct-listener-not-invoked"),
			nname(uid) + " did not run" + (n.via ? " although " + (slotOfRid(n.owner) >= 0 ? rname(slotOfRid(n.owner)) : std::string("?")) + " is responsible for it and alive" : " although it was not added through a remover"));
	}

	void finishFrame(Frame & f) {
		for(; f.pos < f.snap.size() && ! dead; ++f.pos) {
			const int uid = f.snap[f.pos];
			MNode & n = nodes[uid];
			if(! n.attached) continue;
			if(optional(n)) observeNotRun(uid);
			else missed(uid);
		}
	}

	void onCall(int cbid, const ArgPack & args, MutInts &) override {
		if(dead) return;
		if(args.n != 1) { fail("trigger:arguments", "cb" + num(cbid) + " received " + args.str()); return; }
		size_t fi = cur;
		while(fi < frames.size() && frames[fi].arg != (int)args.fp[0]) ++fi;
		if(fi >= frames.size()) { fail("trigger:call-outside-any-trigger", "cb" + num(cbid) + " invoked with " + args.str() + " which belongs to no pending trigger"); return; }
		for(; cur < fi && ! dead; ++cur) finishFrame(frames[cur]);
		if(dead) return;
		Frame & f = frames[cur];
		size_t at = f.pos;
		while(at < f.snap.size() && !(nodes[f.snap[at]].attached && nodes[f.snap[at]].cbid == cbid)) ++at;
		if(at >= f.snap.size()) { // not (or no longer) expected in this trigger
			std::string d;
			const std::string k = unexpectedKey(cbid, f, d);
			size_t p = f.pos;
			while(p < f.snap.size() && !(nodes[f.snap[p]].attached && ! optional(nodes[f.snap[p]]))) ++p;
			fail(k, d + " invoked; model expected " + (p < f.snap.size() ? nname(f.snap[p]) : std::string("no further listener for this trigger")));
			return;
		}
		for(; f.pos < at; ++f.pos) { // listeners before it in list order that did not run
			const int skipped = f.snap[f.pos];
			if(! nodes[skipped].attached) continue;
			if(optional(nodes[skipped])) observeNotRun(skipped);
			else { missed(skipped); return; }
		}
		const int uid = f.snap[f.pos++];
		MNode & n = nodes[uid];
		n.ran = true;
		if(n.group >= 0 && ! n.limboSeen) { n.limboSeen = true; count("limbo.first_seen_still_attached"); }
		log("  call " + nname(uid) + args.str());
		count("callback_calls");
		if(plan.active && plan.actor == uid) {
			plan.active = false;
			count("nested_ops");
			if(plan.kind == 0) { if(mr[plan.slot].alive) opRemoveVia(plan.slot, plan.victim, true); }
			else if(plan.kind == 1) { if(mr[plan.slot].alive) opReset(plan.slot, true); }
			else { if(mr[plan.slot].alive) opDestroy(plan.slot, true); }
		}
	}

	void makePlan() {
		plan.active = false;
		if(! allowNested || ! rng.chance(1, 7)) return;
		const int actor = pickNode(true);
		if(actor < 0) return;
		const uint32_t c = rng.below(10);
		plan.kind = c < 6 ? 0 : c < 8 ? 1 : 2;
		plan.actor = actor;
		if(plan.kind == 0) {
			plan.slot = pickAliveSlot(TS_KNOWN);
			if(plan.slot < 0) return;
			const uint32_t w = rng.below(10);
			plan.victim = w < 4 ? actor : pickNode(true);
			if(w >= 4 && w < 7) { // prefer a listener of that remover
				std::vector<int> c2;
				for(size_t i = 0; i < nodes.size(); ++i) if(nodes[i].attached && nodes[i].owner == mr[plan.slot].rid) c2.push_back((int)i);
				if(! c2.empty()) plan.victim = c2[rng.below((uint32_t)c2.size())];
			}
			if(plan.victim < 0) return;
		}
		else {
			plan.slot = rng.chance(2, 3) && nodes[actor].owner >= 0 ? slotOfRid(nodes[actor].owner) : pickAliveSlot();
			if(plan.slot < 0) return;
		}
		plan.active = true;
	}

	void pushFrame(int t, int key) {
		Frame f; f.tgt = t; f.key = key; f.arg = ++serial; f.snap = order[t][key]; f.pos = 0;
		frames.push_back(f);
	}
	void runFrames(int t, int how) {
		cur = 0;
		if(how == 2) {
			for(size_t i = 0; i < frames.size(); ++i) K::enqueue(*tg[t], frames[i].key, frames[i].arg);
			K::process(*tg[t]);
		}
		else if(how == 1) { K::enqueue(*tg[t], frames[0].key, frames[0].arg); K::process(*tg[t]); }
		else K::trigger(*tg[t], frames[0].key, frames[0].arg);
		for(; cur < frames.size() && ! dead; ++cur) finishFrame(frames[cur]);
		frames.clear(); cur = 0;
	}

	void triggerRound() {
		for(size_t i = 0; i < nodes.size(); ++i) nodes[i].ran = false;
		for(int t = 0; t < NT && ! dead; ++t) {
			const int how = K::QUEUED ? (int)rng.below(3) : 0;
			static const char * hn[] = { "", " (enqueue+process each)", " (enqueue all, process once)" };
			log("trigger T" + num(t) + hn[how]);
			count("trigger_rounds");
			if(how == 2) {
				for(int k = 0; k < NKEYS; ++k) pushFrame(t, k);
				runFrames(t, 2);
			}
			else for(int k = 0; k < NKEYS && ! dead; ++k) { pushFrame(t, k); runFrames(t, how); }
		}
		for(size_t i = 0; i < nodes.size(); ++i) if(nodes[i].attached && nodes[i].optOnce && nodes[i].ran) { nodes[i].optOnce = false; count("retarget.same_instance_kept_listener"); }
	}

	void triggerAll() {
		if(dead) return;
		makePlan();
		const bool planned = plan.active;
		triggerRound();
		// an operation ran from inside a callback: the lists triggered before it have not seen its effect yet
		if(planned && ! plan.active && ! dead) triggerRound();
		plan.active = false;
	}

	// ---------- generator
	void step() {
		const uint32_t c = rng.below(100);
		const int deadSlot = pickDeadSlot();
		if(c < 28) { // add through a remover with a known target; make one if there is none
			int s = pickAliveSlot(TS_KNOWN);
			if(s < 0) {
				s = pickAliveSlot();
				if(s >= 0) { opRetarget(s, (int)rng.below(NT)); count("op.retarget"); return; }
				if(deadSlot >= 0) { opCreate(deadSlot); count("op.create"); }
				return;
			}
			opAdd(s); count("op.add_via");
		}
		else if(c < 35) { opAdd(-1); count("op.add_direct"); }
		else if(c < 43) {
			const int s = pickAliveSlot(TS_KNOWN);
			if(s < 0 || nodes.empty()) return;
			int uid;
			const uint32_t w = rng.below(10);
			if(w < 5) { // own listener
				std::vector<int> c2;
				for(size_t i = 0; i < nodes.size(); ++i) if(nodes[i].attached && nodes[i].owner == mr[s].rid) c2.push_back((int)i);
				uid = c2.empty() ? pickNode(true) : c2[rng.below((uint32_t)c2.size())];
			}
			else if(w < 8) uid = pickNode(true);
			else uid = pickNode(false);
			if(uid < 0) return;
			opRemoveVia(s, uid, false); count("op.remove_via");
		}
		else if(c < 47) {
			const int uid = rng.chance(4, 5) ? pickNode(true) : pickNode(false);
			if(uid < 0) return;
			opRemoveDirect(uid); count("op.remove_direct");
		}
		else if(c < 52) { const int s = pickAliveSlot(); if(s < 0) return; opReset(s, false); count("op.reset"); }
		else if(c < 59) {
			const int s = pickAliveSlot(); if(s < 0) return;
			int t = (int)rng.below(NT);
			if(mr[s].ts == TS_KNOWN && rng.chance(1, 3)) t = mr[s].tgt;
			opRetarget(s, t); count("op.retarget");
		}
		else if(c < 66) {
			if(deadSlot < 0) { const int s = pickAliveSlot(); if(s >= 0) { opDestroy(s, false); count("op.destroy"); } return; }
			const int src = pickAliveSlot();
			if(src < 0 || rng.chance(1, 4)) { opCreate(deadSlot); count("op.create"); return; }
			opMoveCtor(deadSlot, src); count("op.move_ctor");
		}
		else if(c < 80) { // move assignment; aim at a destination that is responsible for listeners
			int dst = rng.chance(2, 3) ? pickOwnerSlot(true) : pickAliveSlot();
			if(dst < 0) dst = pickAliveSlot();
			if(dst < 0) return;
			int src = -1;
			for(int tries = 0; tries < 6 && (src < 0 || src == dst); ++tries) src = rng.chance(1, 2) ? pickOwnerSlot(true) : pickAliveSlot();
			if(src < 0 || src == dst) return; // self move assignment is not generated
			opMoveAssign(dst, src); count("op.move_assign");
		}
		else if(c < 90) {
			const int a = pickAliveSlot(); if(a < 0) return;
			int b = pickAliveSlot();
			for(int tries = 0; tries < 4 && b == a; ++tries) b = rng.chance(1, 2) ? pickOwnerSlot(true) : pickAliveSlot();
			if(b < 0 || (b == a && ! rng.chance(1, 6))) return;
			opSwap(a, b); count("op.swap");
		}
		else if(c < 96) { const int s = rng.chance(1, 2) ? pickOwnerSlot(true) : pickAliveSlot(); if(s < 0) return; opDestroy(s, false); count("op.destroy"); }
		else { if(deadSlot >= 0) { opCreate(deadSlot); count("op.create"); } }
	}

	void run(int nops) {
		tg[0].reset(new T()); tg[1].reset(new T());
		nr = rng.range(3, MAXR);
		callbackSink() = this;
		for(int i = 0; i < nr; ++i) if(rng.chance(2, 3)) opCreate(i);
		for(int i = 0; i < nops && ! dead; ++i) {
			const size_t before = ctx().oplog.size();
			step();
			if(ctx().oplog.size() != before) triggerAll();
		}
		// every remover goes away, in random order; afterwards only direct listeners may run
		while(! dead) {
			const int s = pickAliveSlot();
			if(s < 0) break;
			opDestroy(s, false); count("op.destroy");
			triggerAll();
		}
		if(! dead) {
			lastOp = "final";
			triggerAll();
			for(size_t i = 0; i < nodes.size() && ! dead; ++i) if(nodes[i].attached && nodes[i].via) fail("harness:model-keeps-remover-listener", nname((int)i));
		}
		callbackSink() = nullptr;
	}
};

// ------------------------------------------------------------------ case runner
static uint64_t gTraceXor = 0;

template <typename K>
static void runCfg(Rng & rng, uint64_t caseNo, int cfgIndex)
{
	ledger().resetCase();
	const long long fixedOps = ctx().optInt("ops", 0);
	const int nops = fixedOps > 0 ? (int)fixedOps : rng.range(8, 45);
	uint64_t h;
	bool nontrivial;
	{
		World<K> w(rng);
		w.allowNested = ctx().optInt("nested", 1) != 0;
		oplog("config " + num(cfgIndex) + ": ScopedRemover<" + K::name() + ">" + (cfgIndex >= 3 && cfgIndex < 6 ? " SingleThreading" : "") + " ops=" + num(nops));
		w.run(nops);
		h = w.trace.h;
		nontrivial = w.sawTransfer && w.sawDestroyWithListeners;
		count("listeners_created", w.nodes.size());
		count("removers_created", (uint64_t)w.nextRid);
	}
	count((std::string("config.") + num(cfgIndex)).c_str());
	Fnv f; f.addu(h); f.addu((uint64_t)cfgIndex);
	if(nontrivial) markNontrivial(f.h);
	gTraceXor ^= mix(h, caseNo);
	if(wantSample() && nontrivial && ! caseHasViolation()) addSample("{\"case\":" + unum(caseNo) + ",\"history\":" + oplogJson(ctx().oplog, 80) + "}");
}

enum { NCFG = 7 };

static void runCase(uint64_t caseNo, Rng & rng)
{
	const long long only = ctx().optInt("cfg", -1);
	const int cfg = only >= 0 ? (int)only : (int)(caseNo % NCFG);
	switch(cfg) {
	case 0: runCfg<KCL<PolMulti> >(rng, caseNo, 0); break;
	case 1: runCfg<KED<PolMulti> >(rng, caseNo, 1); break;
	case 2: runCfg<KEQ<PolMulti> >(rng, caseNo, 2); break;
	case 3: runCfg<KCL<PolSingle> >(rng, caseNo, 3); break;
	case 4: runCfg<KED<PolSingle> >(rng, caseNo, 4); break;
	case 5: runCfg<KEQ<PolSingle> >(rng, caseNo, 5); break;
	case 6: runCfg<KEDCoarse>(rng, caseNo, 6); break;
	default: --ctx().casesRun; break;
	}
}

int main(int argc, char ** argv)
{
	return runMain(argc, argv, runCase, []() {
		ctx().counters["trace_xor_lo"] = gTraceXor & 0xffffffffu;
		ctx().counters["trace_xor_hi"] = gTraceXor >> 32;
	});
}
