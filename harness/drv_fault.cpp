// drv_fault.cpp - fault enumeration (C09): for every operation of a generated history, the k-th point at which user code
// runs (callback copy/invoke/==, payload copy/move, key copy/compare/hash, predicate) or memory is allocated throws, for
// every k; the exception must reach the caller, strong-guarantee operations must leave the observable content unchanged,
// everything must stay usable (the rest of the history runs under the model) and nothing may leak.   C++17.
//
// One case = one history + all its single-fault injections (+ a sample of double faults).
#include "vcommon.h"
#include "vledger.h"
#include "vaccess.h"

#include <eventpp/callbacklist.h>
#include <eventpp/eventdispatcher.h>
#include <eventpp/eventqueue.h>
#include <eventpp/hetercallbacklist.h>
#include <eventpp/hetereventdispatcher.h>
#include <eventpp/hetereventqueue.h>
#include <eventpp/utilities/orderedqueuelist.h>
#include <eventpp/utilities/scopedremover.h>
#include <eventpp/utilities/counterremover.h>
#include <eventpp/utilities/conditionalremover.h>
#include <eventpp/utilities/anydata.h>

#include <algorithm>
#include <deque>
#include <map>
#include <memory>

using namespace vf;
typedef eventpp_verif::Access Access;

// library code region: fault points count only here (the harness default is "exempt")
struct Lib
{
	Lib() { --faultClock().harnessDepth; }
	~Lib() { ++faultClock().harnessDepth; }
};

enum Outcome { O_OK = 0, O_FAULT, O_BADALLOC, O_OTHER };

// a key type with counted copy and a comparison that is a fault point (std::map and OrderedQueueListCompare use it)
struct FKey
{
	int k;
	FKey() : k(0) {}
	explicit FKey(int k_) : k(k_) {}
	FKey(const FKey & o) : k((faultPoint(F_KEY_COPY), o.k)) {}
	FKey(FKey && o) noexcept : k(o.k) {}
	FKey & operator = (const FKey & o) { faultPoint(F_KEY_COPY); k = o.k; return *this; }
	FKey & operator = (FKey && o) noexcept { k = o.k; return *this; }
	friend bool operator < (const FKey & a, const FKey & b) { faultPoint(F_KEY_CMP); return a.k < b.k; }
};
inline long long fpOf(const FKey & k) { return k.k; }
struct FHKey
{
	int k;
	FHKey() : k(0) {}
	explicit FHKey(int k_) : k(k_) {}
	FHKey(const FHKey & o) : k((faultPoint(F_KEY_COPY), o.k)) {}
	FHKey(FHKey && o) noexcept : k(o.k) {}
	FHKey & operator = (const FHKey & o) { faultPoint(F_KEY_COPY); k = o.k; return *this; }
	FHKey & operator = (FHKey && o) noexcept { k = o.k; return *this; }
	friend bool operator == (const FHKey & a, const FHKey & b) { faultPoint(F_KEY_CMP); return a.k == b.k; }
};
namespace std { template <> struct hash<FHKey> { size_t operator() (const FHKey & k) const { vf::faultPoint(vf::F_KEY_HASH); return (size_t)(k.k & 1); } }; }
inline long long fpOf(const FHKey & k) { return k.k; }

// ------------------------------------------------------------------ common machinery of a target
struct Target : CallbackSink
{
	Rng rng;
	bool dead;
	std::string name;
	int nextCb;
	std::map<int, int> script; // cbid -> action performed when it is invoked (target specific)

	explicit Target(uint64_t seed, const char * n) : rng(seed), dead(false), name(n), nextCb(0) {}
	virtual ~Target() {}
	virtual void build() = 0;
	virtual void step() = 0;
	virtual void destroy() = 0;

	void log(const std::string & s) { oplog(s); }
	void fail(const std::string & key, const std::string & desc) { violation(name + ":" + key, desc); oplog("!! " + key + " :: " + desc); dead = true; }

	// run library code; classify what came out against what the fault clock did
	template <typename F>
	int attempt(const char * op, F f) {
		FaultClock & fc = faultClock();
		const long firedBefore = fc.fired;
		int out = O_OK;
		try { Lib l; f(); }
		catch(const VFault &) { out = O_FAULT; }
		catch(const std::bad_alloc &) { out = O_BADALLOC; }
		catch(...) { out = O_OTHER; }
		const bool fired = fc.fired > firedBefore;
		if(fired) {
			const char * kind = faultKindName(fc.lastKind);
			count(("inj." + name + "." + op + "." + kind).c_str());
			count("faults_injected");
			if(out == O_OK) fail(std::string(op) + ":exception-swallowed:" + kind, std::string(op) + " completed normally although a " + kind + " fault was thrown inside it");
			else if((fc.lastKind == F_ALLOC) != (out == O_BADALLOC) || out == O_OTHER) fail(std::string(op) + ":exception-translated:" + kind, std::string(op) + ": injected " + kind + " fault reached the caller as a different exception");
			else count(out == O_BADALLOC ? "exceptions.bad_alloc" : "exceptions.VFault");
			log(std::string("   (") + kind + " fault thrown inside " + op + ", caller saw " + (out == O_OK ? "no exception" : out == O_FAULT ? "VFault" : out == O_BADALLOC ? "bad_alloc" : "another exception") + ")");
		}
		else if(out != O_OK) fail(std::string(op) + ":unexpected-exception", std::string(op) + " threw although no fault was injected");
		return out;
	}
	static bool same(const std::vector<int> & a, const std::vector<int> & b) { return a == b; }
	static std::string ids(const std::vector<int> & v) { std::string s; for(size_t i = 0; i < v.size(); ++i) s += " " + num(v[i]); return s; }
};

// ================================================================== CallbackList
template <typename Policies>
struct CLTarget : Target
{
	typedef eventpp::CallbackList<void(int), Policies> L;
	typedef typename L::Handle Handle;
	std::unique_ptr<L> a, b;
	std::vector<int> ma, mb;
	std::map<int, Handle> ha; // handles of A's nodes (also stale ones)
	int invoking;

	CLTarget(uint64_t seed, const char * n) : Target(seed, n), invoking(0) {}
	void build() override { a.reset(new L()); b.reset(new L()); callbackSink() = this; }
	void destroy() override {
		callbackSink() = nullptr;
		a.reset(); b.reset();
		if(! dead && ledger().liveCount(K_CB) != 0) fail("destroy:callback-leaked", num(ledger().liveCount(K_CB)) + " callback instance(s) alive after destruction");
	}
	struct Collect { std::vector<int> * v; void operator() (const typename L::Callback & cb) const { v->push_back(cbIdOf(cb)); } };
	struct CollectH { std::vector<int> * v; std::map<int, Handle> * h; void operator() (const Handle & hd, const typename L::Callback & cb) const { v->push_back(cbIdOf(cb)); if(h) (*h)[cbIdOf(cb)] = hd; } };
	std::vector<int> content(L & l) { std::vector<int> v; Collect c; c.v = &v; l.forEach(c); return v; }
	void verify(const char * op, bool afterException) {
		if(dead || invoking) return;
		const std::vector<int> ra = content(*a), rb = content(*b);
		const std::string w = afterException ? ":after-exception" : ":after-success";
		if(ra != ma) { fail(std::string(op) + w + ":list-content-differs-from-model", "A holds" + ids(ra) + ", model says" + ids(ma)); return; }
		if(rb != mb) { fail(std::string(op) + w + ":other-list-content-differs-from-model", "B holds" + ids(rb) + ", model says" + ids(mb)); return; }
		if(ledger().liveCount(K_CB) != (long)(ma.size() + mb.size())) fail(std::string(op) + w + ":callback-instances-leaked-or-lost", num(ledger().liveCount(K_CB)) + " live callback instances, model says " + num((long long)(ma.size() + mb.size())));
	}
	int pickHandleId() {
		if(ha.empty() || rng.chance(1, 8)) return -1;
		typename std::map<int, Handle>::iterator it = ha.begin();
		std::advance(it, rng.below((uint32_t)ha.size()));
		return it->first;
	}
	bool live(int id) const { return std::find(ma.begin(), ma.end(), id) != ma.end(); }

	// nested additions / removals performed by callbacks; the model follows each completed action
	void onCall(int cbid, const ArgPack &, MutInts &) override {
		HarnessScope hs;
		if(dead) return;
		log("   call cb" + num(cbid));
		const int act = script.count(cbid) ? script[cbid] : 0;
		if(act == 1 && ma.size() < 12) {
			const int id = nextCb++;
			Handle h;
			{ Lib l; h = a->append(TCallback(id)); }
			ma.push_back(id); ha[id] = h;
			log("   cb" + num(cbid) + " appended cb" + num(id));
		}
		else if(act == 2 && live(cbid) && ha.count(cbid)) {
			bool r;
			{ Lib l; r = a->remove(ha[cbid]); }
			if(r) ma.erase(std::find(ma.begin(), ma.end(), cbid));
			log("   cb" + num(cbid) + " removed itself -> " + num(r));
		}
		{ Lib l; faultPoint(F_CB_INVOKE); } // the callback itself may throw after its action
	}

	void step() override {
		const uint32_t c = rng.below(100);
		if(c < 38) {
			const int id = nextCb++;
			const uint32_t w = rng.below(3);
			const int before = w == 2 ? pickHandleId() : -1;
			script[id] = (int)rng.below(4);
			Handle h;
			const char * op = w == 0 ? "append" : w == 1 ? "prepend" : "insert";
			log(std::string(op) + " cb" + num(id) + (w == 2 ? " before cb" + num(before) : std::string()));
			const Handle hb = before >= 0 ? ha[before] : Handle();
			const int out = attempt(op, [&]() { TCallback cb(id); if(w == 0) h = a->append(cb); else if(w == 1) h = a->prepend(cb); else h = a->insert(cb, hb); });
			if(out == O_OK) {
				if(w == 0) ma.push_back(id);
				else if(w == 1) ma.insert(ma.begin(), id);
				else { std::vector<int>::iterator it = before >= 0 ? std::find(ma.begin(), ma.end(), before) : ma.end(); ma.insert(it, id); }
				ha[id] = h;
			}
			verify(op, out != O_OK);
		}
		else if(c < 52) {
			const int id = pickHandleId();
			if(id < 0) return;
			bool r = false;
			log("remove cb" + num(id));
			const int out = attempt("remove", [&]() { r = a->remove(ha[id]); });
			if(out == O_OK) {
				const bool want = live(id);
				if(r != want) { fail("remove:result", "remove returned " + num(r) + ", model says " + num(want)); return; }
				if(want) ma.erase(std::find(ma.begin(), ma.end(), id));
			}
			verify("remove", out != O_OK);
		}
		else if(c < 70) {
			log("invoke A");
			++invoking;
			const int out = attempt("invoke", [&]() { (*a)(7); });
			--invoking;
			verify("invoke", out != O_OK); // the list must hold exactly what the callbacks' completed actions produced
		}
		else if(c < 78) { // B = A : callback-list assignment has the strong guarantee
			log("copy-assign B = A");
			const int out = attempt("copy_assign", [&]() { *b = *a; });
			if(out == O_OK) mb = ma;
			verify("copy_assign", out != O_OK);
		}
		else if(c < 84) {
			log("copy-assign A = B");
			const int out = attempt("copy_assign", [&]() { *a = *b; });
			if(out == O_OK) {
				ma = mb;
				ha.clear();
				std::vector<int> v; CollectH ch; ch.v = &v; ch.h = &ha; a->forEach(ch);
			}
			verify("copy_assign", out != O_OK);
		}
		else if(c < 92) {
			log("copy-construct C(A)");
			L * cpy = nullptr;
			const int out = attempt("copy_ctor", [&]() { cpy = new L(*a); });
			if(out == O_OK) {
				const std::vector<int> rc = content(*cpy);
				if(rc != ma) fail("copy_ctor:after-success:copy-content-differs", "copy holds" + ids(rc) + ", source model" + ids(ma));
				delete cpy;
			}
			else if(cpy) { fail("copy_ctor:after-exception:object-returned", "new returned an object although the constructor threw"); }
			verify("copy_ctor", out != O_OK);
		}
		else {
			log("self copy-assign A = A");
			L & ref = *a;
			const int out = attempt("copy_assign_self", [&]() { *a = ref; });
			verify("copy_assign_self", out != O_OK);
		}
	}
};

// ================================================================== EventDispatcher
template <typename Key, typename Policies>
struct EDTarget : Target
{
	typedef eventpp::EventDispatcher<Key, void(const Key &, TPayload), Policies> D;
	typedef typename D::Handle Handle;
	enum { NK = 4 };
	std::unique_ptr<D> d1, d2;
	std::map<int, std::vector<int> > m1, m2; // key -> cbids
	std::map<int, std::pair<int, Handle> > h1; // cbid -> (key, handle) for d1
	int dispatching, curKey;

	EDTarget(uint64_t seed, const char * n) : Target(seed, n), dispatching(0), curKey(0) {}
	void build() override { d1.reset(new D()); d2.reset(new D()); callbackSink() = this; }
	void destroy() override {
		callbackSink() = nullptr;
		d1.reset(); d2.reset();
		if(! dead && ledger().liveCount(K_CB) != 0) fail("destroy:callback-leaked", num(ledger().liveCount(K_CB)) + " callback instance(s) alive after destruction");
		if(! dead && ledger().liveCount(K_PAYLOAD) != 0) fail("destroy:payload-leaked", "payload instances alive after destruction");
	}
	struct Collect { std::vector<int> * v; void operator() (const typename D::Callback & cb) const { v->push_back(cbIdOf(cb)); } };
	std::map<int, std::vector<int> > content(D & d) {
		std::map<int, std::vector<int> > r;
		for(int k = 0; k < NK; ++k) { std::vector<int> v; Collect c; c.v = &v; d.forEach(Key(k), c); if(! v.empty()) r[k] = v; }
		return r;
	}
	static void norm(std::map<int, std::vector<int> > & m) { for(auto it = m.begin(); it != m.end(); ) { if(it->second.empty()) it = m.erase(it); else ++it; } }
	static long total(const std::map<int, std::vector<int> > & m) { long n = 0; for(auto & kv : m) n += (long)kv.second.size(); return n; }
	void verify(const char * op, bool afterException, bool resyncD2 = false) {
		if(dead || dispatching) return;
		norm(m1); norm(m2);
		const std::string w = afterException ? ":after-exception" : ":after-success";
		if(content(*d1) != m1) { fail(std::string(op) + w + ":listeners-differ-from-model", "dispatcher 1 does not hold the listeners the model expects"); return; }
		if(resyncD2) { m2 = content(*d2); count("resync.failed_copy_destination"); }
		else if(content(*d2) != m2) { fail(std::string(op) + w + ":other-dispatcher-differs-from-model", "dispatcher 2 does not hold the listeners the model expects"); return; }
		if(ledger().liveCount(K_CB) != total(m1) + total(m2)) { fail(std::string(op) + w + ":callback-instances-leaked-or-lost", num(ledger().liveCount(K_CB)) + " live callback instances, model says " + num(total(m1) + total(m2))); return; }
		if(ledger().liveCount(K_PAYLOAD) != 0) fail(std::string(op) + w + ":payload-leaked", "dispatched payload still alive");
	}
	void onCall(int cbid, const ArgPack &, MutInts &) override {
		HarnessScope hs;
		if(dead) return;
		log("   call cb" + num(cbid));
		const int act = script.count(cbid) ? script[cbid] : 0;
		if(act == 1 && total(m1) < 14) {
			const int id = nextCb++, k = (int)rng.below(NK);
			Handle h;
			{ Lib l; h = d1->appendListener(Key(k), TCallback(id)); }
			m1[k].push_back(id); h1[id] = std::make_pair(k, h);
			log("   cb" + num(cbid) + " appended cb" + num(id) + " to k" + num(k));
		}
		else if(act == 2 && h1.count(cbid)) {
			const int k = h1[cbid].first;
			std::vector<int> & v = m1[k];
			const bool want = std::find(v.begin(), v.end(), cbid) != v.end();
			bool r;
			{ Lib l; r = d1->removeListener(Key(k), h1[cbid].second); }
			if(r && want) v.erase(std::find(v.begin(), v.end(), cbid));
			log("   cb" + num(cbid) + " removed itself -> " + num(r));
		}
		{ Lib l; faultPoint(F_CB_INVOKE); }
	}
	void step() override {
		const uint32_t c = rng.below(100);
		const int k = (int)rng.below(NK);
		if(c < 40) {
			const int id = nextCb++;
			const uint32_t w = rng.below(3);
			script[id] = (int)rng.below(4);
			int before = -1;
			if(w == 2 && ! m1[k].empty() && rng.chance(3, 4)) before = m1[k][rng.below((uint32_t)m1[k].size())];
			const Handle hb = before >= 0 ? h1[before].second : Handle();
			const char * op = w == 0 ? "appendListener" : w == 1 ? "prependListener" : "insertListener";
			log(std::string(op) + " k" + num(k) + " cb" + num(id));
			Handle h;
			const int out = attempt(op, [&]() { TCallback cb(id); Key key(k); if(w == 0) h = d1->appendListener(key, cb); else if(w == 1) h = d1->prependListener(key, cb); else h = d1->insertListener(key, cb, hb); });
			if(out == O_OK) {
				std::vector<int> & v = m1[k];
				if(w == 0) v.push_back(id); else if(w == 1) v.insert(v.begin(), id);
				else { std::vector<int>::iterator it = before >= 0 ? std::find(v.begin(), v.end(), before) : v.end(); v.insert(it, id); }
				h1[id] = std::make_pair(k, h);
			}
			verify(op, out != O_OK);
		}
		else if(c < 52) {
			if(h1.empty()) return;
			auto it = h1.begin(); std::advance(it, rng.below((uint32_t)h1.size()));
			const int id = it->first, kk = it->second.first;
			bool r = false;
			log("removeListener k" + num(kk) + " cb" + num(id));
			const int out = attempt("removeListener", [&]() { Key key(kk); r = d1->removeListener(key, it->second.second); });
			if(out == O_OK) {
				std::vector<int> & v = m1[kk];
				const bool want = std::find(v.begin(), v.end(), id) != v.end();
				if(r != want) { fail("removeListener:result", "returned " + num(r) + ", model says " + num(want)); return; }
				if(want) v.erase(std::find(v.begin(), v.end(), id));
			}
			verify("removeListener", out != O_OK);
		}
		else if(c < 76) {
			log("dispatch k" + num(k));
			++dispatching;
			const int out = attempt("dispatch", [&]() { if(rng.chance(1, 2)) d1->dispatch(Key(k), TPayload(500 + k)); else { Key key(k); TPayload p(500 + k); d1->dispatch(key, p); } });
			--dispatching;
			verify("dispatch", out != O_OK);
		}
		else if(c < 86) { // failed copy of a container: source untouched, destination valid (its content is read back)
			log("copy-assign D2 = D1");
			const int out = attempt("dispatcher_copy_assign", [&]() { *d2 = *d1; });
			if(out == O_OK) m2 = m1;
			verify("dispatcher_copy_assign", out != O_OK, out != O_OK);
		}
		else if(c < 94) {
			log("copy-construct D3(D1)");
			D * cpy = nullptr;
			const int out = attempt("dispatcher_copy_ctor", [&]() { cpy = new D(*d1); });
			if(out == O_OK) {
				norm(m1);
				if(content(*cpy) != m1) fail("dispatcher_copy_ctor:after-success:copy-content-differs", "copy does not hold the source's listeners");
				delete cpy;
			}
			verify("dispatcher_copy_ctor", out != O_OK);
		}
		else {
			bool r = false;
			log("hasAnyListener k" + num(k));
			const int out = attempt("hasAnyListener", [&]() { r = d1->hasAnyListener(Key(k)); });
			if(out == O_OK && r != ! m1[k].empty()) fail("hasAnyListener:result", "returned " + num(r));
			verify("hasAnyListener", out != O_OK);
		}
	}
};

// ================================================================== EventQueue
struct PolOrdered { template <typename Item> using QueueList = eventpp::OrderedQueueList<Item>; };
struct PolSingle { typedef eventpp::SingleThreading Threading; };

template <typename Policies, bool Ordered, bool HasWait>
struct EQTarget : Target
{
	typedef eventpp::EventQueue<FKey, void(const FKey &, const TPayload &), Policies> Q;
	typedef typename Q::Handle Handle;
	enum { NK = 3 };
	std::unique_ptr<Q> q;
	std::map<int, std::vector<int> > ml;
	std::map<int, std::pair<int, Handle> > hl;
	std::deque<int> pending;       // eids
	std::map<int, int> evKey;
	int nextEid, processing;

	EQTarget(uint64_t seed, const char * n) : Target(seed, n), nextEid(100), processing(0) {}
	void build() override { q.reset(new Q()); callbackSink() = this; }
	void destroy() override {
		callbackSink() = nullptr;
		q.reset();
		if(! dead && ledger().liveCount(K_CB) != 0) fail("destroy:callback-leaked", num(ledger().liveCount(K_CB)) + " callback instance(s) alive after destruction");
		if(! dead && ledger().liveCount(K_PAYLOAD) != 0) fail("destroy:payload-leaked", num(ledger().liveCount(K_PAYLOAD)) + " payload instance(s) alive after the queue was destroyed");
	}
	void insertPending(int eid) {
		if(! Ordered) { pending.push_back(eid); return; }
		std::deque<int>::iterator it = pending.begin();
		while(it != pending.end() && ! (evKey[eid] < evKey[*it])) ++it;
		pending.insert(it, eid);
	}
	struct Collect { std::vector<int> * v; void operator() (const typename Q::Callback & cb) const { v->push_back(cbIdOf(cb)); } };
	struct CollectQ { std::vector<int> * v; void operator() (const typename Q::QueuedEvent & e) const { v->push_back(std::get<1>(e.arguments).id()); } };
	std::vector<int> realPending() { std::vector<int> v; CollectQ c; c.v = &v; Access::forEachQueued(*q, c); return v; }
	static long total(const std::map<int, std::vector<int> > & m) { long n = 0; for(auto & kv : m) n += (long)kv.second.size(); return n; }
	void verify(const char * op, bool afterException, bool resyncPending = false) {
		if(dead || processing) return;
		const std::string w = afterException ? ":after-exception" : ":after-success";
		std::vector<int> rp = realPending();
		if(resyncPending) { pending.assign(rp.begin(), rp.end()); count("resync.pending_after_failed_takeEvent"); }
		std::vector<int> mp(pending.begin(), pending.end());
		if(rp != mp) { fail(std::string(op) + w + ":pending-events-differ-from-model", "queue holds" + ids(rp) + ", model says" + ids(mp)); return; }
		for(int k = 0; k < NK; ++k) {
			std::vector<int> v; Collect c; c.v = &v; q->forEach(FKey(k), c);
			if(v != ml[k]) { fail(std::string(op) + w + ":listeners-differ-from-model", "key " + num(k) + " holds" + ids(v) + ", model says" + ids(ml[k])); return; }
		}
		const bool e = q->emptyQueue();
		if(e != pending.empty()) { fail(std::string(op) + w + ":emptyQueue-wrong", "emptyQueue() returned " + num(e) + " with " + num((long long)pending.size()) + " event(s) pending"); return; }
		if(HasWait) {
			const bool wf = waitFor0();
			if(wf != ! pending.empty()) { fail(std::string(op) + w + ":waitFor-wrong", "waitFor(0) returned " + num(wf) + " with " + num((long long)pending.size()) + " event(s) pending"); return; }
		}
		if(Access::emptyCounter(*q) != 0) { fail(std::string(op) + w + ":processing-counter-not-restored", "counter=" + num(Access::emptyCounter(*q))); return; }
		if(ledger().liveCount(K_PAYLOAD) != (long)pending.size()) { fail(std::string(op) + w + ":payload-instances-leaked-or-lost", num(ledger().liveCount(K_PAYLOAD)) + " live payload instances, " + num((long long)pending.size()) + " events pending"); return; }
		if(ledger().liveCount(K_CB) != total(ml)) fail(std::string(op) + w + ":callback-instances-leaked-or-lost", num(ledger().liveCount(K_CB)) + " live listener instances, model says " + num(total(ml)));
	}
	template <bool W = HasWait> typename std::enable_if<W, bool>::type waitFor0() { return q->waitFor(std::chrono::milliseconds(0)); }
	template <bool W = HasWait> typename std::enable_if<! W, bool>::type waitFor0() { return false; }

	void onCall(int cbid, const ArgPack & args, MutInts &) override {
		HarnessScope hs;
		if(dead) return;
		log("   call cb" + num(cbid) + args.str());
		const int act = script.count(cbid) ? script[cbid] : 0;
		if(act == 1 && pending.size() < 10) {
			const int eid = nextEid++, k = (int)rng.below(NK);
			evKey[eid] = k;
			{ Lib l; q->enqueue(FKey(k), TPayload(eid)); }
			insertPending(eid);
			log("   cb" + num(cbid) + " enqueued e" + num(eid) + " k" + num(k));
		}
		else if(act == 2 && total(ml) < 10) {
			const int id = nextCb++, k = (int)rng.below(NK);
			Handle h;
			{ Lib l; h = q->appendListener(FKey(k), TCallback(id)); }
			ml[k].push_back(id); hl[id] = std::make_pair(k, h);
			log("   cb" + num(cbid) + " appended listener cb" + num(id) + " k" + num(k));
		}
		{ Lib l; faultPoint(F_CB_INVOKE); }
	}
	struct Pred { EQTarget * t; bool operator() (const FKey &, const TPayload & p) const { faultPoint(F_PRED); return (p.id() % 2) == 0; } };

	void step() override {
		const uint32_t c = rng.below(100);
		const int k = (int)rng.below(NK);
		if(c < 28) {
			const int eid = nextEid++;
			evKey[eid] = k;
			log("enqueue e" + num(eid) + " k" + num(k));
			const bool rv = rng.chance(1, 2);
			const int out = attempt("enqueue", [&]() { if(rv) q->enqueue(FKey(k), TPayload(eid)); else { FKey key(k); TPayload p(eid); q->enqueue(key, p); } });
			if(out == O_OK) insertPending(eid);
			verify("enqueue", out != O_OK);
		}
		else if(c < 60) {
			const uint32_t w = rng.below(3);
			const char * op = w == 0 ? "process" : w == 1 ? "processOne" : "processIf";
			log(op);
			// the call takes its batch out of the queue first; whatever happens, the batch does not come back (declined events do, on success)
			std::vector<int> batch;
			if(! pending.empty()) {
				if(w == 1) { batch.push_back(pending.front()); pending.pop_front(); }
				else { batch.assign(pending.begin(), pending.end()); pending.clear(); }
			}
			++processing;
			const int out = attempt(op, [&]() { if(w == 0) q->process(); else if(w == 1) q->processOne(); else { Pred p; p.t = this; q->processIf(p); } });
			--processing;
			if(out == O_OK && w == 2) {
				std::vector<int> declined;
				for(size_t i = 0; i < batch.size(); ++i) if(batch[i] % 2 != 0) declined.push_back(batch[i]);
				std::vector<int> all(declined);
				all.insert(all.end(), pending.begin(), pending.end());
				if(Ordered) std::stable_sort(all.begin(), all.end(), [this](int x, int y) { return evKey[x] < evKey[y]; });
				pending.assign(all.begin(), all.end());
			}
			if(out != O_OK) {
				count("processing_calls_left_by_exception");
				// "discards only the events that processing call had already taken out of the queue": events enqueued meanwhile must all
				// still be there, in order; of the batch any part may be gone (an event put back before the exception may remain)
				const std::vector<int> rp = realPending();
				size_t j = 0;
				std::vector<int> kept;
				for(size_t i = 0; i < rp.size(); ++i) {
					if(j < pending.size() && rp[i] == pending[j]) { ++j; continue; }
					if(std::find(batch.begin(), batch.end(), rp[i]) == batch.end() || std::find(kept.begin(), kept.end(), rp[i]) != kept.end()) { fail(std::string(op) + ":after-exception:unknown-or-duplicated-event-in-queue", "queue holds" + ids(rp)); return; }
					kept.push_back(rp[i]);
				}
				if(j != pending.size()) { fail(std::string(op) + ":after-exception:event-enqueued-during-the-call-was-discarded", "queue holds" + ids(rp) + ", events enqueued during the call:" + ids(std::vector<int>(pending.begin(), pending.end()))); return; }
				if(! kept.empty()) count("processing_exception.batch_events_kept", kept.size());
				pending.assign(rp.begin(), rp.end());
			}
			verify(op, out != O_OK);
		}
		else if(c < 68) {
			bool r = false;
			int got = -1, out;
			log("peekEvent");
			{
				std::unique_ptr<typename Q::QueuedEvent> e(new typename Q::QueuedEvent());
				out = attempt("peekEvent", [&]() { r = q->peekEvent(e.get()); });
				if(out == O_OK && r) got = std::get<1>(e->arguments).id();
			}
			if(out == O_OK) {
				if(r != ! pending.empty()) { fail("peekEvent:result", "returned " + num(r)); return; }
				if(r && got != pending.front()) { fail("peekEvent:content", "delivered e" + num(got) + ", model says e" + num(pending.front())); return; }
			}
			verify("peekEvent", out != O_OK);
		}
		else if(c < 74) {
			bool r = false;
			int got = -1;
			log("takeEvent");
			const int out = attempt("takeEvent", [&]() { typename Q::QueuedEvent e; r = q->takeEvent(&e); if(r) got = std::get<1>(e.arguments).id(); });
			if(out == O_OK) {
				if(r != ! pending.empty()) { fail("takeEvent:result", "returned " + num(r)); return; }
				if(r) { if(got != pending.front()) { fail("takeEvent:content", "delivered e" + num(got) + ", model says e" + num(pending.front())); return; } pending.pop_front(); }
			}
			verify("takeEvent", out != O_OK, out != O_OK); // takeEvent is not in the strong-guarantee list: pending is read back
		}
		else if(c < 78) {
			log("clearEvents");
			const int out = attempt("clearEvents", [&]() { q->clearEvents(); });
			if(out == O_OK) pending.clear();
			verify("clearEvents", out != O_OK);
		}
		else if(c < 90) {
			const int id = nextCb++;
			script[id] = (int)rng.below(4);
			Handle h;
			log("appendListener k" + num(k) + " cb" + num(id));
			const int out = attempt("appendListener", [&]() { FKey key(k); TCallback cb(id); h = rng.chance(1, 2) ? q->appendListener(key, cb) : q->prependListener(key, cb); });
			if(out == O_OK) {
				std::vector<int> v; Collect cc; cc.v = &v; q->forEach(FKey(k), cc); // append or prepend: read the position back (both are covered by C01/C04)
				ml[k] = v;
				hl[id] = std::make_pair(k, h);
			}
			verify("appendListener", out != O_OK);
		}
		else if(c < 96) {
			if(hl.empty()) return;
			auto it = hl.begin(); std::advance(it, rng.below((uint32_t)hl.size()));
			const int id = it->first, kk = it->second.first;
			bool r = false;
			log("removeListener k" + num(kk) + " cb" + num(id));
			const int out = attempt("removeListener", [&]() { FKey key(kk); r = q->removeListener(key, it->second.second); });
			if(out == O_OK && r) { std::vector<int> & v = ml[kk]; std::vector<int>::iterator f = std::find(v.begin(), v.end(), id); if(f != v.end()) v.erase(f); }
			verify("removeListener", out != O_OK);
		}
		else {
			log("copy-construct Q2(Q)");
			Q * cpy = nullptr;
			const int out = attempt("queue_copy_ctor", [&]() { cpy = new Q(*q); });
			if(out == O_OK) {
				if(! cpy->emptyQueue()) fail("queue_copy_ctor:after-success:copy-not-empty", "copied queue does not report empty");
				delete cpy;
			}
			verify("queue_copy_ctor", out != O_OK);
		}
	}
};

// ================================================================== remover utilities on a CallbackList / EventDispatcher
struct SRTarget : Target
{
	typedef eventpp::CallbackList<void(int)> L;
	typedef eventpp::EventDispatcher<FKey, void(const FKey &)> D;
	std::unique_ptr<L> l;
	std::unique_ptr<D> d;
	std::unique_ptr<eventpp::ScopedRemover<L> > rl;
	std::unique_ptr<eventpp::ScopedRemover<D> > rd;
	std::vector<int> ml, md;         // list content, dispatcher key 1 content
	std::vector<int> ownedL, ownedD; // attached through the removers
	std::map<int, int> remaining;    // CounterRemover: remaining triggers; ConditionalRemover: remove at n-th

	SRTarget(uint64_t seed, const char * n) : Target(seed, n), tracing(false) {}
	void build() override { l.reset(new L()); d.reset(new D()); rl.reset(new eventpp::ScopedRemover<L>(*l)); rd.reset(new eventpp::ScopedRemover<D>(*d)); callbackSink() = this; }
	void destroy() override {
		rl.reset(); rd.reset();
		// everything added through the removers must be gone now
		if(! dead) {
			std::vector<int> wl, wd;
			for(size_t i = 0; i < ml.size(); ++i) if(std::find(ownedL.begin(), ownedL.end(), ml[i]) == ownedL.end()) wl.push_back(ml[i]);
			for(size_t i = 0; i < md.size(); ++i) if(std::find(ownedD.begin(), ownedD.end(), md[i]) == ownedD.end()) wd.push_back(md[i]);
			ml = wl; md = wd; ownedL.clear(); ownedD.clear();
			verify("remover-destruction", false);
		}
		callbackSink() = nullptr;
		l.reset(); d.reset();
		if(! dead && ledger().liveCount(K_CB) != 0) fail("destroy:callback-leaked", num(ledger().liveCount(K_CB)) + " callback instance(s) alive after destruction");
	}
	struct Collect { std::vector<int> * v; template <typename C> void operator() (const C & cb) const { v->push_back(probe(cb)); }
		template <typename C> static int probe(const C & cb) { int id = cbIdOf(cb); return id; } };
	// wrapped listeners (CounterRemover / ConditionalRemover) are std::functions around a wrapper: identify them by triggering instead
	std::vector<int> trace;
	bool tracing;
	void onCall(int cbid, const ArgPack &, MutInts &) override { HarnessScope hs; if(tracing) trace.push_back(cbid); }
	std::vector<int> runList() { HarnessScope hs; trace.clear(); tracing = true; (*l)(1); tracing = false; return trace; }
	std::vector<int> runDisp() { HarnessScope hs; trace.clear(); tracing = true; d->dispatch(FKey(1)); tracing = false; return trace; }
	void settle(std::vector<int> & m, std::vector<int> & owned, const std::vector<int> & ran) {
		// auto-removing listeners: account for the trigger that verification itself just made
		for(size_t i = 0; i < ran.size(); ++i) {
			std::map<int, int>::iterator it = remaining.find(ran[i]);
			if(it == remaining.end()) continue;
			if(--it->second <= 0) { m.erase(std::find(m.begin(), m.end(), ran[i])); std::vector<int>::iterator o = std::find(owned.begin(), owned.end(), ran[i]); if(o != owned.end()) owned.erase(o); remaining.erase(it); }
		}
	}
	void verify(const char * op, bool afterException) {
		if(dead) return;
		const std::string w = afterException ? ":after-exception" : ":after-success";
		const std::vector<int> wantL = ml, wantD = md;
		const std::vector<int> rl_ = runList(), rd_ = runDisp();
		if(rl_ != wantL) { fail(std::string(op) + w + ":callback-list-differs-from-model", "triggering the list ran" + ids(rl_) + ", model says" + ids(wantL)); return; }
		if(rd_ != wantD) { fail(std::string(op) + w + ":dispatcher-differs-from-model", "dispatching ran" + ids(rd_) + ", model says" + ids(wantD)); return; }
		settle(ml, ownedL, rl_);
		settle(md, ownedD, rd_);
		if(ledger().liveCount(K_CB) != (long)(ml.size() + md.size())) fail(std::string(op) + w + ":callback-instances-leaked-or-lost", num(ledger().liveCount(K_CB)) + " live callback instances, model says " + num((long long)(ml.size() + md.size())));
	}
	struct Cond { int * left; bool operator() () const { faultPoint(F_COND); return --*left <= 0; } };
	std::vector<std::unique_ptr<int> > condState;

	void step() override {
		const uint32_t c = rng.below(100);
		const int id = nextCb++;
		if(c < 22) {
			const uint32_t w = rng.below(3);
			const char * op = w == 0 ? "ScopedRemover.append" : w == 1 ? "ScopedRemover.prepend" : "ScopedRemover.insert";
			log(std::string(op) + " cb" + num(id));
			const int out = attempt(op, [&]() { TCallback cb(id); if(w == 0) rl->append(cb); else if(w == 1) rl->prepend(cb); else rl->insert(cb, L::Handle()); });
			if(out == O_OK) { if(w == 1) ml.insert(ml.begin(), id); else ml.push_back(id); ownedL.push_back(id); }
			verify(op, out != O_OK);
		}
		else if(c < 44) {
			const uint32_t w = rng.below(3);
			const char * op = w == 0 ? "ScopedRemover.appendListener" : w == 1 ? "ScopedRemover.prependListener" : "ScopedRemover.insertListener";
			log(std::string(op) + " cb" + num(id));
			const int out = attempt(op, [&]() { TCallback cb(id); FKey key(1); if(w == 0) rd->appendListener(key, cb); else if(w == 1) rd->prependListener(key, cb); else rd->insertListener(key, cb, D::Handle()); });
			if(out == O_OK) { if(w == 1) md.insert(md.begin(), id); else md.push_back(id); ownedD.push_back(id); }
			verify(op, out != O_OK);
		}
		else if(c < 56) {
			const int n = 1 + (int)rng.below(3);
			const bool onList = rng.chance(1, 2);
			const char * op = onList ? "CounterRemover.append" : "CounterRemover.appendListener";
			log(std::string(op) + " cb" + num(id) + " n=" + num(n));
			const int out = attempt(op, [&]() { TCallback cb(id); if(onList) eventpp::counterRemover(*l).append(cb, n); else { FKey key(1); eventpp::counterRemover(*d).appendListener(key, cb, n); } });
			if(out == O_OK) { (onList ? ml : md).push_back(id); remaining[id] = n; }
			verify(op, out != O_OK);
		}
		else if(c < 68) {
			const int n = 1 + (int)rng.below(3);
			const bool onList = rng.chance(1, 2);
			const char * op = onList ? "ConditionalRemover.append" : "ConditionalRemover.appendListener";
			log(std::string(op) + " cb" + num(id) + " true-at=" + num(n));
			condState.push_back(std::unique_ptr<int>(new int(n)));
			Cond cond; cond.left = condState.back().get();
			const int out = attempt(op, [&]() { TCallback cb(id); if(onList) eventpp::conditionalRemover(*l).append(cb, cond); else { FKey key(1); eventpp::conditionalRemover(*d).appendListener(key, cb, cond); } });
			if(out == O_OK) { (onList ? ml : md).push_back(id); remaining[id] = n; }
			verify(op, out != O_OK);
		}
		else if(c < 80) {
			log("append directly cb" + num(id));
			const bool onList = rng.chance(1, 2);
			const int out = attempt(onList ? "append" : "appendListener", [&]() { TCallback cb(id); if(onList) l->append(cb); else { FKey key(1); d->appendListener(key, cb); } });
			if(out == O_OK) (onList ? ml : md).push_back(id);
			verify(onList ? "append" : "appendListener", out != O_OK);
		}
		else if(c < 90) {
			log("ScopedRemover.reset");
			const bool onList = rng.chance(1, 2);
			const int out = attempt("ScopedRemover.reset", [&]() { if(onList) rl->reset(); else rd->reset(); });
			std::vector<int> & m = onList ? ml : md; std::vector<int> & o = onList ? ownedL : ownedD;
			if(out == O_OK) {
				std::vector<int> keep;
				for(size_t i = 0; i < m.size(); ++i) if(std::find(o.begin(), o.end(), m[i]) == o.end()) keep.push_back(m[i]);
				m = keep; o.clear();
			}
			else {
				// reset() is a bulk operation of the remover itself, not one of the listener-management operations the statement gives the
				// strong guarantee to: after an exception any part of the remover's listeners may already be detached.  Read back which,
				// require that nothing else changed, and keep the rest under the remover's responsibility (checked at its destruction).
				const std::vector<int> now = onList ? runList() : runDisp();
				size_t j = 0;
				std::vector<int> gone;
				for(size_t i = 0; i < m.size(); ++i) { if(j < now.size() && now[j] == m[i]) ++j; else gone.push_back(m[i]); }
				bool ok = j == now.size();
				for(size_t i = 0; ok && i < gone.size(); ++i) ok = std::find(o.begin(), o.end(), gone[i]) != o.end();
				if(! ok) { fail("ScopedRemover.reset:after-exception:listener-not-owned-by-the-remover-changed", "ran" + ids(now) + ", before the call" + ids(m)); return; }
				settle(m, o, now); // the read-back was a trigger for the auto-removing listeners
				for(size_t i = 0; i < gone.size(); ++i) { m.erase(std::find(m.begin(), m.end(), gone[i])); o.erase(std::find(o.begin(), o.end(), gone[i])); remaining.erase(gone[i]); }
				count("resync.partial_reset_after_exception");
			}
			verify("ScopedRemover.reset", out != O_OK);
		}
		else {
			log("trigger");
			verify("trigger", false);
		}
	}
};

// ================================================================== heterogeneous classes
struct H1 { TCallback cb; explicit H1(int id) : cb(id) {} void operator() (int a) const { cb(a); } };
struct H2 { TCallback cb; explicit H2(int id) : cb(id) {} void operator() (int a, int b) const { cb(a, b); } };
struct HTTarget : Target
{
	typedef eventpp::HeterTuple<void(int), void(int, int)> Protos;
	typedef eventpp::HeterCallbackList<Protos> HL;
	typedef eventpp::HeterEventDispatcher<int, Protos> HD;
	typedef eventpp::HeterEventQueue<int, eventpp::HeterTuple<void(const TPayload &), void(int, const TPayload &)> > HQ;
	std::unique_ptr<HL> a, b;
	std::unique_ptr<HD> d;
	std::unique_ptr<HQ> q;
	std::vector<int> ma1, ma2, mb1, mb2, md1, md2; // per prototype
	std::vector<int> pending;
	std::map<int, HL::Handle> ha;
	std::vector<int> trace;
	bool tracing;
	int nextEid;

	HTTarget(uint64_t seed, const char * n) : Target(seed, n), tracing(false), nextEid(100) {}
	void build() override { a.reset(new HL()); b.reset(new HL()); d.reset(new HD()); q.reset(new HQ()); callbackSink() = this; q->appendListener(1, [](const TPayload &) {}); q->appendListener(1, [](int, const TPayload &) {}); }
	void destroy() override {
		callbackSink() = nullptr;
		a.reset(); b.reset(); d.reset(); q.reset();
		if(! dead && ledger().liveCount(K_CB) != 0) fail("destroy:callback-leaked", num(ledger().liveCount(K_CB)) + " callback instance(s) alive after destruction");
		if(! dead && ledger().liveCount(K_PAYLOAD) != 0) fail("destroy:payload-leaked", "payload instances alive after destruction");
	}
	void onCall(int cbid, const ArgPack &, MutInts &) override { HarnessScope hs; if(tracing) trace.push_back(cbid); else { Lib l; faultPoint(F_CB_INVOKE); } }
	template <typename T> std::vector<int> run1(T & t) { trace.clear(); tracing = true; t(1); tracing = false; return trace; }
	template <typename T> std::vector<int> run2(T & t) { trace.clear(); tracing = true; t(1, 2); tracing = false; return trace; }
	std::vector<int> runD(int n) { trace.clear(); tracing = true; if(n == 1) d->dispatch(5, 1); else d->dispatch(5, 1, 2); tracing = false; return trace; }
	void verify(const char * op, bool afterException) {
		if(dead) return;
		const std::string w = afterException ? ":after-exception" : ":after-success";
		if(run1(*a) != ma1 || run2(*a) != ma2) { fail(std::string(op) + w + ":heter-list-differs-from-model", "list A"); return; }
		if(run1(*b) != mb1 || run2(*b) != mb2) { fail(std::string(op) + w + ":other-heter-list-differs-from-model", "list B"); return; }
		if(runD(1) != md1 || runD(2) != md2) { fail(std::string(op) + w + ":heter-dispatcher-differs-from-model", "dispatcher"); return; }
		if(Access::queueSize(*q) != pending.size()) { fail(std::string(op) + w + ":heter-queue-pending-differs-from-model", num((long long)Access::queueSize(*q)) + " pending, model says " + num((long long)pending.size())); return; }
		const long want = (long)(ma1.size() + ma2.size() + mb1.size() + mb2.size() + md1.size() + md2.size());
		if(ledger().liveCount(K_CB) != want) { fail(std::string(op) + w + ":callback-instances-leaked-or-lost", num(ledger().liveCount(K_CB)) + " live, model says " + num(want)); return; }
		if(ledger().liveCount(K_PAYLOAD) != (long)pending.size()) fail(std::string(op) + w + ":payload-instances-leaked-or-lost", num(ledger().liveCount(K_PAYLOAD)) + " live payloads, " + num((long long)pending.size()) + " pending");
	}
	void step() override {
		const uint32_t c = rng.below(100);
		const int id = nextCb++;
		const bool two = rng.chance(1, 2);
		if(c < 30) {
			const uint32_t w = rng.below(2);
			const char * op = w == 0 ? "heter.append" : "heter.prepend";
			log(std::string(op) + " cb" + num(id) + (two ? " (int,int)" : " (int)"));
			HL::Handle h;
			const int out = attempt(op, [&]() { if(two) { H2 f(id); h = w == 0 ? a->append(f) : a->prepend(f); } else { H1 f(id); h = w == 0 ? a->append(f) : a->prepend(f); } });
			if(out == O_OK) { std::vector<int> & m = two ? ma2 : ma1; if(w == 0) m.push_back(id); else m.insert(m.begin(), id); ha[id] = h; }
			verify(op, out != O_OK);
		}
		else if(c < 42) {
			if(ha.empty()) return;
			auto it = ha.begin(); std::advance(it, rng.below((uint32_t)ha.size()));
			bool r = false;
			log("heter.remove cb" + num(it->first));
			const int out = attempt("heter.remove", [&]() { r = a->remove(it->second); });
			if(out == O_OK && r) { for(std::vector<int> * m : { &ma1, &ma2 }) { std::vector<int>::iterator f = std::find(m->begin(), m->end(), it->first); if(f != m->end()) m->erase(f); } }
			verify("heter.remove", out != O_OK);
		}
		else if(c < 58) { // heterogeneous callback-list assignment: strong guarantee
			log("heter copy-assign B = A");
			const int out = attempt("heter.copy_assign", [&]() { *b = *a; });
			if(out == O_OK) { mb1 = ma1; mb2 = ma2; }
			verify("heter.copy_assign", out != O_OK);
		}
		else if(c < 66) {
			log("heter copy-construct C(A)");
			HL * cpy = nullptr;
			const int out = attempt("heter.copy_ctor", [&]() { cpy = new HL(*a); });
			if(out == O_OK) { if(run1(*cpy) != ma1 || run2(*cpy) != ma2) fail("heter.copy_ctor:after-success:copy-content-differs", "copy"); delete cpy; }
			verify("heter.copy_ctor", out != O_OK);
		}
		else if(c < 80) {
			log("heter dispatcher appendListener cb" + num(id));
			const int out = attempt("heter.appendListener", [&]() { if(two) { H2 f(id); d->appendListener(5, f); } else { H1 f(id); d->appendListener(5, f); } });
			if(out == O_OK) (two ? md2 : md1).push_back(id);
			verify("heter.appendListener", out != O_OK);
		}
		else if(c < 92) {
			const int eid = nextEid++;
			log("heter queue enqueue e" + num(eid));
			const int out = attempt("heter.enqueue", [&]() { if(two) q->enqueue(1, 3, TPayload(eid)); else { TPayload p(eid); q->enqueue(1, p); } });
			if(out == O_OK) pending.push_back(eid);
			verify("heter.enqueue", out != O_OK);
		}
		else {
			log("heter queue process");
			const int out = attempt("heter.process", [&]() { q->process(); });
			pending.clear(); // the batch is gone either way
			verify("heter.process", out != O_OK);
		}
	}
};

// ================================================================== AnyData arguments in a queue (C17 under faults)
struct ADTarget : Target
{
	typedef eventpp::AnyData<64> Any;
	typedef TPayloadT<200> Big;
	typedef eventpp::EventQueue<int, void(const Any &)> Q;
	struct Listener { TCallback cb; explicit Listener(int id) : cb(id) {} void operator() (const Any & a) const { if(a.isType<TPayload>()) cb(a.get<TPayload>()); else if(a.isType<Big>()) cb(a.get<Big>()); else cb(-1); } };
	std::unique_ptr<Q> q;
	std::deque<int> pending;
	int nextEid, processing;
	std::vector<int> seen;

	ADTarget(uint64_t seed, const char * n) : Target(seed, n), nextEid(100), processing(0) {}
	void build() override { q.reset(new Q()); callbackSink() = this; q->appendListener(3, Listener(1)); }
	void destroy() override {
		callbackSink() = nullptr;
		q.reset();
		if(! dead && ledger().liveCount(K_PAYLOAD) != 0) fail("destroy:held-object-leaked", num(ledger().liveCount(K_PAYLOAD)) + " held object(s) alive after the queue was destroyed");
		if(! dead && ledger().liveCount(K_CB) != 0) fail("destroy:callback-leaked", "listener instances alive after destruction");
	}
	void onCall(int, const ArgPack & args, MutInts &) override {
		HarnessScope hs;
		if(dead) return;
		log("   listener sees held object " + args.str());
		seen.push_back((int)args.fp[0]);
		{ Lib l; faultPoint(F_CB_INVOKE); }
	}
	void verify(const char * op, bool afterException) {
		if(dead || processing) return;
		const std::string w = afterException ? ":after-exception" : ":after-success";
		if(Access::queueSize(*q) != pending.size()) { fail(std::string(op) + w + ":pending-events-differ-from-model", num((long long)Access::queueSize(*q)) + " pending, model says " + num((long long)pending.size())); return; }
		if(q->emptyQueue() != pending.empty()) { fail(std::string(op) + w + ":emptyQueue-wrong", "emptyQueue with " + num((long long)pending.size()) + " pending"); return; }
		if(ledger().liveCount(K_PAYLOAD) != (long)pending.size()) { fail(std::string(op) + w + ":held-objects-leaked-or-lost", num(ledger().liveCount(K_PAYLOAD)) + " live held objects, " + num((long long)pending.size()) + " events pending"); return; }
		for(size_t i = 0; i < pending.size(); ++i) if(ledger().liveOf(K_PAYLOAD, pending[i]) != 1) { fail(std::string(op) + w + ":held-object-instances", "object of e" + num(pending[i]) + " has " + num(ledger().liveOf(K_PAYLOAD, pending[i])) + " live instances"); return; }
	}
	void step() override {
		const uint32_t c = rng.below(100);
		if(c < 55) {
			const int eid = nextEid++;
			const bool big = rng.chance(1, 2), rv = rng.chance(1, 2);
			log(std::string("enqueue e") + num(eid) + (big ? " large (heap)" : " small (inline)") + (rv ? " from a temporary" : " from an lvalue"));
			const int out = attempt(big ? "anydata.enqueue.large" : "anydata.enqueue.small", [&]() {
				if(big) { if(rv) q->enqueue(3, Big(eid)); else { Big b(eid); q->enqueue(3, b); } }
				else { if(rv) q->enqueue(3, TPayload(eid)); else { TPayload b(eid); q->enqueue(3, b); } }
			});
			if(out == O_OK) pending.push_back(eid);
			verify("anydata.enqueue", out != O_OK);
		}
		else if(c < 85) {
			const bool one = rng.chance(1, 2);
			log(one ? "processOne" : "process");
			std::vector<int> batch;
			if(! pending.empty()) { if(one) { batch.push_back(pending.front()); pending.pop_front(); } else { batch.assign(pending.begin(), pending.end()); pending.clear(); } }
			seen.clear();
			++processing;
			const int out = attempt(one ? "anydata.processOne" : "anydata.process", [&]() { if(one) q->processOne(); else q->process(); });
			--processing;
			if(out == O_OK && seen != batch) { fail("anydata.process:held-values", "listener saw" + ids(seen) + ", model says" + ids(batch)); return; }
			verify("anydata.process", out != O_OK);
		}
		else {
			log("clearEvents");
			const int out = attempt("anydata.clearEvents", [&]() { q->clearEvents(); });
			if(out == O_OK) pending.clear();
			verify("anydata.clearEvents", out != O_OK);
		}
	}
};

// ------------------------------------------------------------------ executor
typedef std::unique_ptr<Target> TargetPtr;
#ifndef VF_CFG_MASK
#define VF_CFG_MASK 0x1ff
#endif
#define VF_KIND(n) (((VF_CFG_MASK) >> (n)) & 1)
static TargetPtr makeTarget(int kind, uint64_t seed)
{
	(void)seed;
	switch(kind) {
#if VF_KIND(0)
	case 0: return TargetPtr(new CLTarget<eventpp::DefaultPolicies>(seed, "cl"));
#endif
#if VF_KIND(1)
	case 1: { struct P { typedef TCallback Callback; typedef eventpp::SingleThreading Threading; }; return TargetPtr(new CLTarget<P>(seed, "cl-custom")); }
#endif
#if VF_KIND(2)
	case 2: return TargetPtr(new EDTarget<FKey, eventpp::DefaultPolicies>(seed, "ed-map"));
#endif
#if VF_KIND(3)
	case 3: return TargetPtr(new EDTarget<FHKey, PolSingle>(seed, "ed-hash"));
#endif
#if VF_KIND(4)
	case 4: return TargetPtr(new EQTarget<eventpp::DefaultPolicies, false, true>(seed, "eq"));
#endif
#if VF_KIND(5)
	case 5: return TargetPtr(new EQTarget<PolOrdered, true, true>(seed, "eq-ordered"));
#endif
#if VF_KIND(6)
	case 6: return TargetPtr(new SRTarget(seed, "removers"));
#endif
#if VF_KIND(7)
	case 7: return TargetPtr(new HTTarget(seed, "heter"));
#endif
#if VF_KIND(8)
	case 8: return TargetPtr(new ADTarget(seed, "anydata"));
#endif
	default: return TargetPtr();
	}
}
enum { NKINDS = 9 };

// replay the history `seed` of `nops` steps; arm the k-th fault point of step `at` (at < 0: none); optional second fault
static void replay(int kind, uint64_t seed, int nops, int at, long k, int at2, long k2, std::vector<long> * pointsPerStep)
{
	ledger().resetCase();
	FaultClock & fc = faultClock();
	fc.reset();
	fc.enabled = true; fc.userPoints = true; fc.allocPoints = true;
	TargetPtr t = makeTarget(kind, seed);
	t->build();
	for(int i = 0; i < nops && ! t->dead; ++i) {
		const long c0 = fc.count;
		if(i == at) fc.armAt = fc.count + k;
		else if(i == at2) fc.armAt = fc.count + k2;
		t->step();
		fc.armAt = 0;
		if(pointsPerStep) pointsPerStep->push_back(fc.count - c0);
	}
	t->destroy();
	fc.enabled = false;
}

static void runCase(uint64_t caseNo, Rng & rng)
{
	long long only = ctx().optInt("kind", -1);
	const int kind = only >= 0 ? (int)only : (int)(caseNo % NKINDS);
	if(! VF_KIND(kind)) { --ctx().casesRun; return; } // not built into this binary (parallel compilation of the target families)
	const int nops = rng.range(8, 20);
	const uint64_t seed = rng.next();
	const long maxPerStep = ctx().optInt("maxk", 40);
	oplog("target kind " + num(kind) + " history seed " + unum(seed) + " ops=" + num(nops));
	// pass 1: count the fault points of every step (also checks the fault-free history against the model)
	std::vector<long> pts;
	replay(kind, seed, nops, -1, 0, -1, 0, &pts);
	if(caseHasViolation()) return;
	const std::vector<std::string> baseLog = ctx().oplog;
	long total = 0;
	for(size_t i = 0; i < pts.size(); ++i) total += pts[i];
	count("fault_points_in_histories", (uint64_t)total);
	uint64_t injected = 0;
	Fnv h; h.addu((uint64_t)kind);
	for(size_t i = 0; i < baseLog.size(); ++i) h.add(baseLog[i]);
	// pass 2: every step x every fault point (evenly sampled above maxPerStep)
	for(int i = 0; i < (int)pts.size() && ! caseHasViolation(); ++i) {
		const long n = pts[(size_t)i];
		const long stride = n > maxPerStep ? (n + maxPerStep - 1) / maxPerStep : 1;
		for(long k = 1; k <= n && ! caseHasViolation(); k += stride) {
			ctx().oplog.clear();
			oplog("target kind " + num(kind) + " history seed " + unum(seed) + " ops=" + num(nops) + " FAULT at step " + num(i) + " point " + num(k) + " of " + num(n));
			int at2 = -1; long k2 = 0;
			if(rng.chance(1, 5) && i + 1 < (int)pts.size()) { at2 = i + 1 + (int)rng.below((uint32_t)(pts.size() - (size_t)i - 1)); k2 = 1 + (long)rng.below(12); count("double_fault_runs"); }
			replay(kind, seed, nops, i, k, at2, k2, nullptr);
			++injected;
		}
	}
	count("injection_runs", injected);
	count((std::string("histories.kind") + num(kind)).c_str());
	if(total >= 20) markNontrivial(h.h);
	if(wantSample() && ! caseHasViolation()) addSample("{\"case\":" + unum(caseNo) + ",\"fault_points_per_step\":" + [&]() { std::string s = "["; for(size_t i = 0; i < pts.size(); ++i) s += (i ? "," : "") + num(pts[i]); return s + "]"; }() + ",\"history\":" + oplogJson(baseLog, 40) + "}");
}

int main(int argc, char ** argv)
{
	faultClock().harnessDepth = 1; // harness code is exempt by default; library regions are entered through Lib
	return runMain(argc, argv, runCase);
}
