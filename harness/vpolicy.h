// vpolicy.h - Threading policy injected into the library for the concurrent monitors:
//   MonMutex / MonAtomic / MonCV + seeded schedule perturbation + the repository's EVENTPP_VERIF hooks.
// Define VF_CUSTOM_HOOKS before including vcommon.h, then include this header (it defines the three hooks).
//
// TSan builds (-DVF_TSAN): nothing here creates a happens-before edge between program threads that the
// program does not create itself: only relaxed atomics and thread-local state (DESIGN §3.7).
#ifndef VF_VPOLICY_H
#define VF_VPOLICY_H

#include "vcommon.h"
#include <atomic>
#include <mutex>
#include <condition_variable>
#include <thread>
#include <chrono>
#include <vector>
#include <eventpp/eventpolicies.h>

#if defined(VF_TSAN)
extern "C" void AnnotateIgnoreReadsBegin(const char * file, int line);
extern "C" void AnnotateIgnoreReadsEnd(const char * file, int line);
#endif

namespace vf {

// ---------------------------------------------------------------- tags
enum { MAXTAGS = 64 };
struct TagTable
{
	const char * name[MAXTAGS];
	std::atomic<const char *> ptr[MAXTAGS]; // literal address last seen for this tag (fast path)
	std::atomic<uint64_t> visits[MAXTAGS];
	std::atomic<int> n;
	std::atomic_flag lock;
	TagTable() { n = 0; lock.clear(); for(int i = 0; i < MAXTAGS; ++i) { name[i] = nullptr; ptr[i] = nullptr; visits[i] = 0; } }
	int idOf(const char * tag) {
		const int cnt = n.load(std::memory_order_acquire);
		for(int i = 0; i < cnt; ++i) if(ptr[i].load(std::memory_order_relaxed) == tag) return i;
		for(int i = 0; i < cnt; ++i) if(strcmp(name[i], tag) == 0) return i;
		while(lock.test_and_set(std::memory_order_acquire)) {}
		int c2 = n.load(std::memory_order_relaxed);
		int id = -1;
		for(int i = 0; i < c2; ++i) if(strcmp(name[i], tag) == 0) { id = i; break; }
		if(id < 0 && c2 < MAXTAGS) { id = c2; name[id] = tag; ptr[id].store(tag, std::memory_order_relaxed); n.store(c2 + 1, std::memory_order_release); }
		lock.clear(std::memory_order_release);
		return id < 0 ? 0 : id;
	}
};
inline TagTable & tags() { static TagTable * t = new TagTable(); return *t; }

// ---------------------------------------------------------------- schedule descriptor
struct Sched
{
	std::atomic<int> mode;     // 0 off, 1 random, 2 targeted (+ light random)
	std::atomic<int> tag;      // targeted: tag id
	std::atomic<int> role;     // targeted: thread role, -1 any
	std::atomic<int> nth;      // targeted: n-th visit of that tag by that thread within the case
	std::atomic<int> delayUs;
	std::atomic<uint64_t> seed;
	std::atomic<int> pRandom;  // per-mille probability of a random perturbation
	std::atomic<uint64_t> forced; // how often the targeted window fired
	std::atomic<int> tag2, nth2, delayUs2; // optional second targeted window (same role); tag2 = -1: none
	std::atomic<uint64_t> forced2;
	Sched() { mode = 0; tag = -1; role = -1; nth = 1; delayUs = 300; seed = 1; pRandom = 40; forced = 0; tag2 = -1; nth2 = 1; delayUs2 = 300; forced2 = 0; }
};
inline Sched & sched() { static Sched * s = new Sched(); return *s; }

struct Tls
{
	int role;
	int tid;
	Rng rng;
	int racyDepth;
	uint32_t visit[MAXTAGS];
	Tls() : role(0), tid(0), racyDepth(0) { memset(visit, 0, sizeof visit); }
};
inline Tls & tls() { static thread_local Tls t; return t; }
inline void threadBegin(int tid, int role, uint64_t caseSeed) {
	Tls & t = tls();
	t.tid = tid; t.role = role; t.racyDepth = 0;
	t.rng.reseed(mix(caseSeed, 7777 + (uint64_t)tid));
	memset(t.visit, 0, sizeof t.visit);
}

inline void spinUs(int us) {
	const std::chrono::steady_clock::time_point end = std::chrono::steady_clock::now() + std::chrono::microseconds(us);
	while(std::chrono::steady_clock::now() < end) {}
}

inline void perturb(const char * tag)
{
	Sched & s = sched();
	const int mode = s.mode.load(std::memory_order_relaxed);
	TagTable & tt = tags();
	const int id = tt.idOf(tag);
	tt.visits[id].fetch_add(1, std::memory_order_relaxed);
	if(mode == 0) return;
	Tls & t = tls();
	const uint32_t v = ++t.visit[id];
	if(mode == 2 && id == s.tag.load(std::memory_order_relaxed)) {
		const int role = s.role.load(std::memory_order_relaxed);
		if((role < 0 || role == t.role) && (int)v == s.nth.load(std::memory_order_relaxed)) {
			s.forced.fetch_add(1, std::memory_order_relaxed);
			std::this_thread::sleep_for(std::chrono::microseconds(s.delayUs.load(std::memory_order_relaxed)));
			return;
		}
	}
	if(mode == 2 && id == s.tag2.load(std::memory_order_relaxed)) {
		const int role = s.role.load(std::memory_order_relaxed);
		if((role < 0 || role == t.role) && (int)v == s.nth2.load(std::memory_order_relaxed)) {
			s.forced2.fetch_add(1, std::memory_order_relaxed);
			std::this_thread::sleep_for(std::chrono::microseconds(s.delayUs2.load(std::memory_order_relaxed)));
			return;
		}
	}
	const uint32_t p = (uint32_t)s.pRandom.load(std::memory_order_relaxed);
	if(p == 0 || t.rng.below(1000) >= p) return;
	const uint32_t k = t.rng.below(10);
	if(k < 5) std::this_thread::yield();
	else if(k < 8) spinUs(1 + (int)t.rng.below(40));
	else std::this_thread::sleep_for(std::chrono::microseconds(50 + t.rng.below(250)));
}

// ---------------------------------------------------------------- monitored mutex
struct SelfDeadlock : std::exception
{
	const char * what() const noexcept override { return "self-deadlock: thread re-locks a mutex it owns"; }
};

inline std::atomic<uint64_t> & syncSeq() { static std::atomic<uint64_t> s(0); return s; }
inline std::atomic<uint64_t> & syncHash() { static std::atomic<uint64_t> s(0); return s; }
inline std::atomic<int> & mutexIds() { static std::atomic<int> s(0); return s; }
// wait-for graph for the watchdog: which mutex each thread is blocked on, which thread holds each mutex
enum { MAXTHREADS = 64, MAXMUTEX = 1024 };
inline std::atomic<int> * waitingFor() { static std::atomic<int> * a = new std::atomic<int>[MAXTHREADS](); return a; } // mutex id + 1, 0 = none
inline std::atomic<int> * heldBy() { static std::atomic<int> * a = new std::atomic<int>[MAXMUTEX](); return a; }       // tid + 1, 0 = free
// "" or a description of a cycle thread -> mutex -> thread ...
inline std::string findLockCycle()
{
	for(int t = 0; t < MAXTHREADS; ++t) {
		int cur = t;
		std::string path;
		for(int steps = 0; steps < MAXTHREADS + 1; ++steps) {
			const int m = waitingFor()[cur].load(std::memory_order_relaxed);
			if(m == 0) break;
			const int h = heldBy()[(m - 1) % MAXMUTEX].load(std::memory_order_relaxed);
			if(h == 0) break;
			path += "T" + num(cur) + " waits for M" + num(m - 1) + " held by T" + num(h - 1) + "; ";
			cur = h - 1;
			if(cur == t) return path;
		}
	}
	return "";
}

// a thread that stays blocked acquiring a mutex that no thread holds (a lock whose release does not wake the waiter, e.g. a
// spin lock that sleeps in lock() but never notifies in unlock()): sampled several times, 60 ms apart
inline std::string findBlockedOnFreeLock()
{
	int stuckT = -1, stuckM = 0;
	for(int round = 0; round < 4; ++round) {
		int t0 = -1, m0 = 0;
		for(int t = 0; t < MAXTHREADS; ++t) {
			const int m = waitingFor()[t].load(std::memory_order_relaxed);
			if(m == 0) continue;
			if(heldBy()[(m - 1) % MAXMUTEX].load(std::memory_order_relaxed) != 0) return ""; // somebody holds it: an ordinary wait (or a cycle, reported elsewhere)
			if(t0 < 0) { t0 = t; m0 = m; }
		}
		if(t0 < 0) return "";
		if(round == 0) { stuckT = t0; stuckM = m0; }
		else if(t0 != stuckT || m0 != stuckM) return "";
		std::this_thread::sleep_for(std::chrono::milliseconds(60));
	}
	return "T" + num(stuckT) + " stays blocked acquiring M" + num(stuckM - 1) + " although no thread holds it (sampled 4 times over 240 ms after the scenario had made no progress for 15 s)";
}
// key + description of a deadlock among the monitored mutexes, or "" (then the lack of progress is inconclusive)
inline std::string findDeadlock(std::string & key)
{
	std::string d = findLockCycle();
	if(! d.empty()) { key = "deadlock:lock-cycle"; return d; }
	d = findBlockedOnFreeLock();
	if(! d.empty()) { key = "deadlock:thread-blocked-on-a-free-lock"; return d; }
	return "";
}

template <typename Inner>
struct MonMutexT
{
	Inner inner;
	std::atomic<int> owner; // tid + 1, 0 = free
	int id;
	MonMutexT() : owner(0), id(mutexIds().fetch_add(1, std::memory_order_relaxed)) {}
	MonMutexT(const MonMutexT &) = delete;
	MonMutexT & operator = (const MonMutexT &) = delete;

	void lock() {
		perturb("lock.pre");
		const int me = tls().tid + 1;
		if(owner.load(std::memory_order_relaxed) == me) throw SelfDeadlock();
		waitingFor()[(me - 1) % MAXTHREADS].store(id + 1, std::memory_order_relaxed);
		inner.lock();
		waitingFor()[(me - 1) % MAXTHREADS].store(0, std::memory_order_relaxed);
		owner.store(me, std::memory_order_relaxed);
		heldBy()[id % MAXMUTEX].store(me, std::memory_order_relaxed);
#if ! defined(VF_TSAN)
		const uint64_t seq = syncSeq().fetch_add(1, std::memory_order_relaxed);
		syncHash().fetch_xor(mix(seq, (uint64_t)me * 64 + (uint64_t)(id & 63)), std::memory_order_relaxed);
#endif
		perturb("lock.post");
	}
	void unlock() {
		owner.store(0, std::memory_order_relaxed);
		heldBy()[id % MAXMUTEX].store(0, std::memory_order_relaxed);
		inner.unlock();
		perturb("unlock.post");
	}
	bool try_lock() {
		if(! inner.try_lock()) return false;
		owner.store(tls().tid + 1, std::memory_order_relaxed);
		return true;
	}
};
typedef MonMutexT<std::mutex> MonMutex;
typedef MonMutexT<eventpp::SpinLock> MonSpin;

// ---------------------------------------------------------------- monitored atomic
template <typename T>
struct MonAtomic
{
	std::atomic<T> v;
	MonAtomic() noexcept : v() {}
	constexpr MonAtomic(T d) noexcept : v(d) {}
	MonAtomic(const MonAtomic &) = delete;
	MonAtomic & operator = (const MonAtomic &) = delete;
	T load(std::memory_order o = std::memory_order_seq_cst) const noexcept { if(tls().racyDepth) perturb("atomic.load.racy"); /* second read of a documented unlocked pair */ perturb("atomic.load.pre"); T r = v.load(o); perturb("atomic.load.post"); return r; }
	void store(T d, std::memory_order o = std::memory_order_seq_cst) noexcept { perturb("atomic.rmw.pre"); v.store(d, o); perturb("atomic.rmw.post"); }
	T exchange(T d, std::memory_order o = std::memory_order_seq_cst) noexcept { perturb("atomic.rmw.pre"); T r = v.exchange(d, o); perturb("atomic.rmw.post"); return r; }
	T operator ++ () noexcept { perturb("atomic.rmw.pre"); T r = ++v; perturb("atomic.rmw.post"); return r; }
	T operator -- () noexcept { perturb("atomic.rmw.pre"); T r = --v; perturb("atomic.rmw.post"); return r; }
	T operator = (T d) noexcept { store(d); return d; }
	operator T () const noexcept { return load(); }
};

// ---------------------------------------------------------------- monitored condition variable
// Own implementation (no spurious wake-ups, explicit waiter list) so that "a waiter is parked and nobody
// signalled it" is a STATE the monitor can read, not a timing guess.  Semantics = std::condition_variable:
// registering as a waiter and releasing the user's lock are atomic with respect to notify.
struct MonCV
{
	struct Waiter
	{
		std::mutex m;
		std::condition_variable c;
		bool signalled;
		int tid;
		Waiter() : signalled(false), tid(0) {}
	};
	std::mutex internal;
	std::vector<Waiter *> waiters;
	std::atomic<uint64_t> notifies, notifiesWithoutWaiter, waits, parks;
	std::atomic<bool> abortWaits; // harness escape hatch at the end of a scenario

	MonCV() : notifies(0), notifiesWithoutWaiter(0), waits(0), parks(0), abortWaits(false) {}

	void notify_one() noexcept {
		perturb("cv.notify.pre");
		notifies.fetch_add(1, std::memory_order_relaxed);
		Waiter * w = nullptr;
		{
			std::lock_guard<std::mutex> g(internal);
			if(! waiters.empty()) { w = waiters.front(); waiters.erase(waiters.begin()); }
		}
		if(w) { std::lock_guard<std::mutex> g(w->m); w->signalled = true; w->c.notify_one(); }
		else notifiesWithoutWaiter.fetch_add(1, std::memory_order_relaxed);
	}
	void notify_all() noexcept {
		std::vector<Waiter *> all;
		{ std::lock_guard<std::mutex> g(internal); all.swap(waiters); }
		for(size_t i = 0; i < all.size(); ++i) { std::lock_guard<std::mutex> g(all[i]->m); all[i]->signalled = true; all[i]->c.notify_one(); }
	}
	size_t parkedCount() { std::lock_guard<std::mutex> g(internal); return waiters.size(); }

	// returns true if signalled, false on timeout
	template <typename Lock>
	bool block(Lock & lock, bool timed, std::chrono::steady_clock::time_point deadline) {
		Waiter w;
		w.tid = tls().tid;
		{ std::lock_guard<std::mutex> g(internal); waiters.push_back(&w); }
		parks.fetch_add(1, std::memory_order_relaxed);
		lock.unlock(); // the waiter is registered before the user's lock is released
		bool sig;
		{
			std::unique_lock<std::mutex> g(w.m);
			if(timed) { while(! w.signalled) { if(w.c.wait_until(g, deadline) == std::cv_status::timeout) break; } }
			else { while(! w.signalled) w.c.wait(g); }
			sig = w.signalled;
		}
		if(! sig) {
			// timed out: withdraw; a concurrent notify may have picked us meanwhile
			bool found = false;
			{
				std::lock_guard<std::mutex> g(internal);
				for(size_t i = 0; i < waiters.size(); ++i) if(waiters[i] == &w) { waiters.erase(waiters.begin() + (long)i); found = true; break; }
			}
			if(! found) { std::unique_lock<std::mutex> g(w.m); while(! w.signalled) w.c.wait(g); sig = true; }
		}
		lock.lock();
		return sig;
	}

	// the forms without a predicate (the library does not use them today; a changed library may)
	template <typename Lock>
	void wait(Lock & lock) {
		waits.fetch_add(1, std::memory_order_relaxed);
		if(abortWaits.load(std::memory_order_relaxed)) return;
		perturb("cv.pred-false");
		block(lock, false, std::chrono::steady_clock::time_point());
	}
	template <typename Lock, typename Rep, typename Period>
	std::cv_status wait_for(Lock & lock, const std::chrono::duration<Rep, Period> & d) {
		waits.fetch_add(1, std::memory_order_relaxed);
		if(abortWaits.load(std::memory_order_relaxed)) return std::cv_status::no_timeout;
		perturb("cv.pred-false");
		const std::chrono::steady_clock::time_point deadline = std::chrono::steady_clock::now() + std::chrono::duration_cast<std::chrono::steady_clock::duration>(d);
		return block(lock, true, deadline) ? std::cv_status::no_timeout : std::cv_status::timeout;
	}

	template <typename Lock, typename Pred>
	void wait(Lock & lock, Pred pred) {
		waits.fetch_add(1, std::memory_order_relaxed);
		while(! pred()) {
			if(abortWaits.load(std::memory_order_relaxed)) return;
			perturb("cv.pred-false"); // between the predicate and the blocking, user's lock held
			block(lock, false, std::chrono::steady_clock::time_point());
		}
	}
	template <typename Lock, typename Rep, typename Period, typename Pred>
	bool wait_for(Lock & lock, const std::chrono::duration<Rep, Period> & d, Pred pred) {
		waits.fetch_add(1, std::memory_order_relaxed);
		const std::chrono::steady_clock::time_point deadline = std::chrono::steady_clock::now() + std::chrono::duration_cast<std::chrono::steady_clock::duration>(d);
		while(! pred()) {
			if(abortWaits.load(std::memory_order_relaxed)) return pred();
			perturb("cv.pred-false");
			if(! block(lock, true, deadline)) return pred();
		}
		return true;
	}
};

typedef eventpp::GeneralThreading<MonMutex, MonAtomic, MonCV> MonThreading;
typedef eventpp::GeneralThreading<MonSpin, MonAtomic, MonCV> MonSpinThreading;

} // namespace vf

// ---------------------------------------------------------------- the repository's hooks
extern "C" inline void eventpp_verif_point(const char * tag) { vf::perturb(tag); }
extern "C" inline void eventpp_verif_racy_read_begin(void)
{
	vf::Tls & t = vf::tls();
	if(t.racyDepth == 0) {
		t.racyDepth = 1;
#if defined(VF_TSAN)
		AnnotateIgnoreReadsBegin(__FILE__, __LINE__);
#endif
	}
}
extern "C" inline void eventpp_verif_racy_read_end(void)
{
	vf::Tls & t = vf::tls();
	if(t.racyDepth != 0) {
		t.racyDepth = 0;
#if defined(VF_TSAN)
		AnnotateIgnoreReadsEnd(__FILE__, __LINE__);
#endif
		vf::perturb("racy-read.end");
	}
}

#endif
