// drv_queue_mt.cpp - concurrent producers / consumers / observers on one EventQueue under an injected,
// perturbing Threading policy (C06 conservation + FIFO, C11 emptiness observations).  C++11.
// modes: c06 (default), c11 (observer mode)
#define VF_CUSTOM_HOOKS
#include "vcommon.h"
#include "vledger.h"
#include "vaccess.h"
#include "vpolicy.h"

#include <eventpp/eventqueue.h>
#include <eventpp/hetereventqueue.h>
#include <eventpp/utilities/orderedqueuelist.h>

#include <thread>
#include <algorithm>

using namespace vf;
typedef eventpp_verif::Access Access;

struct PolMon { typedef MonThreading Threading; };
struct PolMonSpin { typedef MonSpinThreading Threading; };
struct PolMonOrdered { typedef MonThreading Threading; template <typename Item> using QueueList = eventpp::OrderedQueueList<Item>; };

enum { MAXEV = 4096, ROLE_PRODUCER = 1, ROLE_CONSUMER = 2, ROLE_OBSERVER = 3 };
enum { ST_NONE = 0, ST_ENQ = 1, ST_DISPATCHED = 2, ST_TAKEN = 3 };

#if defined(VF_TSAN)
static const bool kTicks = false;
#else
static const bool kTicks = true;
#endif
static std::atomic<uint64_t> gTick(1);
static inline uint64_t tick() { return kTicks ? gTick.fetch_add(1, std::memory_order_seq_cst) : 0; }

struct Shared
{
	std::atomic<int> state[MAXEV];
	std::atomic<int> consumer[MAXEV];      // tid that consumed
	std::atomic<uint64_t> enqStart[MAXEV]; // tick before enqueue was called
	std::atomic<uint64_t> enqRet[MAXEV];   // tick after enqueue returned
	std::atomic<uint64_t> doneAt[MAXEV];   // earliest tick at which the statement regards the event as fully consumed
	std::atomic<int> producersLeft;
	std::atomic<bool> stop;
	std::atomic<uint64_t> progress;
	std::atomic<int> threadsDone;
	// per consumer thread consumption order (only appended by that thread)
	std::vector<int> order[MAXTHREADS];
	void reset() {
		for(int i = 0; i < MAXEV; ++i) { state[i].store(ST_NONE, std::memory_order_relaxed); consumer[i].store(-1, std::memory_order_relaxed); enqRet[i].store(0, std::memory_order_relaxed); enqStart[i].store(0, std::memory_order_relaxed); doneAt[i].store(~0ULL, std::memory_order_relaxed); }
		producersLeft = 0; stop = false; progress = 0; threadsDone = 0;
		for(int i = 0; i < MAXTHREADS; ++i) order[i].clear();
	}
};
static Shared * S = new Shared();

struct Obs { uint64_t tc, tr; int kind; };
static std::vector<Obs> gObs[MAXTHREADS];
static std::vector<Obs> gClears[MAXTHREADS]; // intervals of clearEvents calls

// listener sink: called concurrently
struct MtSink : CallbackSink
{
	void onCall(int cbid, const ArgPack & args, MutInts &) override {
		const long long eid = args.fp[args.n - 1];
		if(eid < 0 || eid >= MAXEV) { violation("dispatch:payload-not-intact", "listener received payload fingerprint " + num(eid)); return; }
		if(cbid != 1 + (eid % 3) || (args.n == 2 && args.fp[0] != cbid)) { violation("dispatch:wrong-listener-or-key", "listener cb" + num(cbid) + " received " + args.str() + " for event " + num(eid)); return; }
		int expect = ST_ENQ;
		if(! S->state[eid].compare_exchange_strong(expect, ST_DISPATCHED, std::memory_order_relaxed)) {
			violation(expect == ST_NONE ? "dispatch:event-never-enqueued" : (expect == ST_DISPATCHED ? "dispatch:event-dispatched-twice" : "dispatch:event-dispatched-after-taken"),
				"event " + num(eid) + " dispatched while its state was " + num(expect));
			return;
		}
		const int tid = tls().tid;
		S->consumer[eid].store(tid, std::memory_order_relaxed);
		S->order[tid % MAXTHREADS].push_back((int)eid);
		S->progress.fetch_add(1, std::memory_order_relaxed);
		perturb("listener.body");
		S->doneAt[eid].store(tick(), std::memory_order_relaxed); // end of the (only) listener of this event
	}
};

struct Scenario
{
	int producers, consumers, observers, perProducer;
	bool allowClear, selective;
	bool earlyStop; // the consumers leave as soon as the producers are done, whatever is still queued: the main thread, alone, drains the rest
	int consumerOps[8][6]; // weights per consumer: process, processOne, processIf, processUntil, takeEvent, peekEvent(+clear)
};

// what a queue type offers
template <typename Q> struct QOps
{
	enum { heter = 0 };
	static void listen(Q & q) { for(int k = 1; k <= 3; ++k) q.appendListener(k, TCallback(k)); }
	static void enqueue(Q & q, int key, int eid, bool rvalue) { if(rvalue) q.enqueue(key, TPayload(eid)); else { TPayload pl(eid); q.enqueue(key, pl); } }
};
struct HL0 { TCallback cb; explicit HL0(int k) : cb(k) {} void operator() (int a, const TPayload & p) const { cb(a, p); } };
struct HL1 { TCallback cb; explicit HL1(int k) : cb(k) {} void operator() (const TPayload & p) const { cb(p); } };
struct PolMonHeter { typedef MonThreading Threading; };
typedef eventpp::HeterEventQueue<int, eventpp::HeterTuple<void(int, const TPayload &), void(const TPayload &)>, PolMonHeter> HQ;
template <> struct QOps<HQ>
{
	enum { heter = 1 };
	static void listen(HQ & q) { for(int k = 1; k <= 3; ++k) { q.appendListener(k, HL0(k)); q.appendListener(k, HL1(k)); } }
	static void enqueue(HQ & q, int key, int eid, bool rvalue) {
		if(eid & 1) { if(rvalue) q.enqueue(key, TPayload(eid)); else { TPayload pl(eid); q.enqueue(key, pl); } }
		else { if(rvalue) q.enqueue(key, key, TPayload(eid)); else { TPayload pl(eid); q.enqueue(key, key, pl); } }
	}
};

template <typename Q>
struct Runner
{
	Q q;
	Scenario sc;
	uint64_t caseSeed;
	std::atomic<uint64_t> cleared;

	static int keyOf(int eid) { return 1 + (eid % 3); }

	void producer(int tid, int p) {
		threadBegin(tid, ROLE_PRODUCER, caseSeed);
		try {
			for(int i = 0; i < sc.perProducer; ++i) {
				const int eid = p * 1000 + i;
				S->state[eid].store(ST_ENQ, std::memory_order_relaxed);
				S->enqStart[eid].store(tick(), std::memory_order_relaxed);
				QOps<Q>::enqueue(q, keyOf(eid), eid, tls().rng.chance(1, 2));
				S->enqRet[eid].store(tick(), std::memory_order_relaxed);
				S->progress.fetch_add(1, std::memory_order_relaxed);
			}
		}
		catch(const SelfDeadlock &) { violation("deadlock:self-relock", "producer re-locked a mutex it owns"); }
		S->producersLeft.fetch_sub(1, std::memory_order_seq_cst);
		S->threadsDone.fetch_add(1, std::memory_order_seq_cst);
	}

	struct PredAll { bool operator() (int, const TPayload &) const { perturb("pred.body"); return true; } };
	struct PredSel { bool want; bool operator() (int, const TPayload & p) const { perturb("pred.body"); return ((p.id() / 3) % 2 == 0) == want; } };
	struct PredUntil { int n; mutable int seen; bool operator() (int, const TPayload &) const { perturb("pred.body"); return ++seen > n; } };

	template <typename E>
	void taken(int tid, const E & e) {
		const long long eid = fpOf(std::get<1>(e.arguments));
		if(eid < 0 || eid >= MAXEV) { violation("takeEvent:payload-not-intact", "takeEvent delivered payload fingerprint " + num(eid)); return; }
		if(e.event != keyOf((int)eid) || std::get<0>(e.arguments) != keyOf((int)eid)) { violation("takeEvent:wrong-key", "takeEvent delivered event " + num(eid) + " with key " + num(e.event)); return; }
		int expect = ST_ENQ;
		if(! S->state[eid].compare_exchange_strong(expect, ST_TAKEN, std::memory_order_relaxed)) {
			violation(expect == ST_TAKEN ? "takeEvent:event-taken-twice" : "takeEvent:event-already-dispatched", "event " + num(eid) + " taken while its state was " + num(expect));
			return;
		}
		S->consumer[eid].store(tid, std::memory_order_relaxed);
		S->order[tid % MAXTHREADS].push_back((int)eid);
		S->progress.fetch_add(1, std::memory_order_relaxed);
	}

	struct PredH1 { bool want; bool sel; bool operator() (const TPayload & p) const { perturb("pred.body"); return ! sel || ((p.id() / 3) % 2 == 0) == want; } };
	template <typename QQ = Q>
	typename std::enable_if<QOps<QQ>::heter != 0>::type consumeOp(int, int op, Rng & rng) {
		switch(op) {
		case 0: q.process(); break;
		case 1: q.processOne(); break;
		case 2: case 3:
			if(rng.chance(1, 2)) { if(sc.selective) { PredSel p; p.want = rng.chance(1, 2); q.processIf(p); } else q.processIf(PredAll()); }
			else { PredH1 p; p.sel = sc.selective; p.want = rng.chance(1, 2); q.processIf(p); }
			break;
		case 4: q.processOne(); break;
		default:
			if(sc.allowClear && rng.chance(1, 6)) {
				Obs o; o.kind = 2; o.tc = tick();
				q.clearEvents();
				o.tr = tick();
				gClears[tls().tid % MAXTHREADS].push_back(o);
				cleared.fetch_add(1, std::memory_order_relaxed);
			}
			else q.emptyQueue();
			break;
		}
	}
	template <typename QQ = Q>
	typename std::enable_if<QOps<QQ>::heter == 0>::type consumeOp(int tid, int op, Rng & rng) {
		switch(op) {
		case 0: q.process(); break;
		case 1: q.processOne(); break;
		case 2: if(sc.selective) { PredSel p; p.want = rng.chance(1, 2); q.processIf(p); } else q.processIf(PredAll()); break;
		case 3: { PredUntil p; p.n = (int)rng.below(4); p.seen = 0; q.processUntil(p); break; }
		case 4: {
			typename Q::QueuedEvent e;
			const uint64_t t0 = tick();
			if(q.takeEvent(&e)) {
				taken(tid, e);
				const long long eid = fpOf(std::get<1>(e.arguments));
				if(eid >= 0 && eid < MAXEV) S->doneAt[eid].store(t0, std::memory_order_relaxed); // the call had begun: earliest completion the statement allows
			}
			break; }
		default:
			if(sc.allowClear && rng.chance(1, 6)) {
				Obs o; o.kind = 2; o.tc = tick();
				q.clearEvents();
				o.tr = tick();
				gClears[tid % MAXTHREADS].push_back(o);
				cleared.fetch_add(1, std::memory_order_relaxed);
			}
			else {
				typename Q::QueuedEvent e;
				if(q.peekEvent(&e)) {
					const long long eid = fpOf(std::get<1>(e.arguments));
					if(eid < 0 || eid >= MAXEV || e.event != keyOf((int)eid)) violation("peekEvent:content-not-intact", "peekEvent delivered payload fingerprint " + num(eid) + " key " + num(e.event));
				}
			}
			break;
		}
	}

	void consumer(int tid, int c) {
		threadBegin(tid, ROLE_CONSUMER, caseSeed);
		Rng & rng = tls().rng;
		const int * w = sc.consumerOps[c];
		int total = 0;
		for(int i = 0; i < 6; ++i) total += w[i];
		try {
			for(;;) {
				if(S->stop.load(std::memory_order_relaxed)) break;
				if(S->producersLeft.load(std::memory_order_seq_cst) == 0 && (sc.earlyStop || q.emptyQueue())) break;
				int r = (int)rng.below((uint32_t)total), op = 0;
				while(r >= w[op]) { r -= w[op]; ++op; }
				consumeOp(tid, op, rng);
				S->progress.fetch_add(1, std::memory_order_relaxed);
			}
		}
		catch(const SelfDeadlock &) { violation("deadlock:self-relock", "consumer re-locked a mutex it owns"); }
		S->threadsDone.fetch_add(1, std::memory_order_seq_cst);
	}

	void observer(int tid) {
		threadBegin(tid, ROLE_OBSERVER, caseSeed);
		Rng & rng = tls().rng;
		std::vector<Obs> & v = gObs[tid % MAXTHREADS];
		try {
			while(! S->stop.load(std::memory_order_relaxed) && S->threadsDone.load(std::memory_order_relaxed) < sc.producers + sc.consumers) {
				Obs o;
				o.kind = rng.chance(3, 4) ? 0 : 1;
				o.tc = tick();
				bool empty;
				if(o.kind == 0) empty = q.emptyQueue();
				else empty = ! q.waitFor(std::chrono::milliseconds(0));
				o.tr = tick();
				if(empty && v.size() < 200000) v.push_back(o);
				S->progress.fetch_add(1, std::memory_order_relaxed);
				if(rng.chance(1, 8)) std::this_thread::yield();
			}
		}
		catch(const SelfDeadlock &) { violation("deadlock:self-relock", "observer re-locked a mutex it owns"); }
	}
};

static void pickTargetedWindow(Rng & rng, const Scenario & sc)
{
	static const char * kTags[] = { "racy-read.end", "lock.pre", "lock.post", "unlock.post", "atomic.rmw.post", "atomic.rmw.pre", "atomic.load.pre", "atomic.load.post",
		"q.queueList.cs", "q.freeList.cs", "listener.body" };
	Sched & s = sched();
	const uint32_t m = rng.below(10);
	s.seed = rng.next();
	if(m < 2) { s.mode = 0; return; }
	s.pRandom = (int)(10 + rng.below(60));
	if(m < 5) { s.mode = 1; return; }
	s.mode = 2;
	s.tag = tags().idOf(kTags[rng.below(sizeof(kTags) / sizeof(kTags[0]))]);
	const uint32_t r = rng.below(sc.observers > 0 ? 3 : 2);
	s.role = r == 0 ? ROLE_PRODUCER : r == 1 ? ROLE_CONSUMER : ROLE_OBSERVER;
	s.nth = 1 + (int)rng.below(6);
	s.delayUs = 100 + (int)rng.below(900);
}

static uint64_t gSyncHashes = 0;

template <typename Q>
static void runScenario(uint64_t caseNo, Rng & rng, const char * cfgName, bool observerMode)
{
	ledger().resetCase();
	S->reset();
	for(int i = 0; i < MAXTHREADS; ++i) { gObs[i].clear(); gClears[i].clear(); }
	syncHash().store(0, std::memory_order_relaxed);
	syncSeq().store(0, std::memory_order_relaxed);
	threadBegin(0, 0, ctx().curSeed);

	Scenario sc;
	sc.producers = 1 + (int)rng.below(4);
	sc.consumers = 1 + (int)rng.below(4);
	sc.observers = observerMode ? 1 + (int)rng.below(2) : 0;
	sc.perProducer = 10 + (int)rng.below(70);
	sc.allowClear = rng.chance(1, 3);
	sc.selective = rng.chance(1, 2);
	sc.earlyStop = ! observerMode && rng.chance(1, 2);
	for(int c = 0; c < 8; ++c) {
		for(int i = 0; i < 6; ++i) sc.consumerOps[c][i] = rng.chance(1, 2) ? (int)rng.below(5) : 0;
		if(observerMode) { sc.consumerOps[c][5] = sc.allowClear ? 1 : 0; } // peek adds nothing to the emptiness oracle
		if(sc.consumerOps[c][0] + sc.consumerOps[c][1] + sc.consumerOps[c][2] + sc.consumerOps[c][4] == 0) sc.consumerOps[c][(int)rng.below(2)] = 2; // must be able to drain
	}
	pickTargetedWindow(rng, sc);
	Sched & sd = sched();
	const uint64_t forcedBefore = sd.forced.load();
	const int total = sc.producers * sc.perProducer;

	oplog(std::string("config ") + cfgName + ": producers=" + num(sc.producers) + " x " + num(sc.perProducer) + " events, consumers=" + num(sc.consumers) + " observers=" + num(sc.observers)
		+ " clearEvents=" + num(sc.allowClear) + " selective-predicates=" + num(sc.selective) + " consumers-leave-with-the-producers=" + num(sc.earlyStop) + " sched.mode=" + num(sd.mode.load()) + " tag=" + (sd.mode.load() == 2 ? tags().name[sd.tag.load()] : "-")
		+ " role=" + num(sd.role.load()) + " nth=" + num(sd.nth.load()) + " delayUs=" + num(sd.delayUs.load()));
	for(int c = 0; c < sc.consumers; ++c) {
		std::string s = "  consumer " + num(c) + " op weights process/processOne/processIf/processUntil/takeEvent/peek|clear =";
		for(int i = 0; i < 6; ++i) s += " " + num(sc.consumerOps[c][i]);
		oplog(s);
	}

	MtSink sink;
	callbackSink() = &sink;
	{
		Runner<Q> * R = new Runner<Q>();
		R->sc = sc; R->caseSeed = ctx().curSeed; R->cleared = 0;
		QOps<Q>::listen(R->q);
		S->producersLeft = sc.producers;
		std::vector<std::thread> th;
		int tid = 1;
		for(int p = 0; p < sc.producers; ++p, ++tid) th.push_back(std::thread(&Runner<Q>::producer, R, tid, p));
		for(int c = 0; c < sc.consumers; ++c, ++tid) th.push_back(std::thread(&Runner<Q>::consumer, R, tid, c));
		for(int o = 0; o < sc.observers; ++o, ++tid) th.push_back(std::thread(&Runner<Q>::observer, R, tid));
		// watchdog: logical deadlock (lock cycle) = violation; otherwise a stall is inconclusive
		const int need = sc.producers + sc.consumers;
		uint64_t lastProgress = 0;
		int stalled = 0;
		while(S->threadsDone.load(std::memory_order_seq_cst) < need) {
			std::this_thread::sleep_for(std::chrono::milliseconds(2));
			const uint64_t p = S->progress.load(std::memory_order_relaxed);
			if(p != lastProgress) { lastProgress = p; stalled = 0; continue; }
			if(++stalled > 5000) { // 10 s without any progress
				std::string dkey; const std::string cyc = findDeadlock(dkey);
				if(! cyc.empty()) violation(dkey, cyc);
				else oplog("INCONCLUSIVE: no progress for 10 s and no lock cycle");
				writeResult();
				_exit(cyc.empty() ? 4 : 3);
			}
		}
		S->stop = true;
		for(size_t i = 0; i < th.size(); ++i) th[i].join();

		// final drain by the main thread
		sched().mode = 0;
		int guard = 0;
		{
			// every other thread has been joined: this call is alone with the queue, so the sequential rule applies to it exactly -
			// process() dispatches everything that is pending and says so
			const long long left = (long long)Access::queueSize(R->q);
			if(left > 0) {
				count("drain.events_left_for_the_main_thread", (uint64_t)left);
				count("drain.runs_with_events_left");
				const bool r = R->q.process();
				if(! r) violation("drain:process-returned-false-with-events-pending", "all producers and consumers have finished, " + num(left) + " event(s) are pending, and process() called by the only remaining thread returned false");
				else if(Access::queueSize(R->q) != 0) violation("drain:process-left-events-pending", "all producers and consumers have finished; process() called by the only remaining thread returned true but left " + num((long long)Access::queueSize(R->q)) + " of " + num(left) + " pending event(s) in the queue");
			}
		}
		while(! R->q.emptyQueue() && guard++ < 100000) R->q.process();
		const bool finalEmpty = R->q.emptyQueue();
		if(! finalEmpty) violation("drain:queue-not-empty-after-drain", "emptyQueue() still false after the final drain");
		// structure
		std::string err = Access::checkSlots(R->q);
		if(! err.empty()) violation("structure:" + err, err);
		if(Access::queueSize(R->q) != 0) violation("structure:queue-not-empty-after-drain", num((long long)Access::queueSize(R->q)) + " slots left in the pending list");
		if(Access::emptyCounter(R->q) != 0) violation("structure:processing-counter-not-zero-at-quiescence", "counter=" + num(Access::emptyCounter(R->q)));
		countMax("max_free_slots", Access::freeSize(R->q));
		count("clearEvents_calls", R->cleared.load());

		// conservation: every enqueued event consumed exactly once, or discarded by a clearEvents of this run
		int nd = 0, nt = 0, nc = 0;
		for(int p = 0; p < sc.producers; ++p) for(int i = 0; i < sc.perProducer; ++i) {
			const int eid = p * 1000 + i;
			const int st = S->state[eid].load(std::memory_order_relaxed);
			if(st == ST_DISPATCHED) ++nd;
			else if(st == ST_TAKEN) ++nt;
			else if(st == ST_ENQ) {
				if(R->cleared.load() > 0) ++nc;
				else { violation("conservation:event-lost", "event " + num(eid) + " was enqueued but never dispatched or taken, and clearEvents was never called"); break; }
			}
			else { violation("conservation:event-state", "event " + num(eid) + " state " + num(st)); break; }
			if(ledger().liveOf(K_PAYLOAD, eid) != 0) { violation("conservation:payload-still-alive-after-drain", "payload of event " + num(eid) + " has " + num(ledger().liveOf(K_PAYLOAD, eid)) + " live instance(s)"); break; }
		}
		if(nd + nt + nc != total && ! caseHasViolation()) violation("conservation:count", "dispatched+taken+cleared=" + num(nd + nt + nc) + " enqueued=" + num(total));
		count("events_enqueued", (uint64_t)total); count("events_dispatched", (uint64_t)nd); count("events_taken", (uint64_t)nt); count("events_cleared", (uint64_t)nc);

		// FIFO: one consumer thread, no selectively declining predicate => per producer in enqueue order
		bool ordered = std::is_same<Q, eventpp::EventQueue<int, void(int, const TPayload &), PolMonOrdered> >::value;
		// a heterogeneous processIf only looks at the prototypes its predicate accepts: events of other prototypes queued ahead stay, by design
		const bool heterSelective = QOps<Q>::heter != 0 && (sc.consumerOps[0][2] + sc.consumerOps[0][3]) > 0;
		if(sc.consumers == 1 && ! sc.selective && ! ordered && ! heterSelective) {
			const int ctid = sc.producers + 1;
			std::vector<int> last((size_t)sc.producers, -1);
			const std::vector<int> & o = S->order[ctid];
			for(size_t i = 0; i < o.size(); ++i) {
				const int p = o[i] / 1000, seq = o[i] % 1000;
				if(seq < last[(size_t)p]) { violation("fifo:single-producer-single-consumer-order", "consumer saw event " + num(o[i]) + " after a later event of the same producer"); break; }
				last[(size_t)p] = seq;
			}
			count("fifo_checked_pairs", (uint64_t)sc.producers);
		}
		else if(sc.consumers == 1 && ! sc.selective && ordered) {
			// ordered queue: events that compare equal keep their enqueue order - also when older ones were taken out and put back by
			// processUntil while the producer went on enqueuing: per producer AND key, one consumer sees them in enqueue order
			const int ctid = sc.producers + 1;
			std::vector<int> last((size_t)sc.producers * 4, -1);
			const std::vector<int> & o = S->order[ctid];
			for(size_t i = 0; i < o.size(); ++i) {
				const size_t slot = (size_t)(o[i] / 1000) * 4 + (size_t)Runner<Q>::keyOf(o[i]);
				if((o[i] % 1000) < last[slot]) { violation("stability:equal-keys-of-one-producer-consumed-against-enqueue-order", "ordered queue, one consumer: event " + num(o[i]) + " (key " + num(Runner<Q>::keyOf(o[i])) + ") was consumed after a later event of the same producer with the same key"); break; }
				last[slot] = o[i] % 1000;
			}
			count("stability_checked_producer_key_pairs", (uint64_t)sc.producers * 3);
		}
		else if(sc.consumers == 1 && ! sc.selective && heterSelective) {
			// heterogeneous queue, predicates that accept every event of their prototype: within ONE prototype the events of one
			// producer must still be consumed in enqueue order (events of other prototypes stay "in place")
			const int ctid = sc.producers + 1;
			std::vector<int> last((size_t)sc.producers * 2, -1);
			const std::vector<int> & o = S->order[ctid];
			for(size_t i = 0; i < o.size(); ++i) {
				const size_t slot = (size_t)(o[i] / 1000) * 2 + (size_t)(o[i] & 1);
				if((o[i] % 1000) < last[slot]) { violation("fifo:single-producer-single-consumer-order:within-one-prototype", "consumer saw event " + num(o[i]) + " after a later event of the same producer and prototype"); break; }
				last[slot] = o[i] % 1000;
			}
			count("fifo_checked_pairs_per_prototype", (uint64_t)sc.producers * 2);
		}

		// C11: offline join of the observations with the ledger
		if(kTicks) {
			// a discarded event is regarded as consumed at the START of the earliest clearEvents call that could have
			// discarded it (any call that returned after the event's enqueue began): never later than the truth
			std::vector<std::pair<uint64_t, uint64_t> > clears; // (tr, tc)
			for(int t = 0; t < MAXTHREADS; ++t) for(size_t i = 0; i < gClears[t].size(); ++i) clears.push_back(std::make_pair(gClears[t][i].tr, gClears[t][i].tc));
			std::sort(clears.begin(), clears.end());
			std::vector<uint64_t> sufMin(clears.size() + 1, ~0ULL);
			for(size_t i = clears.size(); i-- > 0; ) sufMin[i] = std::min(sufMin[i + 1], clears[i].second);
			std::vector<std::pair<uint64_t, uint64_t> > ev; // (enqRet, doneAt)
			std::vector<int> evId;
			for(int p = 0; p < sc.producers; ++p) for(int i = 0; i < sc.perProducer; ++i) {
				const int eid = p * 1000 + i;
				const uint64_t er = S->enqRet[eid].load(std::memory_order_relaxed);
				if(er == 0) continue;
				uint64_t done = S->doneAt[eid].load(std::memory_order_relaxed);
				if(S->state[eid].load(std::memory_order_relaxed) == ST_ENQ) { // discarded by clearEvents
					const uint64_t es = S->enqStart[eid].load(std::memory_order_relaxed);
					size_t lo = 0, hi = clears.size();
					while(lo < hi) { size_t mid = (lo + hi) / 2; if(clears[mid].first > es) hi = mid; else lo = mid + 1; }
					done = sufMin[lo];
				}
				ev.push_back(std::make_pair(er, done));
				evId.push_back(eid);
			}
			{ // sort both by enqRet
				std::vector<size_t> idx(ev.size());
				for(size_t i = 0; i < idx.size(); ++i) idx[i] = i;
				std::sort(idx.begin(), idx.end(), [&ev](size_t a, size_t b) { return ev[a] < ev[b]; });
				std::vector<std::pair<uint64_t, uint64_t> > ev2; std::vector<int> id2;
				for(size_t i = 0; i < idx.size(); ++i) { ev2.push_back(ev[idx[i]]); id2.push_back(evId[idx[i]]); }
				ev.swap(ev2); evId.swap(id2);
			}
			std::vector<uint64_t> prefMax(ev.size());
			std::vector<int> prefMaxId(ev.size());
			uint64_t mx = 0; int mxId = -1;
			for(size_t i = 0; i < ev.size(); ++i) { if(ev[i].second > mx) { mx = ev[i].second; mxId = evId[i]; } prefMax[i] = mx; prefMaxId[i] = mxId; }
			uint64_t nobs = 0, interesting = 0;
			for(int t = 0; t < MAXTHREADS; ++t) for(size_t i = 0; i < gObs[t].size(); ++i) {
				const Obs & o = gObs[t][i];
				++nobs;
				// events whose enqueue returned before the observation began
				size_t lo = 0, hi = ev.size();
				while(lo < hi) { size_t mid = (lo + hi) / 2; if(ev[mid].first < o.tc) lo = mid + 1; else hi = mid; }
				if(lo == 0) continue;
				++interesting;
				if(prefMax[lo - 1] > o.tr) {
					violation(o.kind == 0 ? "emptyQueue:true-while-event-pending-or-in-dispatch" : "waitFor:timed-out-while-event-pending-or-in-dispatch",
						"observation [" + unum(o.tc) + "," + unum(o.tr) + "] reported empty although event " + num(prefMaxId[lo - 1]) + " (state " + num(S->state[prefMaxId[lo - 1]].load()) + ", enqueue returned at " + unum(S->enqRet[prefMaxId[lo - 1]].load()) + ") enqueued before it was not fully consumed until tick " + unum(prefMax[lo - 1]));
					break;
				}
			}
			count("observations_empty_true", nobs);
			count("observations_with_prior_events", interesting);
		}
		delete R;
	}
	callbackSink() = nullptr;
	if(ledger().liveCount(K_PAYLOAD) != 0 && ! caseHasViolation()) violation("lifetime:payload-leaked-after-queue-destruction", num(ledger().liveCount(K_PAYLOAD)) + " payload instance(s) alive after the queue was destroyed");
	if(ledger().liveCount(K_CB) != 0 && ! caseHasViolation()) violation("lifetime:listener-leaked-after-queue-destruction", "listener instances alive after the queue was destroyed");
	count("windows_forced", sd.forced.load() - forcedBefore);
	if(sd.mode.load() == 2) count("targeted_cases");
	count("threads", (uint64_t)(sc.producers + sc.consumers + sc.observers));
	const uint64_t sh = syncHash().load(std::memory_order_relaxed);
	Fnv f; f.addu(sh); f.addu(caseNo);
	markNontrivial(kTicks ? sh : f.h); // distinct synchronisation orders observed (lock acquisition sequence hash); TSan build: per case
	gSyncHashes ^= sh;
	if(wantSample()) addSample("{\"case\":" + unum(caseNo) + ",\"scenario\":" + oplogJson(ctx().oplog, 12) + ",\"sync_order_hash\":" + unum(sh) + "}");
}

typedef eventpp::EventQueue<int, void(int, const TPayload &), PolMon> Q0;
typedef eventpp::EventQueue<int, void(int, const TPayload &), PolMonSpin> Q1;
typedef eventpp::EventQueue<int, void(int, const TPayload &), PolMonOrdered> Q2;

static void runCase(uint64_t caseNo, Rng & rng)
{
	const bool obs = ctx().mode == "c11";
	long long only = ctx().optInt("cfg", -1);
	const int cfg = only >= 0 ? (int)only : (int)(caseNo % 4);
	if(cfg == 3) runScenario<HQ>(caseNo, rng, "HeterEventQueue MonMutex (two prototypes)", obs);
	else if(cfg == 0) runScenario<Q0>(caseNo, rng, "EventQueue MonMutex(std::mutex)", obs);
	else if(cfg == 1) runScenario<Q1>(caseNo, rng, "EventQueue MonMutex(SpinLock)", obs);
	else runScenario<Q2>(caseNo, rng, "EventQueue OrderedQueueList MonMutex", obs);
}

int main(int argc, char ** argv)
{
	return runMain(argc, argv, runCase, []() {
		TagTable & tt = tags();
		for(int i = 0; i < tt.n.load(); ++i) ctx().counters[std::string("tag.") + tt.name[i]] = tt.visits[i].load();
	});
}
