// vcommon.h - shared infrastructure of the eventpp runtime monitors (C++11).
//   PRNG (own distributions: identical programs under every compiler),
//   FNV hash, case log, violation sink, JSON result file, main loop.
#ifndef VF_VCOMMON_H
#define VF_VCOMMON_H

#include <cstdint>
#include <cstdio>
#include <cstdlib>
#include <cstring>
#include <string>
#include <vector>
#include <map>
#include <unordered_set>
#include <functional>
#include <exception>
#include <mutex>
#include <unistd.h>
#include <fcntl.h>
#include <signal.h>

namespace vf {

inline uint64_t splitmix(uint64_t & x)
{
	uint64_t z = (x += 0x9e3779b97f4a7c15ULL);
	z = (z ^ (z >> 30)) * 0xbf58476d1ce4e5b9ULL;
	z = (z ^ (z >> 27)) * 0x94d049bb133111ebULL;
	return z ^ (z >> 31);
}

inline uint64_t mix(uint64_t a, uint64_t b)
{
	uint64_t x = a ^ (b * 0x9e3779b97f4a7c15ULL + 0x7f4a7c15ULL);
	uint64_t r = splitmix(x);
	r ^= splitmix(x);
	return r;
}

struct Rng
{
	uint64_t s[4];
	explicit Rng(uint64_t seed = 1) { reseed(seed); }
	void reseed(uint64_t seed) { uint64_t x = seed; for(int i = 0; i < 4; ++i) s[i] = splitmix(x); }
	static uint64_t rotl(uint64_t x, int k) { return (x << k) | (x >> (64 - k)); }
	uint64_t next() {
		const uint64_t result = rotl(s[1] * 5, 7) * 9;
		const uint64_t t = s[1] << 17;
		s[2] ^= s[0]; s[3] ^= s[1]; s[1] ^= s[2]; s[0] ^= s[3];
		s[2] ^= t; s[3] = rotl(s[3], 45);
		return result;
	}
	// uniform in [0, n)
	uint32_t below(uint32_t n) { if(n <= 1) return 0; return (uint32_t)((next() >> 11) % n); }
	int range(int lo, int hi) { return lo + (int)below((uint32_t)(hi - lo + 1)); } // inclusive
	bool chance(uint32_t num, uint32_t den) { return below(den) < num; }
};

struct Fnv
{
	uint64_t h;
	Fnv() : h(1469598103934665603ULL) {}
	void add(const void * p, size_t n) { const unsigned char * c = (const unsigned char *)p; for(size_t i = 0; i < n; ++i) { h ^= c[i]; h *= 1099511628211ULL; } }
	void add(const std::string & s) { add(s.data(), s.size()); unsigned char z = 0xff; add(&z, 1); }
	void addu(uint64_t v) { add(&v, sizeof(v)); }
};

inline std::string jstr(const std::string & s)
{
	std::string o = "\"";
	for(size_t i = 0; i < s.size(); ++i) {
		unsigned char c = (unsigned char)s[i];
		if(c == '"' || c == '\\') { o += '\\'; o += (char)c; }
		else if(c == '\n') o += "\\n";
		else if(c == '\t') o += "\\t";
		else if(c < 0x20 || c >= 0x7f) { char b[8]; snprintf(b, sizeof b, "\\u%04x", c); o += b; }
		else o += (char)c;
	}
	o += '"';
	return o;
}

inline std::string num(long long v) { char b[32]; snprintf(b, sizeof b, "%lld", v); return b; }
inline std::string unum(unsigned long long v) { char b[32]; snprintf(b, sizeof b, "%llu", v); return b; }

struct Violation
{
	std::string key, desc;
	uint64_t caseNo, seed;
	std::vector<std::string> oplog;
};

struct Ctx
{
	uint64_t seed;
	uint64_t cases;
	int shard, nshards;
	std::string outPath, logPath, mode;
	long long replayCase;
	std::map<std::string, std::string> opts;

	uint64_t curCase, curSeed;
	std::vector<std::string> oplog;
	bool oplogTruncated;

	uint64_t casesRun;
	std::map<std::string, uint64_t> counters;
	std::unordered_set<uint64_t> nontrivial;
	std::vector<std::string> samples; // each a JSON value
	std::vector<Violation> viols;
	uint64_t nviol;
	uint64_t caseViolBase;
	int logFd;

	Ctx() : seed(1), cases(100), shard(0), nshards(1), replayCase(-1), curCase(0), curSeed(0), oplogTruncated(false),
		casesRun(0), nviol(0), caseViolBase(0), logFd(-1) {}

	std::string opt(const std::string & k, const std::string & dflt = "") const {
		std::map<std::string, std::string>::const_iterator it = opts.find(k);
		return it == opts.end() ? dflt : it->second;
	}
	long long optInt(const std::string & k, long long dflt) const {
		std::map<std::string, std::string>::const_iterator it = opts.find(k);
		return it == opts.end() ? dflt : atoll(it->second.c_str());
	}
};

inline Ctx & ctx() { static Ctx c; return c; }

inline void count(const char * k, uint64_t n = 1) { ctx().counters[k] += n; }
inline void countMax(const char * k, uint64_t v) { uint64_t & r = ctx().counters[k]; if(v > r) r = v; }

inline void oplog(const std::string & s)
{
	Ctx & c = ctx();
	if(c.oplog.size() < 4000) c.oplog.push_back(s);
	else c.oplogTruncated = true;
}

inline bool caseHasViolation() { return ctx().nviol > ctx().caseViolBase; }

// Record a violation. key = stable identification of WHAT failed (call site /
// history shape), used by the known-findings matcher; desc = free text.
inline void violation(const std::string & key, const std::string & desc)
{
	static std::mutex vmutex; // violations may be reported from worker threads of the concurrent drivers
	std::lock_guard<std::mutex> vguard(vmutex);
	Ctx & c = ctx();
	++c.nviol;
	if(c.viols.size() < 12) {
		Violation v;
		v.key = key; v.desc = desc; v.caseNo = c.curCase; v.seed = c.seed; v.oplog = c.oplog;
		if(v.oplog.size() > 400) { // keep head and tail
			std::vector<std::string> t(v.oplog.begin(), v.oplog.begin() + 100);
			t.push_back("... (" + unum(v.oplog.size() - 300) + " lines elided) ...");
			t.insert(t.end(), v.oplog.end() - 200, v.oplog.end());
			v.oplog.swap(t);
		}
		c.viols.push_back(v);
	}
	if(c.replayCase >= 0) {
		fprintf(stderr, "VIOL key=%s :: %s\n", key.c_str(), desc.c_str());
	}
}

inline void markNontrivial(uint64_t h) { ctx().nontrivial.insert(h); }
inline void addSample(const std::string & json) { if(ctx().samples.size() < 4) ctx().samples.push_back(json); }
inline bool wantSample() { return ctx().samples.size() < 3; }

inline std::string oplogJson(const std::vector<std::string> & l, size_t maxLines = 120)
{
	std::string s = "[";
	for(size_t i = 0; i < l.size() && i < maxLines; ++i) { if(i) s += ","; s += jstr(l[i]); }
	if(l.size() > maxLines) s += ",\"...\"";
	return s + "]";
}

inline void logLine(const char * tag, uint64_t a, uint64_t b)
{
	Ctx & c = ctx();
	if(c.logFd < 0) return;
	char buf[96];
	int n = snprintf(buf, sizeof buf, "%s %llu %llu\n", tag, (unsigned long long)a, (unsigned long long)b);
	if(n > 0) { ssize_t r = write(c.logFd, buf, (size_t)n); (void)r; }
}

inline void writeResult()
{
	Ctx & c = ctx();
	if(c.outPath.empty()) return;
	std::string s = "{";
	s += "\"cases_run\":" + unum(c.casesRun);
	s += ",\"seed\":" + unum(c.seed);
	s += ",\"shard\":" + num(c.shard);
	s += ",\"mode\":" + jstr(c.mode);
	s += ",\"counters\":{";
	bool first = true;
	for(std::map<std::string, uint64_t>::const_iterator it = c.counters.begin(); it != c.counters.end(); ++it) {
		if(! first) s += ",";
		first = false;
		s += jstr(it->first) + ":" + unum(it->second);
	}
	s += "},\"nviol\":" + unum(c.nviol);
	s += ",\"violations\":[";
	for(size_t i = 0; i < c.viols.size(); ++i) {
		const Violation & v = c.viols[i];
		if(i) s += ",";
		s += "{\"key\":" + jstr(v.key) + ",\"desc\":" + jstr(v.desc) + ",\"case\":" + unum(v.caseNo) + ",\"seed\":" + unum(v.seed)
			+ ",\"oplog\":" + oplogJson(v.oplog, 600) + "}";
	}
	s += "],\"samples\":[";
	for(size_t i = 0; i < c.samples.size(); ++i) { if(i) s += ","; s += c.samples[i]; }
	s += "],\"nontrivial\":[";
	first = true;
	for(std::unordered_set<uint64_t>::const_iterator it = c.nontrivial.begin(); it != c.nontrivial.end(); ++it) {
		if(! first) s += ",";
		first = false;
		s += unum(*it);
	}
	s += "]}\n";
	std::string tmp = c.outPath + ".tmp";
	FILE * f = fopen(tmp.c_str(), "w");
	if(! f) { perror("fopen out"); _exit(2); }
	fwrite(s.data(), 1, s.size(), f);
	fclose(f);
	rename(tmp.c_str(), c.outPath.c_str());
}

inline void onTerminate()
{
	Ctx & c = ctx();
	char buf[160];
	int n = snprintf(buf, sizeof buf, "TERMINATE case=%llu seed=%llu\n", (unsigned long long)c.curCase, (unsigned long long)c.seed);
	if(n > 0) { ssize_t r = write(2, buf, (size_t)n); (void)r; }
	logLine("T", c.curCase, 0);
	_exit(77);
}

// per-case wall-clock watchdog: a case that does not finish (e.g. a callback that can no longer re-enter the list because a
// lock is held across the call) ends the process with a recognisable line instead of hanging the shard until the outer time-out
inline void onWatchdog(int)
{
	Ctx & c = ctx();
	char buf[160];
	int n = snprintf(buf, sizeof buf, "WATCHDOG case=%llu seed=%llu did not finish\n", (unsigned long long)c.curCase, (unsigned long long)c.seed);
	if(n > 0) { ssize_t r = write(2, buf, (size_t)n); (void)r; }
	_exit(6);
}

typedef std::function<void(uint64_t caseNo, Rng & rng)> CaseFn;

// args: --seed S --cases N --shard k/n --out F --log F --replay CASE --mode M --opt k=v ...
inline int runMain(int argc, char ** argv, const CaseFn & fn, const std::function<void()> & finish = std::function<void()>())
{
	Ctx & c = ctx();
	for(int i = 1; i < argc; ++i) {
		std::string a = argv[i];
		std::string v = (i + 1 < argc) ? argv[i + 1] : "";
		if(a == "--seed") { c.seed = strtoull(v.c_str(), 0, 10); ++i; }
		else if(a == "--cases") { c.cases = strtoull(v.c_str(), 0, 10); ++i; }
		else if(a == "--shard") { sscanf(v.c_str(), "%d/%d", &c.shard, &c.nshards); ++i; }
		else if(a == "--out") { c.outPath = v; ++i; }
		else if(a == "--log") { c.logPath = v; ++i; }
		else if(a == "--replay") { c.replayCase = atoll(v.c_str()); ++i; }
		else if(a == "--mode") { c.mode = v; ++i; }
		else if(a == "--opt") { size_t p = v.find('='); if(p != std::string::npos) c.opts[v.substr(0, p)] = v.substr(p + 1); else c.opts[v] = "1"; ++i; }
		else { fprintf(stderr, "unknown argument %s\n", a.c_str()); return 2; }
	}
	if(! c.logPath.empty()) c.logFd = open(c.logPath.c_str(), O_WRONLY | O_CREAT | O_TRUNC, 0644);
	std::set_terminate(onTerminate);
	const unsigned watchdogSeconds = (unsigned)c.optInt("watchdog", 240);
	if(watchdogSeconds) signal(SIGALRM, onWatchdog);

	uint64_t first = (uint64_t)c.shard, step = (uint64_t)c.nshards, last = c.cases;
	if(c.replayCase >= 0) { first = (uint64_t)c.replayCase; step = 1; last = first + 1; }
	for(uint64_t n = first; n < last; n += step) {
		c.curCase = n;
		c.curSeed = mix(c.seed, n);
		c.oplog.clear();
		c.oplogTruncated = false;
		c.caseViolBase = c.nviol;
		logLine("B", n, c.curSeed);
		if(watchdogSeconds) alarm(watchdogSeconds);
		Rng rng(c.curSeed);
		fn(n, rng);
		++c.casesRun;
		logLine("E", n, caseHasViolation() ? 1 : 0);
		if(c.replayCase >= 0) {
			for(size_t i = 0; i < c.oplog.size(); ++i) fprintf(stderr, "  %s\n", c.oplog[i].c_str());
		}
	}
	alarm(0);
	if(finish) finish();
	writeResult();
	if(c.logFd >= 0) close(c.logFd);
	return c.nviol ? 3 : 0;
}

} // namespace vf

// Default (no-op) implementations of the repository's verification hooks.
// Drivers that schedule/perturb define VF_CUSTOM_HOOKS and provide their own.
#if defined(EVENTPP_VERIF) && ! defined(VF_CUSTOM_HOOKS)
extern "C" void eventpp_verif_point(const char *) {}
extern "C" void eventpp_verif_racy_read_begin(void) {}
extern "C" void eventpp_verif_racy_read_end(void) {}
#endif

#endif
