// drv_filter.cpp - online monitor of property C12: MixinFilter / MixinHeterFilter,
// canContinueInvoking, conditionalFunctor, argumentAdapter.  C++17.
//
// One control flow: generated histories of appendFilter/removeFilter,
// append/prepend/insert/removeListener, direct dispatches and enqueue +
// process/processOne/processIf.  Filters, listeners, conditions, policies,
// mixins and predicates are scripted functors that call back into the World,
// which checks every call ONLINE against the model (filter chain + listener
// list per event key, one Frame per dispatch) and may issue nested operations.
//
// modes (--mode): c12 (default), flat (no re-entrancy), deep (more nesting, longer)
// options: --opt cfg=N (force configuration N for every case)
#include "vcommon.h"
#include "vledger.h"
#include "vaccess.h"

#include <eventpp/callbacklist.h>
#include <eventpp/eventdispatcher.h>
#include <eventpp/eventqueue.h>
#include <eventpp/hetereventdispatcher.h>
#include <eventpp/mixins/mixinfilter.h>
#include <eventpp/mixins/mixinheterfilter.h>
#include <eventpp/utilities/conditionalfunctor.h>
#include <eventpp/utilities/argumentadapter.h>

#include <algorithm>
#include <climits>
#include <deque>
#include <unordered_map>
#include <memory>

using namespace vf;

// ------------------------------------------------------------------ argument shapes
// order of the parameters of a prototype: i = int, s = std::string, p = std::shared_ptr<VBase>
enum Shape { SH_IS, SH_II, SH_I, SH_SI, SH_PI, SH_N };
static const char * kShapeName[] = { "(int,string)", "(int&,int)", "(int)", "(string,int)", "(shared_ptr<Base>,int)" };
static bool shapeHasS(int sh) { return sh == SH_IS || sh == SH_SI; }

// class hierarchy for the pointer adapter: the VBase sub-object is NOT at offset 0 of VDerived
struct VPad { long long pad[3]; VPad() { pad[0] = pad[1] = pad[2] = 0x5a5a5a5a; } virtual ~VPad() {} };
struct VBase { virtual ~VBase() {} virtual int vid() const { return -1; } };
struct VDerived : VPad, VBase { int id; explicit VDerived(int i) : id(i) {} int vid() const override { return id; } };
inline long long fpOf(const VBase & b) { return b.vid(); } // found by ADL from vf::fpOf(shared_ptr<T>)

// generated / model argument values of one dispatch
struct DArgs
{
	int i0, i1;
	std::string s;
	int obj;
	std::shared_ptr<VDerived> objp;
	DArgs() : i0(0), i1(0), obj(-1) {}
};

static int addWrap(int v, int d) { return (int)((unsigned)v + (unsigned)d); }
static long long posmod(long long v, long long m) { long long r = v % m; return r < 0 ? r + m : r; }
static std::string strOf(const DArgs & a, int sh)
{
	switch(sh) {
	case SH_IS: return "(" + num(a.i0) + ",\"" + a.s + "\")";
	case SH_II: return "(" + num(a.i0) + "," + num(a.i1) + ")";
	case SH_I: return "(" + num(a.i0) + ")";
	case SH_SI: return "(\"" + a.s + "\"," + num(a.i0) + ")";
	default: return "(obj" + num(a.obj) + "," + num(a.i0) + ")";
	}
}

// what a filter / condition / mixin / policy / predicate really received
struct ArgView
{
	int nI;
	int * mi[2];
	int iv[2];
	std::string * ms;
	const std::string * cs;
	int obj;
	char kinds[6]; // per argument: M = modifiable lvalue, C = const lvalue, R = rvalue
	int nk;
	ArgView() : nI(0), ms(nullptr), cs(nullptr), obj(-1), nk(0) { mi[0] = mi[1] = nullptr; iv[0] = iv[1] = 0; }
	void kind(char k) { if(nk < 5) kinds[nk++] = k; }
	const std::string * str() const { return ms ? ms : cs; }
	std::string text() const {
		std::string t = "(";
		for(int i = 0; i < nI; ++i) { if(i) t += ","; t += num(mi[i] ? *mi[i] : iv[i]); }
		if(str()) t += ",\"" + *str() + "\"";
		if(obj >= 0) t += ",obj" + num(obj);
		return t + ")";
	}
};
inline void bindInt(ArgView & w, int * p, int v, char k) { if(w.nI < 2) { w.mi[w.nI] = p; w.iv[w.nI] = v; ++w.nI; } w.kind(k); }
inline void bindOne(ArgView & w, int & v) { bindInt(w, &v, v, 'M'); }
inline void bindOne(ArgView & w, const int & v) { bindInt(w, nullptr, v, 'C'); }
inline void bindOne(ArgView & w, int && v) { bindInt(w, nullptr, v, 'R'); }
inline void bindOne(ArgView & w, std::string & s) { w.ms = &s; w.kind('M'); }
inline void bindOne(ArgView & w, const std::string & s) { w.cs = &s; w.kind('C'); }
inline void bindOne(ArgView & w, std::string && s) { w.cs = &s; w.kind('R'); }
inline void bindOne(ArgView & w, const std::shared_ptr<VBase> & p) { w.obj = p ? p->vid() : -7; w.kind('P'); }
template <typename ...A>
inline void bindAll(ArgView & w, A && ...a) { int d[] = { 0, (bindOne(w, std::forward<A>(a)), 0)... }; (void)d; }

// what the functor wrapped by an argumentAdapter really received: static type and value of every argument
enum TypeCode { T_OTHER = 0, T_INT, T_LONG, T_LLONG, T_SHORT, T_CHAR, T_SCHAR, T_UCHAR, T_UINT, T_BOOL, T_DOUBLE, T_STR, T_PBASE, T_PDERIVED };
static const char * kTypeName[] = { "?", "int", "long", "long long", "short", "char", "signed char", "unsigned char", "unsigned", "bool", "double", "string", "shared_ptr<Base>", "shared_ptr<Derived>" };
template <typename T> struct TC { enum { v = T_OTHER }; };
template <> struct TC<int> { enum { v = T_INT }; };
template <> struct TC<long> { enum { v = T_LONG }; };
template <> struct TC<long long> { enum { v = T_LLONG }; };
template <> struct TC<short> { enum { v = T_SHORT }; };
template <> struct TC<char> { enum { v = T_CHAR }; };
template <> struct TC<signed char> { enum { v = T_SCHAR }; };
template <> struct TC<unsigned char> { enum { v = T_UCHAR }; };
template <> struct TC<unsigned> { enum { v = T_UINT }; };
template <> struct TC<bool> { enum { v = T_BOOL }; };
template <> struct TC<double> { enum { v = T_DOUBLE }; };
template <> struct TC<std::string> { enum { v = T_STR }; };
template <> struct TC<std::shared_ptr<VBase> > { enum { v = T_PBASE }; };
template <> struct TC<std::shared_ptr<VDerived> > { enum { v = T_PDERIVED }; };

struct TypedPack
{
	int n;
	int code[3];
	long long val[3];
	const void * ptr;
	TypedPack() : n(0), ptr(nullptr) {}
	void push(int c, long long v) { if(n < 3) { code[n] = c; val[n] = v; ++n; } }
	std::string text() const { std::string t = "("; for(int i = 0; i < n; ++i) { if(i) t += ","; t += std::string(kTypeName[code[i]]) + ":" + num(val[i]); } return t + ")"; }
};
static long long bitsOf(double d) { long long b; memcpy(&b, &d, sizeof b); return b; }
template <typename T> inline typename std::enable_if<std::is_integral<T>::value, long long>::type recVal(TypedPack &, const T & v) { return (long long)v; }
inline long long recVal(TypedPack &, const double & v) { return bitsOf(v); }
inline long long recVal(TypedPack &, const std::string & s) { return vf::fpOf(s); }
inline long long recVal(TypedPack & p, const std::shared_ptr<VDerived> & d) { p.ptr = d.get(); return 0; } // the id is read after the pointer was verified
inline long long recVal(TypedPack &, const std::shared_ptr<VBase> & d) { return d ? d->vid() : -7; }
template <typename A> inline void recOne(TypedPack & p, const A & a) { const long long v = recVal(p, a); p.push(TC<A>::v, v); }

// ------------------------------------------------------------------ the sink every scripted functor reports to
struct Sink
{
	virtual bool onFilter(int fid, ArgView & w) = 0;
	virtual bool onMixin(ArgView & w) = 0;
	virtual bool onPolicy(ArgView & w) = 0;
	virtual bool onCond(int cbid, ArgView & w) = 0;
	virtual void onAdapted(int cbid, const TypedPack & p) = 0;
	virtual bool onPred(ArgView * w) = 0;
	virtual ~Sink() {}
};
static Sink * gSink = nullptr;

enum { FILTER_ID_BASE = 20000, CC_FLAG = 0x10000 };
static bool polVerdict(int v) { return (v & CC_FLAG) == 0; }

// how often each filter of the case has really been invoked (by filter id); TFilter also counts inside the filter object itself,
// as a filter with state of its own (a quota, a toggle, a sequence stamp) does: the filter that runs must be the one that was
// added, with the state its earlier runs left in it - not a copy made for the occasion
static std::unordered_map<int, int> & filterCallTruth() { static std::unordered_map<int, int> * m = new std::unordered_map<int, int>(); return *m; }
struct TFilter
{
	Counted<K_CB> c;
	mutable int ownCalls;
	explicit TFilter(int fid) : c(FILTER_ID_BASE + fid), ownCalls(0) {}
	template <typename ...A>
	bool operator() (A && ...a) const {
		if(! c.checkLive("filter-invoke-after-destruction")) return true;
		{
			const int truth = ++filterCallTruth()[c.id - FILTER_ID_BASE];
			if(++ownCalls != truth) {
				violation("filter:invoked-object-does-not-carry-the-state-of-its-earlier-invocations", "filter " + num(c.id - FILTER_ID_BASE) + " runs for the " + num(truth) + ". time, but the filter object that is invoked has counted " + num(ownCalls) + " invocation(s) of itself: it is not the stored filter (a copy made for this dispatch?)");
				ownCalls = truth;
			}
			else count("filter.own_state_checked");
		}
		ArgView w;
		bindAll(w, std::forward<A>(a)...);
		return gSink ? gSink->onFilter(c.id - FILTER_ID_BASE, w) : true;
	}
};
// fixed signatures for the heterogeneous dispatcher (prototype lookup is by invocability)
struct HFilterA { TFilter f; bool operator() (int & v) const { return f(v); } };
struct HFilterB { TFilter f; bool operator() (std::string & s, int & v) const { return f(s, v); } };
struct HLisA { TCallback cb; void operator() (int v) const { cb(int(v)); } };
struct HLisB { TCallback cb; void operator() (std::string s, int v) const { cb(s, int(v)); } };

struct CondFn
{
	int cbid;
	template <typename ...A>
	bool operator() (const A & ...a) const { ArgView w; bindAll(w, a...); return gSink ? gSink->onCond(cbid, w) : true; }
};
struct TRec
{
	Counted<K_CB> c;
	explicit TRec(int id) : c(id) {}
	template <typename ...A>
	void operator() (A && ...a) const {
		if(! c.checkLive("invoke-after-destruction")) return;
		TypedPack p;
		int d[] = { 0, (recOne<typename std::decay<A>::type>(p, a), 0)... }; (void)d;
		if(gSink) gSink->onAdapted(c.id, p);
	}
};
struct PredArgs
{
	template <typename A0, typename ...A>
	bool operator() (A0 && a0, A && ...a) const { ArgView w; bindAll(w, std::forward<A0>(a0), std::forward<A>(a)...); return gSink ? gSink->onPred(&w) : true; }
};
struct PredNoArgs { bool operator() () const { return gSink ? gSink->onPred(nullptr) : true; } };

// ------------------------------------------------------------------ user mixins and policies
template <typename Base>
class MixinVeto : public Base
{
public:
	template <typename ...A>
	bool mixinBeforeDispatch(A && ...a) const {
		ArgView w;
		bindAll(w, std::forward<A>(a)...);
		return gSink ? gSink->onMixin(w) : true;
	}
};
// a mixin without any interceptor point (they are optional, doc/mixins.md)
template <typename Base>
class MixinPassive : public Base
{
public:
	int passiveMarker() const { return 12; }
};

struct PolF { typedef eventpp::MixinList<eventpp::MixinFilter> Mixins; };
struct PolFS { typedef eventpp::MixinList<eventpp::MixinFilter> Mixins; typedef eventpp::SingleThreading Threading; };
struct PolFV { typedef eventpp::MixinList<eventpp::MixinFilter, MixinVeto> Mixins; typedef eventpp::SingleThreading Threading; };
struct PolVF { typedef eventpp::MixinList<MixinVeto, eventpp::MixinFilter> Mixins; };
struct PolPF { typedef eventpp::MixinList<MixinPassive, eventpp::MixinFilter> Mixins; typedef eventpp::SingleThreading Threading; };
struct PolFP { typedef eventpp::MixinList<eventpp::MixinFilter, MixinPassive> Mixins; };
struct PolHF { typedef eventpp::MixinList<eventpp::MixinHeterFilter> Mixins; };
struct PolSingle { typedef eventpp::SingleThreading Threading; };
struct PolCCa {
	typedef eventpp::SingleThreading Threading;
	static bool canContinueInvoking(int & v, int p) { ArgView w; bindAll(w, v, p); return gSink ? gSink->onPolicy(w) : polVerdict(v); }
};
struct PolCCb {
	typedef eventpp::MixinList<eventpp::MixinFilter> Mixins;
	static bool canContinueInvoking(const int & v, const int & p) { ArgView w; bindAll(w, v, p); return gSink ? gSink->onPolicy(w) : polVerdict(v); }
};
struct PolCCc {
	typedef eventpp::SingleThreading Threading;
	template <typename ...A>
	static bool canContinueInvoking(A && ...a) { ArgView w; bindAll(w, std::forward<A>(a)...); return gSink ? gSink->onPolicy(w) : polVerdict(w.iv[0]); }
};

// ------------------------------------------------------------------ listener kinds
enum LKind { LK_PLAIN, LK_COND, LK_ADAPT, LK_COND_ADAPT, LK_N };
static const char * kLKindName[] = { "plain", "conditional", "adapter", "conditional+adapter" };
enum AKind {
	A_NONE,
	A_LONG_CSTR, A_SHORT_STR, A_DOUBLE_CSTR, A_UCHAR_STR,                       // from void(int, std::string)
	A_CHAR, A_SCHAR, A_UCHAR, A_SHORT, A_UINT, A_LLONG, A_BOOL, A_DOUBLE, A_LONG, // from void(int)
	A_PDER_LONG,                                                                // from void(shared_ptr<VBase>, int)
	A_N
};
static const char * kAKindName[] = { "-", "void(long,const string&)", "void(short,string)", "void(double,const string&)", "void(unsigned char,string)",
	"void(char)", "void(signed char)", "void(unsigned char)", "void(short)", "void(unsigned)", "void(long long)", "void(bool)", "void(double)", "void(long)",
	"void(shared_ptr<Derived>,long)" };

struct LSpec { int cbid, kind, akind, shape; };

// expected view of an adapted listener: the same static_cast the statement names
static void expectAdapted(int akind, const DArgs & a, TypedPack & e)
{
	const int v = a.i0;
	switch(akind) {
	case A_LONG_CSTR: e.push(T_LONG, (long long)static_cast<long>(v)); e.push(T_STR, vf::fpOf(a.s)); break;
	case A_SHORT_STR: e.push(T_SHORT, (long long)static_cast<short>(v)); e.push(T_STR, vf::fpOf(a.s)); break;
	case A_DOUBLE_CSTR: e.push(T_DOUBLE, bitsOf(static_cast<double>(v))); e.push(T_STR, vf::fpOf(a.s)); break;
	case A_UCHAR_STR: e.push(T_UCHAR, (long long)static_cast<unsigned char>(v)); e.push(T_STR, vf::fpOf(a.s)); break;
	case A_CHAR: e.push(T_CHAR, (long long)static_cast<char>(v)); break;
	case A_SCHAR: e.push(T_SCHAR, (long long)static_cast<signed char>(v)); break;
	case A_UCHAR: e.push(T_UCHAR, (long long)static_cast<unsigned char>(v)); break;
	case A_SHORT: e.push(T_SHORT, (long long)static_cast<short>(v)); break;
	case A_UINT: e.push(T_UINT, (long long)static_cast<unsigned>(v)); break;
	case A_LLONG: e.push(T_LLONG, (long long)static_cast<long long>(v)); break;
	case A_BOOL: e.push(T_BOOL, (long long)static_cast<bool>(v)); break;
	case A_DOUBLE: e.push(T_DOUBLE, bitsOf(static_cast<double>(v))); break;
	case A_LONG: e.push(T_LONG, (long long)static_cast<long>(v)); break;
	case A_PDER_LONG: e.push(T_PDERIVED, a.obj); e.push(T_LONG, (long long)static_cast<long>(v)); e.ptr = a.objp.get(); break;
	default: break;
	}
}

// builds the listener object of a spec and hands it to `add` (append / prepend / insert of the real container)
template <typename Proto, typename Add>
static void addAdapted(const LSpec & sp, Add && add)
{
	if(sp.kind == LK_ADAPT) add(eventpp::argumentAdapter<Proto>(TRec(sp.cbid)));
	else add(eventpp::conditionalFunctor(eventpp::argumentAdapter<Proto>(TRec(sp.cbid)), CondFn{ sp.cbid }));
}
template <typename Add>
static void makePlainOrCond(const LSpec & sp, Add && add)
{
	if(sp.kind == LK_PLAIN) add(TCallback(sp.cbid));
	else add(eventpp::conditionalFunctor(TCallback(sp.cbid), CondFn{ sp.cbid }));
}

// ------------------------------------------------------------------ prototypes (how to call the real object)
struct ShIS // void(int, std::string)
{
	typedef void Sig(int, std::string);
	template <typename D> static void dispatch(D & d, int key, int variant, DArgs & io) {
		int v = io.i0; std::string s = io.s;
		if(variant == 1) d.dispatch(v, s);                              // the event is the first argument
		else if(variant == 2) d.dispatch(key, int(v), std::string(s));  // temporaries
		else d.dispatch(key, v, s);
		io.i0 = v; io.s = s;
	}
	template <typename Q> static void enqueue(Q & q, int key, int variant, const DArgs & a) {
		if(variant == 1) q.enqueue(a.i0, a.s);
		else if(variant == 2) q.enqueue(key, int(a.i0), std::string(a.s));
		else { int v = a.i0; std::string s = a.s; q.enqueue(key, v, s); }
	}
	template <typename Add> static void make(const LSpec & sp, Add && add) { makePlainOrCond(sp, add); }
};
struct ShISW : ShIS // + adapters
{
	template <typename Add> static void make(const LSpec & sp, Add && add) {
		if(sp.kind == LK_PLAIN || sp.kind == LK_COND) { makePlainOrCond(sp, add); return; }
		switch(sp.akind) {
		case A_LONG_CSTR: addAdapted<void(long, const std::string &)>(sp, add); break;
		case A_SHORT_STR: addAdapted<void(short, std::string)>(sp, add); break;
		case A_DOUBLE_CSTR: addAdapted<void(double, const std::string &)>(sp, add); break;
		default: addAdapted<void(unsigned char, std::string)>(sp, add); break;
		}
	}
};
struct ShIRS // void(int &, const std::string &)
{
	typedef void Sig(int &, const std::string &);
	template <typename D> static void dispatch(D & d, int key, int variant, DArgs & io) {
		int v = io.i0; std::string s = io.s;
		if(variant == 1) d.dispatch(v, s);
		else d.dispatch(key, v, s);
		io.i0 = v; io.s = s;
	}
	template <typename Q> static void enqueue(Q & q, int key, int variant, const DArgs & a) { ShIS::enqueue(q, key, variant, a); }
	template <typename Add> static void make(const LSpec & sp, Add && add) { makePlainOrCond(sp, add); }
};
struct ShII // void(int &, int)
{
	typedef void Sig(int &, int);
	template <typename D> static void dispatch(D & d, int key, int variant, DArgs & io) {
		int v = io.i0; int p = io.i1;
		if(variant == 2) d.dispatch(key, v, int(p));
		else d.dispatch(key, v, p);
		io.i0 = v; io.i1 = p;
	}
	template <typename Q> static void enqueue(Q & q, int key, int variant, const DArgs & a) {
		if(variant == 2) q.enqueue(key, int(a.i0), int(a.i1));
		else { int v = a.i0; int p = a.i1; q.enqueue(key, v, p); }
	}
	template <typename Add> static void make(const LSpec & sp, Add && add) { add(TCallback(sp.cbid)); }
};

// ------------------------------------------------------------------ the real object behind one interface
struct IObj
{
	virtual ~IObj() {}
	virtual void addFilter(int uid, int shape) = 0;
	virtual bool removeFilter(int uid) = 0;
	virtual void addListener(int uid, int how, int key, const LSpec & sp, int beforeUid) = 0; // how: 0 append, 1 prepend, 2 insert
	virtual bool removeListener(int key, int uid) = 0;
	virtual void dispatch(int key, int shape, int variant, DArgs & io) = 0; // io: values in, the caller's variables out
	virtual void enqueue(int, int, const DArgs &) {}
	virtual bool process(int) { return false; } // 0 process, 1 processOne, 2 processIf(args...), 3 processIf()
};

template <typename O, bool HasFilter> struct FilterHandleOf { typedef typename O::FilterHandle type; };
template <typename O> struct FilterHandleOf<O, false> { typedef int type; };

template <typename Obj, typename SH, bool HasFilter, bool IsQueue>
struct HomoObj : IObj
{
	Obj o;
	std::vector<typename Obj::Handle> lh;
	std::vector<typename FilterHandleOf<Obj, HasFilter>::type> fh;

	void addFilter(int uid, int) override {
		if((int)fh.size() <= uid) fh.resize((size_t)uid + 1);
		if constexpr(HasFilter) fh[(size_t)uid] = o.appendFilter(TFilter(uid));
	}
	bool removeFilter(int uid) override {
		if constexpr(HasFilter) return o.removeFilter(fh[(size_t)uid]);
		else { (void)uid; return false; }
	}
	void addListener(int uid, int how, int key, const LSpec & sp, int beforeUid) override {
		if((int)lh.size() <= uid) lh.resize((size_t)uid + 1);
		typename Obj::Handle before;
		if(beforeUid >= 0) before = lh[(size_t)beforeUid];
		typename Obj::Handle h;
		auto add = [&](const typename Obj::Callback & cb) {
			if(how == 0) h = o.appendListener(key, cb);
			else if(how == 1) h = o.prependListener(key, cb);
			else h = o.insertListener(key, cb, before);
		};
		SH::make(sp, add);
		lh[(size_t)uid] = h;
	}
	bool removeListener(int key, int uid) override { return o.removeListener(key, lh[(size_t)uid]); }
	void dispatch(int key, int, int variant, DArgs & io) override { SH::dispatch(o, key, variant, io); }
	void enqueue(int key, int variant, const DArgs & a) override { if constexpr(IsQueue) SH::enqueue(o, key, variant, a); else { (void)key; (void)variant; (void)a; } }
	bool process(int how) override {
		if constexpr(IsQueue) {
			switch(how) {
			case 0: return o.process();
			case 1: return o.processOne();
			case 2: return o.processIf(PredArgs());
			default: return o.processIf(PredNoArgs());
			}
		}
		else { (void)how; return false; }
	}
};

// CallbackList<void(int&, int), canContinueInvoking policy>: no keys, no filters
struct CCListObj : IObj
{
	typedef eventpp::CallbackList<void(int &, int), PolCCa> L;
	L l;
	std::vector<L::Handle> lh;
	void addFilter(int, int) override {}
	bool removeFilter(int) override { return false; }
	void addListener(int uid, int how, int, const LSpec & sp, int beforeUid) override {
		if((int)lh.size() <= uid) lh.resize((size_t)uid + 1);
		L::Handle before;
		if(beforeUid >= 0) before = lh[(size_t)beforeUid];
		TCallback cb(sp.cbid);
		lh[(size_t)uid] = how == 0 ? l.append(cb) : how == 1 ? l.prepend(cb) : l.insert(cb, before);
	}
	bool removeListener(int, int uid) override { return l.remove(lh[(size_t)uid]); }
	void dispatch(int, int, int variant, DArgs & io) override {
		int v = io.i0; int p = io.i1;
		if(variant == 2) l(v, int(p)); else l(v, p);
		io.i0 = v;
	}
};

// two callback lists for the wrappers: key 0 = void(int), key 1 = void(shared_ptr<VBase>, int)
struct WrapListsObj : IObj
{
	typedef eventpp::CallbackList<void(int)> L0;
	typedef eventpp::CallbackList<void(std::shared_ptr<VBase>, int), PolSingle> L1;
	L0 l0; L1 l1;
	std::vector<L0::Handle> h0;
	std::vector<L1::Handle> h1;
	void addFilter(int, int) override {}
	bool removeFilter(int) override { return false; }
	void addListener(int uid, int how, int key, const LSpec & sp, int beforeUid) override {
		if((int)h0.size() <= uid) { h0.resize((size_t)uid + 1); h1.resize((size_t)uid + 1); }
		if(key == 0) {
			L0::Handle before; if(beforeUid >= 0) before = h0[(size_t)beforeUid];
			L0::Handle h;
			auto add = [&](const L0::Callback & cb) { h = how == 0 ? l0.append(cb) : how == 1 ? l0.prepend(cb) : l0.insert(cb, before); };
			if(sp.kind == LK_PLAIN || sp.kind == LK_COND) makePlainOrCond(sp, add);
			else switch(sp.akind) {
				case A_CHAR: addAdapted<void(char)>(sp, add); break;
				case A_SCHAR: addAdapted<void(signed char)>(sp, add); break;
				case A_UCHAR: addAdapted<void(unsigned char)>(sp, add); break;
				case A_SHORT: addAdapted<void(short)>(sp, add); break;
				case A_UINT: addAdapted<void(unsigned)>(sp, add); break;
				case A_LLONG: addAdapted<void(long long)>(sp, add); break;
				case A_BOOL: addAdapted<void(bool)>(sp, add); break;
				case A_DOUBLE: addAdapted<void(double)>(sp, add); break;
				default: addAdapted<void(long)>(sp, add); break;
			}
			h0[(size_t)uid] = h;
		}
		else {
			L1::Handle before; if(beforeUid >= 0) before = h1[(size_t)beforeUid];
			L1::Handle h;
			auto add = [&](const L1::Callback & cb) { h = how == 0 ? l1.append(cb) : how == 1 ? l1.prepend(cb) : l1.insert(cb, before); };
			if(sp.kind == LK_PLAIN || sp.kind == LK_COND) makePlainOrCond(sp, add);
			else addAdapted<void(std::shared_ptr<VDerived>, long)>(sp, add);
			h1[(size_t)uid] = h;
		}
	}
	bool removeListener(int key, int uid) override { return key == 0 ? l0.remove(h0[(size_t)uid]) : l1.remove(h1[(size_t)uid]); }
	void dispatch(int key, int, int variant, DArgs & io) override {
		if(key == 0) { int v = io.i0; if(variant == 2) l0(int(v)); else l0(v); }
		else { int v = io.i0; l1(io.objp, v); }
	}
};

// HeterEventDispatcher with MixinHeterFilter, prototypes void(int) [SH_I] and void(std::string, int) [SH_SI]
struct HeterObj : IObj
{
	typedef eventpp::HeterEventDispatcher<int, eventpp::HeterTuple<void(int), void(std::string, int)>, PolHF> D;
	D o;
	std::vector<D::Handle> lh;
	std::vector<D::FilterHandle> fh;
	void addFilter(int uid, int shape) override {
		if((int)fh.size() <= uid) fh.resize((size_t)uid + 1);
		if(shape == SH_I) fh[(size_t)uid] = o.appendFilter(HFilterA{ TFilter(uid) });
		else fh[(size_t)uid] = o.appendFilter(HFilterB{ TFilter(uid) });
	}
	bool removeFilter(int uid) override { return o.removeFilter(fh[(size_t)uid]); }
	template <typename C> D::Handle add(int how, int key, const C & cb, int beforeUid) {
		if(how == 0) return o.appendListener(key, cb);
		if(how == 1) return o.prependListener(key, cb);
		return o.insertListener(key, cb, lh[(size_t)beforeUid]);
	}
	void addListener(int uid, int how, int key, const LSpec & sp, int beforeUid) override {
		if((int)lh.size() <= uid) lh.resize((size_t)uid + 1);
		if(how == 2 && beforeUid < 0) how = 0;
		D::Handle h;
		if(sp.shape == SH_I) h = add(how, key, HLisA{ TCallback(sp.cbid) }, beforeUid);
		else h = add(how, key, HLisB{ TCallback(sp.cbid) }, beforeUid);
		lh[(size_t)uid] = h;
	}
	bool removeListener(int key, int uid) override { return o.removeListener(key, lh[(size_t)uid]); }
	void dispatch(int key, int shape, int variant, DArgs & io) override {
		int v = io.i0; std::string s = io.s;
		if(shape == SH_I) { if(variant == 2) o.dispatch(key, int(v)); else o.dispatch(key, v); }
		else {
			if(variant == 2) o.dispatch(key, std::string(s), int(v));
			else if(variant == 1) o.dispatch(key, std::string(s), v);
			else o.dispatch(key, s, v);
		}
		io.i0 = v; io.s = s;
	}
};

// ------------------------------------------------------------------ configurations
struct Caps
{
	const char * name;
	int shape;          // the prototype's shape, or -1: depends on the key / per dispatch
	bool hasFilters, isQueue, hasCC, intByRef, strMutable, veto, heter, wrapLists, explicitOnly, wideInts, eventArgForm;
	unsigned kinds;     // bit per LKind
	int nkeysMin, nkeysMax;
	int cls;            // non-triviality class: 0 filters, 1 filters + queue, 2 canContinue, 3 canContinue + queue, 4 wrappers
};
enum { KB_P = 1u << LK_PLAIN, KB_C = 1u << LK_COND, KB_A = 1u << LK_ADAPT, KB_CA = 1u << LK_COND_ADAPT };
static const Caps kCaps[] = {
	/* 0*/ { "EventDispatcher<int,void(int,std::string)> MixinList<MixinFilter>", SH_IS, true, false, false, false, true, false, false, false, false, false, true, KB_P | KB_C, 1, 3, 0 },
	/* 1*/ { "EventDispatcher<int,void(int&,const std::string&)> MixinList<MixinFilter>", SH_IS, true, false, false, true, false, false, false, false, false, false, true, KB_P | KB_C, 1, 3, 0 },
	/* 2*/ { "EventQueue<int,void(int,std::string)> MixinList<MixinFilter>", SH_IS, true, true, false, false, true, false, false, false, false, false, true, KB_P | KB_C, 1, 3, 1 },
	/* 3*/ { "EventDispatcher<int,void(int,std::string)> MixinList<MixinFilter,MixinVeto>", SH_IS, true, false, false, false, true, true, false, false, false, false, true, KB_P, 1, 3, 0 },
	/* 4*/ { "EventQueue<int,void(int&,const std::string&)> MixinList<MixinVeto,MixinFilter>", SH_IS, true, true, false, true, false, true, false, false, true, false, true, KB_P, 1, 3, 1 },
	/* 5*/ { "HeterEventDispatcher<int,HeterTuple<void(int),void(std::string,int)>> MixinList<MixinHeterFilter>", -1, true, false, false, false, true, false, true, false, false, false, false, KB_P, 1, 3, 0 },
	/* 6*/ { "CallbackList<void(int&,int)> canContinueInvoking(int&,int)", SH_II, false, false, true, true, false, false, false, false, false, false, false, KB_P, 1, 1, 2 },
	/* 7*/ { "EventDispatcher<int,void(int&,int)> canContinueInvoking(const int&,const int&) + MixinFilter", SH_II, true, false, true, true, false, false, false, false, false, false, false, KB_P, 1, 3, 2 },
	/* 8*/ { "EventQueue<int,void(int&,int)> template canContinueInvoking(A&&...)", SH_II, false, true, true, true, false, false, false, false, false, false, false, KB_P, 1, 3, 3 },
	/* 9*/ { "EventDispatcher<int,void(int,std::string)> MixinFilter + conditionalFunctor/argumentAdapter listeners", SH_IS, true, false, false, false, true, false, false, false, false, true, true, KB_P | KB_C | KB_A | KB_CA, 1, 2, 4 },
	/*10*/ { "CallbackList<void(int)> and CallbackList<void(shared_ptr<Base>,int)> with conditionalFunctor/argumentAdapter listeners", -1, false, false, false, false, false, false, false, true, false, true, false, KB_P | KB_C | KB_A | KB_CA, 2, 2, 4 },
	/*11*/ { "EventDispatcher<int,void(int,std::string)> MixinList<MixinPassive,MixinFilter>", SH_IS, true, false, false, false, true, false, false, false, false, false, true, KB_P, 1, 3, 0 },
	/*12*/ { "EventQueue<int,void(int,std::string)> MixinList<MixinFilter,MixinPassive>", SH_IS, true, true, false, false, true, false, false, false, false, false, true, KB_P, 1, 3, 1 },
};
enum { NCFG = 13 };

// expected argument kinds of a filter call, per configuration and shape
static std::string expectedFilterKinds(int cfg, int shape)
{
	if(shape == SH_I) return "M";
	if(cfg == 1 || cfg == 4) return "MC"; // int& stays int&, const std::string& stays const std::string&
	return "MM";
}

// ------------------------------------------------------------------ model
struct MFilter { int shape; bool live; int d; char tag; int k, m; };
struct MLis { int key, shape, kind, akind; bool live; int ck, cm; };
struct QEv { int key, shape, serial; DArgs a; };

enum { NE_NONE, NE_FILTER, NE_LISTENER };

// one dispatch in progress: what the statement promises for it
struct Frame
{
	int key, shape, serial;
	bool queued;
	DArgs a, orig;            // the model's current / initial argument values
	std::vector<int> fsnap, lsnap;
	size_t fpos, lpos, fscan, lscan;
	bool listenerPhase, blocked, cut, vetoed, modified, rewritePending;
	int filtersRun, listenersRun, condSkipped;
	Frame() : key(0), shape(0), serial(-1), queued(false), fpos(0), lpos(0), fscan(0), lscan(0), listenerPhase(false), blocked(false), cut(false), vetoed(false),
		modified(false), rewritePending(false), filtersRun(0), listenersRun(0), condSkipped(0) {}
};

enum { CK_DIRECT, CK_LAZY, CK_EXPLICIT, CK_PROCIF };
struct PCtx
{
	int kind;
	std::vector<QEv> batch;
	int cursor;
	bool frameOpen;
	Frame f;
	std::vector<QEv> declined;
	int predCalls, predK, predM;
	unsigned predMask;
	PCtx() : kind(CK_DIRECT), cursor(-1), frameOpen(false), predCalls(0), predK(0), predM(0), predMask(0) {}
};

struct ModeP { int pAct, maxDepth, minOps, maxOps; };
static ModeP modeOf(const std::string & m)
{
	ModeP r; r.pAct = 25; r.maxDepth = 2; r.minOps = 15; r.maxOps = 45;
	if(m == "flat") { r.pAct = 0; r.maxDepth = 0; }
	else if(m == "deep") { r.pAct = 45; r.maxDepth = 3; r.minOps = 30; r.maxOps = 80; }
	return r;
}

struct World : CallbackSink, Sink
{
	const int cfg;
	const Caps & caps;
	IObj * obj;
	Rng & rng;
	ModeP mode;
	std::vector<MFilter> filters;     // uid == filter id
	std::vector<int> chain;           // live filters in the order they were added
	std::vector<MLis> lis;            // uid == callback id
	std::map<int, std::vector<int> > lists;
	std::deque<QEv> pending;
	std::deque<PCtx> stack;            // push/pop at the back never invalidates the other elements
	int nkeys, nextSerial, budget, mixK, mixM;
	bool dead;
	Fnv trace;
	// per-case evidence for the non-triviality rule
	int nBlockedLater, nRewriteSeen, nQueuedObserved, nCutSuppressing, nCondTrue, nCondFalse, nAdapter;

	World(int cfg_, IObj * o, Rng & r, const ModeP & m) : cfg(cfg_), caps(kCaps[cfg_]), obj(o), rng(r), mode(m), nkeys(1), nextSerial(0), budget(0), mixK(0), mixM(0), dead(false),
		nBlockedLater(0), nRewriteSeen(0), nQueuedObserved(0), nCutSuppressing(0), nCondTrue(0), nCondFalse(0), nAdapter(0) {}

	void log(const std::string & s) { oplog("[" + num((long long)stack.size()) + "] " + s); trace.add(s); }
	void fail(const std::string & key0, const std::string & desc) {
		// configuration 11 = a mixin without mixinBeforeDispatch listed BEFORE MixinFilter: the key names that shape, so that
		// the known finding recorded for it cannot hide the same symptom in any other configuration
		const std::string key = cfg == 11 ? key0 + ":interceptor-less-mixin-listed-before-MixinFilter" : key0;
		violation(key, desc);
		oplog("[" + num((long long)stack.size()) + "] !! " + key + " :: " + desc);
		dead = true;
	}
	static std::string sfx(const Frame & f) { return f.queued ? ":queued" : ":direct"; }

	// ---------- pure model functions (also used by the generator to aim at interesting outcomes)
	void applyFilter(const MFilter & F, DArgs & a, int shape) const {
		a.i0 = addWrap(a.i0, F.d);
		if(F.tag && shapeHasS(shape) && caps.strMutable) a.s += F.tag;
	}
	bool filterChanges(const MFilter & F, int shape) const { return F.d != 0 || (F.tag && shapeHasS(shape) && caps.strMutable); }
	static bool filterVerdict(const MFilter & F, int v) { return F.m == 0 || posmod((long long)v + F.k, F.m) != 0; }
	bool condHolds(const MLis & L, const DArgs & a) const {
		if(L.cm == 0) return true;
		return posmod((long long)a.i0 + L.ck + (shapeHasS(L.shape) ? (long long)a.s.size() : 0), L.cm) != 0;
	}
	static bool isCond(int kind) { return kind == LK_COND || kind == LK_COND_ADAPT; }
	static bool isAdapt(int kind) { return kind == LK_ADAPT || kind == LK_COND_ADAPT; }
	// listener script on a by-reference int
	int listenerScript(int cbid, int v, int p) const {
		if(caps.hasCC) { v += 1; if((v & 0xff) == (p & 0xff)) v |= CC_FLAG; return v; }
		return addWrap(v, cbid % 5 + 1);
	}
	struct Sim { int blockedPos; int ran; DArgs after; };
	Sim simulate(int shape, const DArgs & a) const {
		Sim s; s.blockedPos = -1; s.ran = 0; s.after = a;
		for(size_t i = 0; i < chain.size(); ++i) {
			const MFilter & F = filters[(size_t)chain[i]];
			if(! F.live || F.shape != shape) continue;
			applyFilter(F, s.after, shape);
			if(! filterVerdict(F, s.after.i0)) { s.blockedPos = s.ran; ++s.ran; return s; }
			++s.ran;
		}
		return s;
	}

	// ---------- frames
	void openFrame(Frame & f, int key, int shape, const DArgs & a, bool queued, int serial) {
		f = Frame();
		f.key = key; f.shape = shape; f.a = a; f.orig = a; f.queued = queued; f.serial = serial;
		for(size_t i = 0; i < chain.size(); ++i) if(filters[(size_t)chain[i]].live && filters[(size_t)chain[i]].shape == shape) f.fsnap.push_back(chain[i]);
		const std::vector<int> & o = lists[key];
		for(size_t i = 0; i < o.size(); ++i) if(lis[(size_t)o[i]].live && lis[(size_t)o[i]].shape == shape) f.lsnap.push_back(o[i]);
	}
	int nextExpected(Frame & f, int & uid) const {
		uid = -1;
		if(f.blocked || f.cut) return NE_NONE;
		if(! f.listenerPhase) {
			for(size_t p = f.fpos; p < f.fsnap.size(); ++p) if(filters[(size_t)f.fsnap[p]].live) { uid = f.fsnap[p]; f.fscan = p; return NE_FILTER; }
		}
		if(f.vetoed) return NE_NONE;
		for(size_t p = f.lpos; p < f.lsnap.size(); ++p) {
			const MLis & L = lis[(size_t)f.lsnap[p]];
			if(! L.live) continue;
			if(isCond(L.kind) && ! condHolds(L, f.a)) continue;
			uid = f.lsnap[p]; f.lscan = p;
			return NE_LISTENER;
		}
		return NE_NONE;
	}
	int remainingListeners(Frame & f) const {
		int n = 0;
		for(size_t p = f.lpos; p < f.lsnap.size(); ++p) if(lis[(size_t)f.lsnap[p]].live) ++n;
		return n;
	}
	void closeFrame(Frame & f) {
		if(dead) return;
		if(! f.blocked && ! f.cut && ! f.vetoed) {
			int uid; const int ne = nextExpected(f, uid);
			if(ne == NE_FILTER) fail("dispatch:filter-not-run" + sfx(f), "dispatch of key " + num(f.key) + " finished without running live filter f" + num(uid));
			else if(ne == NE_LISTENER) fail(std::string("dispatch:") + (isCond(lis[(size_t)uid].kind) ? "conditional-listener-not-run-with-true-condition" : "listener-not-run") + sfx(f),
				"dispatch of key " + num(f.key) + " finished without running listener c" + num(uid) + " (" + kLKindName[lis[(size_t)uid].kind] + "), model arguments " + strOf(f.a, f.shape));
			if(dead) return;
		}
		count(f.queued ? "dispatch.queued" : "dispatch.direct");
		if(stack.size() > 1) count("dispatch.nested");
		if(f.blocked) count("dispatch.outcome.blocked_by_filter");
		else if(f.vetoed) count("dispatch.outcome.vetoed_by_mixin");
		else if(f.cut) count("dispatch.outcome.cut_by_canContinueInvoking");
		else count("dispatch.outcome.completed");
		if(f.queued && f.filtersRun + f.listenersRun > 0) ++nQueuedObserved;
	}
	bool anyFilterPhase() const {
		for(size_t i = 0; i < stack.size(); ++i) if(stack[i].frameOpen && ! stack[i].f.listenerPhase) return true;
		return false;
	}

	// the frame a call observed now belongs to
	Frame * locate(int kind, int id, const char * what) {
		if(stack.empty()) { fail(std::string(what) + ":called-outside-any-dispatch", std::string(what) + " " + num(id) + " called while no dispatch or processing call is in progress"); return nullptr; }
		PCtx & c = stack.back();
		if(c.kind != CK_LAZY) {
			if(! c.frameOpen) { fail(std::string(what) + ":called-while-no-queued-event-is-being-dispatched", std::string(what) + " " + num(id) + " called by a processing call outside the dispatch of an accepted event"); return nullptr; }
			return &c.f;
		}
		int uid = -1;
		if(c.frameOpen) { if(nextExpected(c.f, uid) != NE_NONE) return &c.f; }
		// the current event expects nothing more: does this call start a later event of the batch?
		int j = c.cursor + 1, ne = NE_NONE;
		Frame tmp;
		for(; j < (int)c.batch.size(); ++j) {
			const QEv & e = c.batch[(size_t)j];
			openFrame(tmp, e.key, e.shape, e.a, true, e.serial);
			ne = nextExpected(tmp, uid);
			if(ne != NE_NONE) break;
		}
		const bool have = j < (int)c.batch.size();
		if(have && ne == kind && uid == id) {
			if(c.frameOpen) closeFrame(c.f);
			if(dead) return nullptr;
			count("dispatch.queued_with_nothing_to_run", (uint64_t)(j - c.cursor - 1));
			c.cursor = j; c.f = tmp; c.frameOpen = true;
			log("  (queued event #" + num(tmp.serial) + " key=" + num(tmp.key) + " " + strOf(tmp.a, tmp.shape) + " is being dispatched)");
			return &c.f;
		}
		if(c.frameOpen) return &c.f; // reported relative to the finished dispatch
		if(have) { c.cursor = j; c.f = tmp; c.frameOpen = true; return &c.f; }
		fail(std::string(what) + ":called-after-all-queued-events-were-dispatched", std::string(what) + " " + num(id) + " called by a processing call that has no event left to dispatch");
		return nullptr;
	}

	std::string classifyFilter(const Frame & f, int fid, int ne) const {
		if(f.blocked) return "ran-after-earlier-filter-returned-false";
		if(f.cut) return "ran-after-canContinueInvoking-returned-false";
		for(size_t i = 0; i < f.fsnap.size(); ++i) if(f.fsnap[i] == fid) {
			if(i < f.fpos) return filters[(size_t)fid].live ? "called-twice-in-one-dispatch" : "removed-filter-ran-again";
			if(! filters[(size_t)fid].live) return "removed-filter-ran";
			if(f.listenerPhase) return "ran-after-listeners-started";
			return "out-of-order-or-predecessor-skipped";
		}
		(void)ne;
		if(fid >= 0 && fid < (int)filters.size()) {
			if(! filters[(size_t)fid].live) return "removed-filter-ran";
			if(filters[(size_t)fid].shape != f.shape) return "filter-of-other-prototype-ran";
			return "filter-added-during-dispatch-ran";
		}
		return "unknown-filter-ran";
	}
	std::string classifyListener(const Frame & f, int cbid, int ne) const {
		if(f.blocked) return "ran-after-filter-returned-false";
		if(f.cut) return "ran-after-canContinueInvoking-returned-false";
		if(f.vetoed) return "ran-after-mixin-veto";
		if(ne == NE_FILTER) return "ran-before-remaining-filters";
		for(size_t i = 0; i < f.lsnap.size(); ++i) if(f.lsnap[i] == cbid) {
			const MLis & L = lis[(size_t)cbid];
			if(i < f.lpos) return L.live ? "called-twice-in-one-dispatch" : "removed-listener-ran-again";
			if(! L.live) return "removed-listener-ran";
			if(isCond(L.kind) && ! condHolds(L, f.a)) return "conditional-ran-with-false-condition";
			return "out-of-order-or-predecessor-skipped";
		}
		if(cbid >= 0 && cbid < (int)lis.size()) {
			if(! lis[(size_t)cbid].live) return "removed-listener-ran";
			if(lis[(size_t)cbid].key != f.key) return "listener-of-other-event-ran";
			if(lis[(size_t)cbid].shape != f.shape) return "listener-of-other-prototype-ran";
			return "listener-added-during-dispatch-ran";
		}
		return "unknown-listener-ran";
	}
	std::string expectText(Frame & f) const {
		int uid; const int ne = nextExpected(f, uid);
		if(ne == NE_FILTER) return "filter f" + num(uid);
		if(ne == NE_LISTENER) return "listener c" + num(uid);
		return std::string("nothing more (") + (f.blocked ? "a filter returned false" : f.cut ? "canContinueInvoking returned false" : f.vetoed ? "mixin veto" : "all done") + ")";
	}

	bool viewEquals(const ArgView & w, const DArgs & a, int shape) const {
		const int wantI = shape == SH_II ? 2 : 1;
		if(w.nI != wantI) return false;
		const int v0 = w.mi[0] ? *w.mi[0] : w.iv[0];
		if(v0 != a.i0) return false;
		if(shape == SH_II) { const int v1 = w.mi[1] ? *w.mi[1] : w.iv[1]; if(v1 != a.i1) return false; }
		if(shapeHasS(shape)) { if(! w.str() || *w.str() != a.s) return false; }
		if(shape == SH_PI && w.obj != a.obj) return false;
		return true;
	}
	void noteRewriteSeen(Frame & f, const char * by) {
		if(! f.rewritePending) return;
		f.rewritePending = false;
		++nRewriteSeen;
		count((std::string("rewrite.seen_downstream_by_") + by).c_str());
	}

	// ---------- Sink: a filter was really called
	bool onFilter(int fid, ArgView & w) override {
		if(dead) return true;
		count("filter.calls");
		Frame * f = locate(NE_FILTER, fid, "filter");
		if(! f) return true;
		int uid; const int ne = nextExpected(*f, uid);
		if(ne != NE_FILTER || uid != fid) {
			fail("filter:" + classifyFilter(*f, fid, ne) + sfx(*f), "filter f" + num(fid) + " called with " + w.text() + " during dispatch of key " + num(f->key) + "; model expected " + expectText(*f));
			return true;
		}
		f->fpos = f->fscan + 1;
		const MFilter F = filters[(size_t)fid];
		const std::string kinds(w.kinds, (size_t)w.nk);
		log("filter f" + num(fid) + " sees " + w.text() + " kinds=" + kinds);
		if(kinds != expectedFilterKinds(cfg, f->shape)) {
			fail("filter:argument-kind", "filter f" + num(fid) + " received argument kinds " + kinds + " (M modifiable lvalue, C const lvalue, R rvalue), expected " + expectedFilterKinds(cfg, f->shape));
			return true;
		}
		if(! viewEquals(w, f->a, f->shape)) {
			const bool lost = f->modified && viewEquals(w, f->orig, f->shape);
			fail(std::string(lost ? "filter:arguments:earlier-filter-modification-not-seen" : "filter:arguments") + sfx(*f),
				"filter f" + num(fid) + " received " + w.text() + ", model says " + strOf(f->a, f->shape));
			return true;
		}
		noteRewriteSeen(*f, "later_filter");
		// script: modify through the references received
		if(w.mi[0]) *w.mi[0] = addWrap(*w.mi[0], F.d);
		if(F.tag && w.ms) *w.ms += F.tag;
		applyFilter(F, f->a, f->shape);
		if(filterChanges(F, f->shape)) { f->modified = true; f->rewritePending = true; count("filter.rewrites"); }
		const int pos = f->filtersRun++;
		nestedActions();
		if(dead) return true;
		const int vNow = w.mi[0] ? *w.mi[0] : w.iv[0];
		const bool verdict = filterVerdict(F, vNow);
		if(! filterVerdict(F, f->a.i0)) {
			f->blocked = true;
			count(pos == 0 ? "blocked.at_chain_pos0" : pos == 1 ? "blocked.at_chain_pos1" : pos == 2 ? "blocked.at_chain_pos2" : "blocked.at_chain_pos3plus");
			if(pos > 0) ++nBlockedLater;
			count("blocked.listeners_suppressed", (uint64_t)remainingListeners(*f));
			log("  f" + num(fid) + " returns false: blocks this dispatch at chain position " + num(pos));
		}
		return verdict;
	}

	// ---------- a listener was really called
	Frame * matchListener(int cbid) {
		Frame * f = locate(NE_LISTENER, cbid, "listener");
		if(! f) return nullptr;
		int uid; const int ne = nextExpected(*f, uid);
		if(ne != NE_LISTENER || uid != cbid) {
			fail("listener:" + classifyListener(*f, cbid, ne) + sfx(*f), "listener c" + num(cbid) + " called during dispatch of key " + num(f->key) + " (model arguments " + strOf(f->a, f->shape) + "); model expected " + expectText(*f));
			return nullptr;
		}
		for(size_t p = f->lpos; p < f->lscan; ++p) if(lis[(size_t)f->lsnap[p]].live && isCond(lis[(size_t)f->lsnap[p]].kind)) { ++f->condSkipped; count("conditional.skipped_with_false_condition"); }
		f->listenerPhase = true;
		f->lpos = f->lscan + 1;
		if(isCond(lis[(size_t)cbid].kind)) count("conditional.ran_with_true_condition");
		return f;
	}
	void afterListener(Frame * f) {
		const int n = ++f->listenersRun;
		nestedActions();
		if(dead) return;
		if(caps.hasCC && ! polVerdict(f->a.i0)) {
			f->cut = true;
			const int rem = remainingListeners(*f);
			count(n == 1 ? "canContinue.cut_after_listener1" : n == 2 ? "canContinue.cut_after_listener2" : n == 3 ? "canContinue.cut_after_listener3" : "canContinue.cut_after_listener4plus");
			count("canContinue.listeners_suppressed", (uint64_t)rem);
			if(rem > 0) ++nCutSuppressing;
			log("  canContinueInvoking is false for " + strOf(f->a, f->shape) + ": cuts this dispatch after " + num(n) + " listener(s), " + num(rem) + " suppressed");
		}
	}
	void onCall(int cbid, const ArgPack & args, MutInts & mut) override {
		if(dead) return;
		count("listener.calls");
		Frame * f = matchListener(cbid);
		if(! f) return;
		ArgPack e;
		switch(f->shape) {
		case SH_IS: e.push(f->a.i0); e.push(vf::fpOf(f->a.s)); break;
		case SH_II: e.push(f->a.i0); e.push(f->a.i1); break;
		case SH_I: e.push(f->a.i0); break;
		case SH_SI: e.push(vf::fpOf(f->a.s)); e.push(f->a.i0); break;
		default: e.push(f->a.obj); e.push(f->a.i0); break;
		}
		log("listener c" + num(cbid) + " (" + kLKindName[lis[(size_t)cbid].kind] + ") sees " + args.str() + " = " + strOf(f->a, f->shape));
		bool same = args.n == e.n;
		for(int i = 0; same && i < e.n; ++i) same = args.fp[i] == e.fp[i];
		if(! same) {
			ArgPack o;
			if(f->shape == SH_IS) { o.push(f->orig.i0); o.push(vf::fpOf(f->orig.s)); } else if(f->shape == SH_SI) { o.push(vf::fpOf(f->orig.s)); o.push(f->orig.i0); } else { o.push(f->shape == SH_PI ? f->orig.obj : f->orig.i0); o.push(f->shape == SH_PI ? f->orig.i0 : f->orig.i1); }
			bool lost = f->modified && f->listenersRun == 0;
			for(int i = 0; lost && i < args.n; ++i) lost = args.fp[i] == o.fp[i];
			fail(std::string(lost ? "listener:arguments:filter-modification-not-seen" : "listener:arguments") + sfx(*f),
				"listener c" + num(cbid) + " received " + args.str() + ", model says " + e.str() + " " + strOf(f->a, f->shape));
			return;
		}
		noteRewriteSeen(*f, "listener");
		if(caps.intByRef) {
			if(mut.n < 1) { fail("listener:int-reference-not-modifiable", "listener c" + num(cbid) + " did not receive its int& parameter as a modifiable lvalue"); return; }
			*mut.p[0] = listenerScript(cbid, *mut.p[0], (int)args.fp[1]);
			f->a.i0 = listenerScript(cbid, f->a.i0, f->a.i1);
		}
		afterListener(f);
	}
	void onAdapted(int cbid, const TypedPack & p) override {
		if(dead) return;
		count("listener.calls");
		Frame * f = matchListener(cbid);
		if(! f) return;
		const MLis L = lis[(size_t)cbid];
		TypedPack e;
		expectAdapted(L.akind, f->a, e);
		log("listener c" + num(cbid) + " (" + kLKindName[L.kind] + " " + kAKindName[L.akind] + ") sees " + p.text() + " from " + strOf(f->a, f->shape));
		bool types = p.n == e.n;
		for(int i = 0; types && i < e.n; ++i) types = p.code[i] == e.code[i];
		if(! types) { fail("adapter:argument-type", "adapted listener c" + num(cbid) + " " + kAKindName[L.akind] + " received " + p.text() + ", expected " + e.text()); return; }
		if(e.ptr && p.ptr != e.ptr) { fail("adapter:object-identity", "adapted listener c" + num(cbid) + " received a pointer that is not static_pointer_cast<Derived> of the dispatched pointer"); return; }
		bool vals = true;
		for(int i = 0; vals && i < e.n; ++i) vals = (p.code[i] == T_PDERIVED ? (long long)static_cast<const VDerived *>(p.ptr)->id : p.val[i]) == e.val[i];
		if(! vals) { fail("adapter:argument-value", "adapted listener c" + num(cbid) + " " + kAKindName[L.akind] + " received " + p.text() + ", static_cast of the dispatched " + strOf(f->a, f->shape) + " is " + e.text()); return; }
		++nAdapter;
		count((std::string("adapter.calls.") + kAKindName[L.akind]).c_str());
		if(f->a.i0 < 0) count("adapter.value_negative"); else if(f->a.i0 > 32767) count("adapter.value_above_short"); else if(f->a.i0 > 127) count("adapter.value_above_schar");
		noteRewriteSeen(*f, "listener");
		afterListener(f);
	}
	bool onCond(int cbid, ArgView & w) override {
		if(cbid < 0 || cbid >= (int)lis.size()) return true;
		const MLis & L = lis[(size_t)cbid];
		const int v = w.nI > 0 ? w.iv[0] : 0;
		const bool r = L.cm == 0 || posmod((long long)v + L.ck + (w.str() ? (long long)w.str()->size() : 0), L.cm) != 0;
		if(dead) return r;
		count(r ? "conditional.condition_true" : "conditional.condition_false");
		if(r) ++nCondTrue; else ++nCondFalse;
		log("condition of c" + num(cbid) + " sees " + w.text() + " -> " + num(r));
		return r;
	}
	bool onPolicy(ArgView & w) override {
		const bool r = polVerdict(w.nI > 0 ? w.iv[0] : 0);
		if(dead) return r;
		count("canContinue.policy_calls");
		log("canContinueInvoking" + w.text() + " -> " + num(r));
		return r;
	}
	bool onMixin(ArgView & w) override {
		const int v = w.nI > 0 ? (w.mi[0] ? *w.mi[0] : w.iv[0]) : 0;
		const bool r = mixM == 0 || posmod((long long)v + mixK, mixM) != 0;
		if(dead) return r;
		count("mixin.calls");
		log("user mixin sees " + w.text() + " -> " + num(r));
		if(! stack.empty() && stack.back().frameOpen) {
			Frame & f = stack.back().f;
			if(! r) { f.vetoed = true; count(f.filtersRun > 0 ? "mixin.veto_after_filters_ran" : "mixin.veto_before_any_filter"); }
		}
		else count("mixin.calls_unattributed");
		return r;
	}
	bool onPred(ArgView * w) override {
		if(dead) return true;
		if(stack.empty() || stack.back().kind != CK_PROCIF) { fail("processIf:predicate-called-outside-processIf", "predicate called while the innermost context is not a processIf call"); return true; }
		PCtx & c = stack.back();
		if(c.frameOpen) { closeFrame(c.f); c.frameOpen = false; if(dead) return true; }
		const int j = c.predCalls++;
		if(j >= (int)c.batch.size()) { fail("processIf:predicate-called-more-often-than-events", "predicate call " + num(j + 1) + " for a batch of " + num((long long)c.batch.size())); return true; }
		const QEv & e = c.batch[(size_t)j];
		bool r;
		if(w) {
			const int v = w->nI > 0 ? (w->mi[0] ? *w->mi[0] : w->iv[0]) : 0;
			r = c.predM == 0 || posmod((long long)v + c.predK, c.predM) != 0;
			if(! viewEquals(*w, e.a, e.shape)) count("processIf.predicate_arguments_differ_from_enqueued");
			log("predicate sees " + w->text() + " for event #" + num(e.serial) + " -> " + num(r));
		}
		else { r = ((c.predMask >> (j % 16)) & 1u) != 0; log("predicate() for event #" + num(e.serial) + " -> " + num(r)); }
		if(r) {
			count("processIf.accepted");
			c.cursor = j;
			openFrame(c.f, e.key, e.shape, e.a, true, e.serial);
			c.frameOpen = true;
		}
		else { count("processIf.declined"); c.declined.push_back(e); }
		return r;
	}

	// ---------- nested operations issued from inside filters and listeners
	void nestedActions() {
		if(dead || mode.pAct == 0 || budget <= 0) return;
		if(! rng.chance((uint32_t)mode.pAct, 100)) return;
		const int n = 1 + (int)rng.below(2);
		for(int i = 0; i < n && budget > 0 && ! dead; ++i) { --budget; count("nested_ops"); step(true); }
	}

	// ---------- generated operations
	int shapeForKey(int key) {
		if(caps.heter) return rng.chance(1, 2) ? SH_I : SH_SI;
		if(caps.wrapLists) return key == 0 ? SH_I : SH_PI;
		return caps.shape;
	}
	int liveFilters() const { int n = 0; for(size_t i = 0; i < filters.size(); ++i) if(filters[i].live) ++n; return n; }
	int liveListeners() const { int n = 0; for(size_t i = 0; i < lis.size(); ++i) if(lis[i].live) ++n; return n; }

	void doAddFilter() {
		MFilter F;
		F.shape = caps.heter ? (rng.chance(1, 2) ? SH_I : SH_SI) : caps.shape;
		F.live = true;
		if(caps.hasCC) F.d = (int)rng.below(3);
		else { const uint32_t c = rng.below(10); F.d = c < 3 ? 0 : c < 8 ? 1 + (int)rng.below(3) : -1 - (int)rng.below(2); }
		const int fid = (int)filters.size();
		F.tag = rng.chance(1, 2) ? (char)('a' + fid % 26) : (char)0;
		static const int ms[] = { 0, 0, 0, 2, 3, 3, 4, 5 };
		F.m = ms[rng.below(8)];
		F.k = (int)rng.below(7);
		filters.push_back(F);
		chain.push_back(fid);
		obj->addFilter(fid, F.shape);
		count("ops.appendFilter");
		if(! stack.empty()) count("ops.appendFilter_inside_dispatch");
		log("appendFilter f" + num(fid) + " " + kShapeName[F.shape] + ": arg+=" + num(F.d) + (F.tag ? std::string(" str+='") + F.tag + "'" : std::string()) + (F.m ? " false when (arg+" + num(F.k) + ")%" + num(F.m) + "==0" : " always true"));
	}
	void doRemoveFilter() {
		if(filters.empty()) return;
		int fid = -1;
		const uint32_t c = rng.below(100);
		if(c < 65 && ! chain.empty()) fid = chain[rng.below((uint32_t)chain.size())];
		else if(c < 80 && ! stack.empty() && stack.back().frameOpen && ! stack.back().f.fsnap.empty()) { const Frame & f = stack.back().f; fid = f.fsnap[rng.below((uint32_t)f.fsnap.size())]; }
		else fid = (int)rng.below((uint32_t)filters.size());
		const bool expect = filters[(size_t)fid].live;
		const bool got = obj->removeFilter(fid);
		if(expect) { filters[(size_t)fid].live = false; chain.erase(std::find(chain.begin(), chain.end(), fid)); }
		count(expect ? "ops.removeFilter" : "ops.removeFilter_already_removed");
		if(expect && ! stack.empty()) {
			count("ops.removeFilter_inside_dispatch");
			for(size_t i = 0; i < stack.size(); ++i) if(stack[i].frameOpen && ! stack[i].f.listenerPhase) {
				const Frame & f = stack[i].f;
				for(size_t p = f.fpos; p < f.fsnap.size(); ++p) if(f.fsnap[p] == fid) count("ops.removeFilter_of_filter_still_pending_in_running_dispatch");
			}
		}
		if(got != expect) count("removeFilter.result_differs_from_model");
		log("removeFilter f" + num(fid) + (expect ? "" : " (already removed)") + " -> " + num(got));
	}
	void doAddListener() {
		const int key = (int)rng.below((uint32_t)nkeys);
		MLis L;
		L.key = key; L.shape = shapeForKey(key); L.live = true; L.akind = A_NONE;
		int kinds[LK_N], nk = 0;
		for(int k = 0; k < LK_N; ++k) if(caps.kinds & (1u << k)) kinds[nk++] = k;
		L.kind = kinds[rng.below((uint32_t)nk)];
		if(nk > 1 && L.kind == LK_PLAIN && rng.chance(1, 2)) L.kind = kinds[rng.below((uint32_t)nk)];
		if(isAdapt(L.kind)) {
			if(L.shape == SH_IS) L.akind = A_LONG_CSTR + (int)rng.below(4);
			else if(L.shape == SH_I) L.akind = A_CHAR + (int)rng.below(9);
			else L.akind = A_PDER_LONG;
		}
		L.cm = isCond(L.kind) ? 2 + (int)rng.below(2) : 0;
		L.ck = (int)rng.below(5);
		const int cbid = (int)lis.size();
		std::vector<int> & o = lists[key];
		int how = (int)rng.below(3), before = -1;
		if(how == 2) {
			// a handle of the same list and prototype (live or already removed)
			std::vector<int> cand;
			for(size_t i = 0; i < lis.size(); ++i) if(lis[i].key == key && lis[i].shape == L.shape) cand.push_back((int)i);
			if(cand.empty()) how = 0; else before = cand[rng.below((uint32_t)cand.size())];
		}
		lis.push_back(L);
		if(how == 0) o.push_back(cbid);
		else if(how == 1) o.insert(o.begin(), cbid);
		else {
			std::vector<int>::iterator it = lis[(size_t)before].live ? std::find(o.begin(), o.end(), before) : o.end();
			o.insert(it, cbid);
		}
		LSpec sp; sp.cbid = cbid; sp.kind = L.kind; sp.akind = L.akind; sp.shape = L.shape;
		obj->addListener(cbid, how, key, sp, before);
		count(how == 0 ? "ops.appendListener" : how == 1 ? "ops.prependListener" : "ops.insertListener");
		count((std::string("listeners.") + kLKindName[L.kind]).c_str());
		log(std::string(how == 0 ? "appendListener" : how == 1 ? "prependListener" : "insertListener") + " key=" + num(key) + " c" + num(cbid) + " " + kShapeName[L.shape] + " " + kLKindName[L.kind]
			+ (L.akind ? std::string(" ") + kAKindName[L.akind] : std::string()) + (L.cm ? " runs when (arg+" + num(L.ck) + (shapeHasS(L.shape) ? "+len" : "") + ")%" + num(L.cm) + "!=0" : std::string())
			+ (how == 2 ? " before c" + num(before) + (lis[(size_t)before].live ? "" : "(removed)") : std::string()));
	}
	void doRemoveListener() {
		if(lis.empty()) return;
		int cbid;
		if(rng.chance(1, 4) && ! stack.empty() && stack.back().frameOpen && ! stack.back().f.lsnap.empty()) { const Frame & f = stack.back().f; cbid = f.lsnap[rng.below((uint32_t)f.lsnap.size())]; }
		else cbid = (int)rng.below((uint32_t)lis.size());
		MLis & L = lis[(size_t)cbid];
		const bool expect = L.live;
		const bool got = obj->removeListener(L.key, cbid);
		if(expect) { L.live = false; std::vector<int> & o = lists[L.key]; o.erase(std::find(o.begin(), o.end(), cbid)); }
		count(expect ? "ops.removeListener" : "ops.removeListener_already_removed");
		if(got != expect) count("removeListener.result_differs_from_model");
		log("removeListener key=" + num(L.key) + " c" + num(cbid) + (expect ? "" : " (already removed)") + " -> " + num(got));
	}

	int randomInt() {
		if(caps.hasCC) { const int v = (int)rng.below(41); if(rng.chance(1, 8)) { count("canContinue.dispatched_already_stopped"); return v | CC_FLAG; } return v; } // 1 in 8: the policy is already false for the arguments as dispatched (the first listener still runs)
		if(caps.wideInts && rng.chance(3, 5)) {
			static const int sp[] = { 0, 1, -1, 127, 128, 129, 255, 256, 257, -127, -128, -129, 32767, 32768, -32768, -32769, 65535, 65536, 1 << 24, (1 << 24) + 1, INT_MAX, INT_MAX - 1, INT_MIN, INT_MIN + 1 };
			const uint32_t c = rng.below(30);
			if(c < 24) return sp[c];
			return (int)(uint32_t)rng.next();
		}
		return (int)rng.below(61);
	}
	DArgs randomArgs(int shape, int fixedI0) {
		DArgs a;
		a.i0 = fixedI0 >= 0 ? fixedI0 : randomInt();
		if(shapeHasS(shape)) a.s = "s" + num(rng.below(50)) + std::string(rng.below(5), 'x');
		if(shape == SH_PI) a.obj = 100 + (int)rng.below(900);
		return a;
	}
	// aim at: pass / blocked late / blocked first / anything
	DArgs genArgs(int key, int shape, int fixedI0) {
		const uint32_t g = rng.below(100);
		DArgs a = randomArgs(shape, fixedI0);
		Sim s = simulate(shape, a);
		for(int t = 0; t < 8; ++t) {
			const bool ok = g < 40 ? s.blockedPos < 0 : g < 70 ? s.blockedPos > 0 : g < 78 ? s.blockedPos == 0 : true;
			if(ok) break;
			a = randomArgs(shape, fixedI0);
			s = simulate(shape, a);
		}
		if(shape == SH_II) {
			int nl = 0;
			const std::vector<int> & o = lists[key];
			for(size_t i = 0; i < o.size(); ++i) if(lis[(size_t)o[i]].live) ++nl;
			const int k = rng.chance(1, 5) ? 0 : 1 + (int)rng.below((uint32_t)nl + 1);
			a.i1 = k > 0 ? ((s.after.i0 + k) & 0xff) : ((s.after.i0 + 200) & 0xff);
		}
		return a;
	}

	void doDispatch() {
		const int key = (int)rng.below((uint32_t)nkeys);
		const int shape = shapeForKey(key);
		int variant = (int)rng.below(3);
		if(variant == 1 && ! caps.eventArgForm && ! caps.heter) variant = 0;
		DArgs a = genArgs(key, shape, (variant == 1 && caps.eventArgForm) ? key : -1);
		if(shape == SH_PI) a.objp = std::make_shared<VDerived>(a.obj);
		stack.emplace_back();
		{
			PCtx & c = stack.back();
			c.kind = CK_DIRECT;
			openFrame(c.f, key, shape, a, false, -1);
			c.frameOpen = true;
		}
		log("dispatch key=" + num(key) + " " + strOf(a, shape) + " form=" + num(variant));
		DArgs io = a;
		obj->dispatch(key, shape, variant, io);
		PCtx & c = stack.back();
		closeFrame(c.f);
		if(! dead && ! caps.heter && ! caps.wrapLists) {
			if(caps.intByRef) {
				if(io.i0 != c.f.a.i0) fail("dispatch:by-reference-modification-not-seen-by-caller", "caller's int holds " + num(io.i0) + " after dispatch, model says " + num(c.f.a.i0));
				else if(io.i0 != a.i0) count("caller.saw_by_reference_modification");
			}
			else if(io.i0 != a.i0 || io.s != a.s) fail("dispatch:by-value-argument-changed-in-caller", "caller's variables changed by a dispatch with by-value prototype");
			else if(c.f.modified) count("caller.unaffected_by_value_rewrite");
		}
		const bool blocked = c.f.blocked, cut = c.f.cut, vetoed = c.f.vetoed;
		const int fr = c.f.filtersRun, lr = c.f.listenersRun;
		stack.pop_back();
		log("dispatch done: " + num(fr) + " filter(s), " + num(lr) + " listener(s)" + (blocked ? ", blocked" : "") + (cut ? ", cut" : "") + (vetoed ? ", vetoed" : ""));
	}
	void doEnqueue() {
		const int key = (int)rng.below((uint32_t)nkeys);
		const int shape = caps.shape;
		int variant = (int)rng.below(3);
		if(variant == 1 && ! caps.eventArgForm) variant = 0;
		QEv e;
		e.key = key; e.shape = shape; e.serial = nextSerial++;
		e.a = genArgs(key, shape, variant == 1 ? key : -1);
		pending.push_back(e);
		obj->enqueue(key, variant, e.a);
		count("ops.enqueue");
		if(! stack.empty()) count("ops.enqueue_inside_dispatch");
		log("enqueue #" + num(e.serial) + " key=" + num(key) + " " + strOf(e.a, shape) + " form=" + num(variant));
	}
	void doProcess() {
		int how = (int)rng.below(4);
		if(how == 0 && caps.explicitOnly) how = 1 + (int)rng.below(3);
		stack.emplace_back();
		{
			PCtx & c = stack.back();
			if(how == 0) { c.kind = CK_LAZY; c.batch.assign(pending.begin(), pending.end()); pending.clear(); }
			else if(how == 1) {
				c.kind = CK_EXPLICIT;
				if(! pending.empty()) {
					c.batch.push_back(pending.front()); pending.pop_front();
					c.cursor = 0;
					const QEv & e = c.batch[0];
					openFrame(c.f, e.key, e.shape, e.a, true, e.serial);
					c.frameOpen = true;
				}
			}
			else {
				c.kind = CK_PROCIF; c.batch.assign(pending.begin(), pending.end()); pending.clear();
				c.predK = (int)rng.below(5); c.predM = rng.chance(1, 4) ? 0 : 2 + (int)rng.below(2); c.predMask = (unsigned)rng.next();
			}
			static const char * nm[] = { "process", "processOne", "processIf(pred(args))", "processIf(pred())" };
			count((std::string("ops.") + nm[how]).c_str());
			if(stack.size() > 1) count("ops.process_inside_dispatch");
			log(std::string(nm[how]) + " with " + num((long long)c.batch.size()) + " event(s) taken");
		}
		const bool r = obj->process(how);
		PCtx & c = stack.back();
		if(c.frameOpen) { closeFrame(c.f); c.frameOpen = false; }
		if(! dead && c.kind == CK_LAZY) {
			int trivial = 0;
			for(int j = c.cursor + 1; j < (int)c.batch.size() && ! dead; ++j) {
				const QEv & e = c.batch[(size_t)j];
				Frame tmp; int uid;
				openFrame(tmp, e.key, e.shape, e.a, true, e.serial);
				const int ne = nextExpected(tmp, uid);
				if(ne != NE_NONE) fail(std::string("process:queued-event-not-dispatched:") + (ne == NE_FILTER ? "filter-not-run" : "listener-not-run"),
					"process() returned without dispatching queued event #" + num(e.serial) + " key=" + num(e.key) + ": " + (ne == NE_FILTER ? "filter f" : "listener c") + num(uid) + " did not run");
				++trivial;
			}
			count("dispatch.queued_with_nothing_to_run", (uint64_t)trivial);
		}
		if(! dead && c.kind == CK_PROCIF) {
			if(c.predCalls != (int)c.batch.size()) fail("processIf:event-not-offered-to-predicate", "processIf called the predicate " + num(c.predCalls) + " time(s) for " + num((long long)c.batch.size()) + " event(s)");
			for(size_t i = c.declined.size(); i > 0; --i) pending.push_front(c.declined[i - 1]);
		}
		stack.pop_back();
		log("processing call done -> " + num(r));
	}

	void step(bool nested) {
		if(dead) return;
		const bool fp = anyFilterPhase();
		const bool canNest = (int)stack.size() <= mode.maxDepth;
		int w[7];
		w[0] = (caps.hasFilters && ! fp && liveFilters() < 6) ? 10 : 0;
		w[1] = caps.hasFilters ? 7 : 0;
		w[2] = (! fp && liveListeners() < 14) ? 14 : 0;
		w[3] = 7;
		w[4] = canNest ? (nested ? 10 : 30) : 0;
		w[5] = caps.isQueue ? 14 : 0;
		w[6] = (caps.isQueue && canNest) ? (nested ? 4 : (pending.empty() ? 2 : 14)) : 0;
		int total = 0;
		for(int i = 0; i < 7; ++i) total += w[i];
		if(total == 0) return;
		int c = (int)rng.below((uint32_t)total), op = 0;
		while(c >= w[op]) { c -= w[op]; ++op; }
		switch(op) {
		case 0: doAddFilter(); break;
		case 1: doRemoveFilter(); break;
		case 2: doAddListener(); break;
		case 3: doRemoveListener(); break;
		case 4: doDispatch(); break;
		case 5: doEnqueue(); break;
		default: doProcess(); break;
		}
	}

	void run(int nops) {
		nkeys = rng.range(caps.nkeysMin, caps.nkeysMax);
		mixK = (int)rng.below(5);
		static const int mm[] = { 0, 3, 4, 5 };
		mixM = mm[rng.below(4)];
		callbackSink() = this;
		gSink = this;
		if(caps.veto) log("user mixin vetoes when (arg+" + num(mixK) + ")%" + num(mixM) + "==0" + (mixM ? "" : " (never)"));
		const int nf = caps.hasFilters ? (int)rng.below(5) : 0;
		for(int i = 0; i < nf; ++i) doAddFilter();
		const int nl = 1 + (int)rng.below(6);
		for(int i = 0; i < nl; ++i) doAddListener();
		for(int i = 0; i < nops && ! dead; ++i) {
			budget = 10;
			step(false);
			if(! stack.empty() && ! dead) { fail("harness:context-left", "context stack not empty at top level"); break; }
		}
		// finale: one more dispatch, then drain the queue
		if(! dead) { budget = 4; doDispatch(); }
		for(int t = 0; t < 3 && caps.isQueue && ! dead && ! pending.empty(); ++t) { budget = 4; doProcess(); }
		callbackSink() = nullptr;
		gSink = nullptr;
	}
};

// ------------------------------------------------------------------ case runner
static uint64_t gTraceXor = 0;

template <typename ObjT>
static void runCfg(int cfg, const ModeP & mode, Rng & rng, uint64_t caseNo)
{
	ledger().resetCase();
	filterCallTruth().clear();
	const Caps & caps = kCaps[cfg];
	const int nops = rng.range(mode.minOps, mode.maxOps);
	uint64_t h;
	bool nontrivial;
	{
		ObjT * o = new ObjT();
		World w(cfg, o, rng, mode);
		oplog("config " + num(cfg) + ": " + caps.name + " ops=" + num(nops));
		w.run(nops);
		h = w.trace.h;
		const bool filt = w.nBlockedLater > 0 || w.nRewriteSeen > 0;
		switch(caps.cls) {
		case 0: nontrivial = filt; break;
		case 1: nontrivial = filt && w.nQueuedObserved > 0; break;
		case 2: nontrivial = w.nCutSuppressing > 0; break;
		case 3: nontrivial = w.nCutSuppressing > 0 && w.nQueuedObserved > 0; break;
		default: nontrivial = w.nAdapter > 0 && w.nCondTrue > 0 && w.nCondFalse > 0; break;
		}
		count("filters_created", w.filters.size());
		count("listeners_created", w.lis.size());
		delete o;
	}
	if(! caseHasViolation() && ledger().liveCount(K_CB) != 0)
		violation("lifetime:functor-leaked-after-destruction", num(ledger().liveCount(K_CB)) + " filter/listener instance(s) alive after the container was destroyed");
	count("ops", (uint64_t)nops);
	count((std::string("config.") + num(cfg)).c_str());
	Fnv f; f.addu(h); f.addu((uint64_t)cfg);
	if(nontrivial) { markNontrivial(f.h); count((std::string("nontrivial.config.") + num(cfg)).c_str()); }
	gTraceXor ^= mix(h, caseNo);
	if(wantSample() && nontrivial && ! caseHasViolation() && (caseNo % 7) == 3) addSample("{\"case\":" + unum(caseNo) + ",\"history\":" + oplogJson(ctx().oplog, 60) + "}");
}

template <bool Enabled, typename ObjT>
static typename std::enable_if<Enabled>::type runCfgIf(int cfg, const ModeP & mode, Rng & rng, uint64_t caseNo) { runCfg<ObjT>(cfg, mode, rng, caseNo); }
template <bool Enabled, typename ObjT>
static typename std::enable_if<! Enabled>::type runCfgIf(int, const ModeP &, Rng &, uint64_t) {}
static void skipCase() { --ctx().casesRun; }

typedef HomoObj<eventpp::EventDispatcher<int, void(int, std::string), PolF>, ShIS, true, false> Obj0;
typedef HomoObj<eventpp::EventDispatcher<int, void(int &, const std::string &), PolF>, ShIRS, true, false> Obj1;
typedef HomoObj<eventpp::EventQueue<int, void(int, std::string), PolF>, ShIS, true, true> Obj2;
typedef HomoObj<eventpp::EventDispatcher<int, void(int, std::string), PolFV>, ShIS, true, false> Obj3;
typedef HomoObj<eventpp::EventQueue<int, void(int &, const std::string &), PolVF>, ShIRS, true, true> Obj4;
typedef HeterObj Obj5;
typedef CCListObj Obj6;
typedef HomoObj<eventpp::EventDispatcher<int, void(int &, int), PolCCb>, ShII, true, false> Obj7;
typedef HomoObj<eventpp::EventQueue<int, void(int &, int), PolCCc>, ShII, false, true> Obj8;
typedef HomoObj<eventpp::EventDispatcher<int, void(int, std::string), PolFS>, ShISW, true, false> Obj9;
typedef WrapListsObj Obj10;
typedef HomoObj<eventpp::EventDispatcher<int, void(int, std::string), PolPF>, ShIS, true, false> Obj11;
typedef HomoObj<eventpp::EventQueue<int, void(int, std::string), PolFP>, ShIS, true, true> Obj12;


// ------------------------------------------------------------------ adapters on a prototype with a NON-CONST REFERENCE to a class type
// prototype void(std::string &, int): the dispatched string is one object that every listener sees in turn.  Listeners are plain
// (reading / appending to the string), argumentAdapter-wrapped functors taking the string BY VALUE (with long), by const
// reference (with short) or by reference (they may append), and conditionalFunctor-guarded adapters.  An adapted listener
// receives "those same argument values converted": its by-value parameter is a copy, so neither later listeners nor the caller
// may see the string changed by it.
struct RefAdaptFns
{
	std::vector<std::string> * got;
	std::string tag;
	int kind;
	void operator() (std::string & s, int v) const { // kinds 0, 1, 4
		got->push_back(tag + (kind == 4 ? ":adapted-ref:" : ":plain:") + s + ":" + num(v));
		if(kind != 0) s += "+" + tag;
	}
};
struct RefAdaptByValue { std::vector<std::string> * got; std::string tag; void operator() (std::string s, long v) const { got->push_back(tag + ":adapted-value:" + s + ":" + num((long long)v)); s.assign("consumed"); } };
struct RefAdaptByCRef { std::vector<std::string> * got; std::string tag; void operator() (const std::string & s, short v) const { got->push_back(tag + ":adapted-cref:" + s + ":" + num((long long)v)); } };
struct RefAdaptCond { int salt; bool operator() (const std::string & s, int v) const { return ((long long)s.size() + v + salt) % 3 != 0; } };

template <typename Target, typename Add, typename Call>
static void refAdapterRun(Rng & rng, const char * what, Target & target, Add add, Call call)
{
	std::vector<std::string> got, want;
	const int n = 2 + (int)rng.below(5);
	std::vector<int> kinds, salts;
	for(int i = 0; i < n; ++i) {
		const int kind = (int)rng.below(6), salt = (int)rng.below(3);
		kinds.push_back(kind); salts.push_back(salt);
		const std::string tag = "L" + num(i);
		switch(kind) {
		case 0: case 1: { RefAdaptFns f = { &got, tag, kind }; add(target, f); break; }
		case 2: { RefAdaptByValue f = { &got, tag }; add(target, eventpp::argumentAdapter<void (std::string, long)>(f)); break; }
		case 3: { RefAdaptByCRef f = { &got, tag }; add(target, eventpp::argumentAdapter<void (const std::string &, short)>(f)); break; }
		case 4: { RefAdaptFns f = { &got, tag, kind }; add(target, eventpp::argumentAdapter<void (std::string &, int)>(f)); break; }
		default: { RefAdaptByValue f = { &got, tag }; RefAdaptCond c = { salt }; add(target, eventpp::conditionalFunctor(eventpp::argumentAdapter<void (std::string, long)>(f), c)); break; }
		}
	}
	for(int round = 0; round < 2; ++round) {
		got.clear(); want.clear();
		std::string arg = rng.chance(1, 2) ? "s" + num((long long)rng.below(100)) : "a-string-that-is-too-long-for-the-small-string-buffer-" + num((long long)rng.below(100000));
		const int v = rng.chance(1, 2) ? (int)rng.below(100) : (int)rng.below(200000) - 100000;
		std::string cur = arg;
		for(int i = 0; i < n; ++i) {
			const std::string tag = "L" + num(i);
			switch(kinds[i]) {
			case 0: want.push_back(tag + ":plain:" + cur + ":" + num(v)); break;
			case 1: want.push_back(tag + ":plain:" + cur + ":" + num(v)); cur += "+" + tag; break;
			case 2: want.push_back(tag + ":adapted-value:" + cur + ":" + num((long long)static_cast<long>(v))); break;
			case 3: want.push_back(tag + ":adapted-cref:" + cur + ":" + num((long long)static_cast<short>(v))); break;
			case 4: want.push_back(tag + ":adapted-ref:" + cur + ":" + num(v)); cur += "+" + tag; break;
			default: { RefAdaptCond c = { salts[i] }; if(c(cur, v)) want.push_back(tag + ":adapted-value:" + cur + ":" + num((long long)static_cast<long>(v))); break; }
			}
		}
		call(target, arg, v);
		count("refadapter.invocations"); count("refadapter.listener_calls", (uint64_t)got.size());
		if(got != want) {
			size_t k = 0; while(k < got.size() && k < want.size() && got[k] == want[k]) ++k;
			violation(std::string("adapter:reference-prototype:") + what + ":listener-did-not-receive-the-dispatched-values", std::string(what) + "<void(std::string &, int)> with " + num(n) + " listeners (plain / argumentAdapter by value, const&, & / conditionalFunctor): call #" + num((long long)k)
				+ " expected [" + (k < want.size() ? want[k] : std::string("none")) + "] observed [" + (k < got.size() ? got[k] : std::string("none")) + "]");
			return;
		}
		if(arg != cur) { violation(std::string("adapter:reference-prototype:") + what + ":caller's-argument-after-the-dispatch", "the caller's string is \"" + arg + "\" after the dispatch, the listeners' own modifications give \"" + cur + "\""); return; }
	}
}

static void refAdapterScenario(Rng & rng)
{
	typedef eventpp::CallbackList<void (std::string &, int)> CL;
	typedef eventpp::EventDispatcher<int, void (std::string &, int)> ED;
	{
		CL cl;
		refAdapterRun(rng, "CallbackList", cl,
			[](CL & t, const CL::Callback & f) { t.append(f); },
			[](CL & t, std::string & s, int v) { t(s, v); });
	}
	{
		ED ed;
		refAdapterRun(rng, "EventDispatcher", ed,
			[](ED & t, const ED::Callback & f) { t.appendListener(7, f); },
			[](ED & t, std::string & s, int v) { t.dispatch(7, s, v); });
	}
}

static void runCase(uint64_t caseNo, Rng & rng)
{
	static ModeP mode = modeOf(ctx().mode);
	const long long only = ctx().optInt("cfg", -1);
	const int cfg = only >= 0 ? (int)only : (int)(caseNo % NCFG);
	// VF_CFG_MASK: build only a subset of the configurations (parallel compilation); other cases are skipped
#ifndef VF_CFG_MASK
#define VF_CFG_MASK 0x1fff
#endif
#define VF_CFG(n) case n: if((VF_CFG_MASK >> n) & 1) { runCfgIf<((VF_CFG_MASK >> n) & 1) != 0, Obj##n>(n, mode, rng, caseNo); } else { skipCase(); } break;
	switch(cfg) {
	VF_CFG(0) VF_CFG(1) VF_CFG(2) VF_CFG(3) VF_CFG(4) VF_CFG(5) VF_CFG(6) VF_CFG(7) VF_CFG(8) VF_CFG(9) VF_CFG(10) VF_CFG(11) VF_CFG(12)
	default: skipCase(); break;
	}
	if(cfg == 10 && ((VF_CFG_MASK >> 10) & 1) && ! caseHasViolation()) refAdapterScenario(rng);
}

int main(int argc, char ** argv)
{
	return runMain(argc, argv, runCase, []() {
		ctx().counters["trace_xor_lo"] = gTraceXor & 0xffffffffu;
		ctx().counters["trace_xor_hi"] = gTraceXor >> 32;
	});
}
