// drv_filter.cpp - online monitor of property C12: MixinFilter / MixinHeterFilter,
// canContinueInvoking, conditionalFunctor, argumentAdapter.  C++17.
//
// One control flow: generated histories of appendFilter/removeFilter,
// append/prepend/insert/removeListener, direct dispatches and enqueue +
// process/processOne/processIf.  Filters, listeners, conditions, policies,
// mixins and predicates are scripted functors that call back into the World,
// which checks every call ONLINE against the model (filter chain + listener
// list per event key, one Frame per dispatch) and may issue nested operations.
//
// modes (--mode): c12 (default), flat (no re-entrancy), deep (more nesting, longer)
// options: --opt cfg=N (force configuration N for every case)
#include "vcommon.h"
#include "vledger.h"
#include "vaccess.h"

#include <eventpp/callbacklist.h>
#include <eventpp/eventdispatcher.h>
#include <eventpp/eventqueue.h>
#include <eventpp/hetereventdispatcher.h>
#include <eventpp/mixins/mixinfilter.h>
#include <eventpp/mixins/mixinheterfilter.h>
#include <eventpp/utilities/conditionalfunctor.h>
#include <eventpp/utilities/argumentadapter.h>

#include <algorithm>
#include <climits>
#include <deque>
#include <memory>

using namespace vf;

// ------------------------------------------------------------------ argument shapes
// order of the parameters of a prototype: i = int, s = std::string, p = std::shared_ptr<VBase>
enum Shape { SH_IS, SH_II, SH_I, SH_SI, SH_PI, SH_N };
static const char * kShapeName[] = { "(int,string)", "(int&,int)", "(int)", "(string,int)", "(shared_ptr<Base>,int)" };
static bool shapeHasS(int sh) { return sh == SH_IS || sh == SH_SI; }

// class hierarchy for the pointer adapter: the VBase sub-object is NOT at offset 0 of VDerived
struct VPad { long long pad[3]; VPad() { pad[0] = pad[1] = pad[2] = 0x5a5a5a5a; } virtual ~VPad() {} };
struct VBase { virtual ~VBase() {} virtual int vid() const { return -1; } };
struct VDerived : VPad, VBase { int id; explicit VDerived(int i) : id(i) {} int vid() const override { return id; } };
inline long long fpOf(const VBase & b) { return b.vid(); } // found by ADL from vf::fpOf(shared_ptr<T>)

// generated / model argument values of one dispatch
struct DArgs
{
	int i0, i1;
	std::string s;
	int obj;
	std::shared_ptr<VDerived> objp;
	DArgs() : i0(0), i1(0), obj(-1) {}
};

static int addWrap(int v, int d) { return (int)((unsigned)v + (unsigned)d); }
static long long posmod(long long v, long long m) { long long r = v % m; return r < 0 ? r + m : r; }
static std::string strOf(const DArgs & a, int sh)
{
	switch(sh) {
	case SH_IS: return "(" + num(a.i0) + ",\"" + a.s + "\")";
	case SH_II: return "(" + num(a.i0) + "," + num(a.i1) + ")";
	case SH_I: return "(" + num(a.i0) + ")";
	case SH_SI: return "(\"" + a.s + "\"," + num(a.i0) + ")";
	default: return "(obj" + num(a.obj) + "," + num(a.i0) + ")";
	}
}

// what a filter / condition / mixin / policy / predicate really received
struct ArgView
{
	int nI;
	int * mi[2];
	int iv[2];
	std::string * ms;
	const std::string * cs;
	int obj;
	char kinds[6]; // per argument: M = modifiable lvalue, C = const lvalue, R = rvalue
	int nk;
	ArgView() : nI(0), ms(nullptr), cs(nullptr), obj(-1), nk(0) { mi[0] = mi[1] = nullptr; iv[0] = iv[1] = 0; }
	void kind(char k) { if(nk < 5) kinds[nk++] = k; }
	const std::string * str() const { return ms ? ms : cs; }
	std::string text() const {
		std::string t = "(";
		for(int i = 0; i < nI; ++i) { if(i) t += ","; t += num(mi[i] ? *mi[i] : iv[i]); }
		if(str()) t += ",\"" + *str() + "\"";
		if(obj >= 0) t += ",obj" + num(obj);
		return t + ")";
	}
};
inline void bindInt(ArgView & w, int * p, int v, char k) { if(w.nI < 2) { w.mi[w.nI] = p; w.iv[w.nI] = v; ++w.nI; } w.kind(k); }
inline void bindOne(ArgView & w, int & v) { bindInt(w, &v, v, 'M'); }
inline void bindOne(ArgView & w, const int & v) { bindInt(w, nullptr, v, 'C'); }
inline void bindOne(ArgView & w, int && v) { bindInt(w, nullptr, v, 'R'); }
inline void bindOne(ArgView & w, std::string & s) { w.ms = &s; w.kind('M'); }
inline void bindOne(ArgView & w, const std::string & s) { w.cs = &s; w.kind('C'); }
inline void bindOne(ArgView & w, std::string && s) { w.cs = &s; w.kind('R'); }
inline void bindOne(ArgView & w, const std::shared_ptr<VBase> & p) { w.obj = p ? p->vid() : -7; w.kind('P'); }
template <typename ...A>
inline void bindAll(ArgView & w, A && ...a) { int d[] = { 0, (bindOne(w, std::forward<A>(a)), 0)... }; (void)d; }

// what the functor wrapped by an argumentAdapter really received: static type and value of every argument
enum TypeCode { T_OTHER = 0, T_INT, T_LONG, T_LLONG, T_SHORT, T_CHAR, T_SCHAR, T_UCHAR, T_UINT, T_BOOL, T_DOUBLE, T_STR, T_PBASE, T_PDERIVED };
static const char * kTypeName[] = { "?", "int", "long", "long long", "short", "char", "signed char", "unsigned char", "unsigned", "bool", "double", "string", "shared_ptr<Base>", "shared_ptr<Derived>" };
template <typename T> struct TC { enum { v = T_OTHER }; };
template <> struct TC<int> { enum { v = T_INT }; };
template <> struct TC<long> { enum { v = T_LONG }; };
template <> struct TC<long long> { enum { v = T_LLONG }; };
template <> struct TC<short> { enum { v = T_SHORT }; };
template <> struct TC<char> { enum { v = T_CHAR }; };
template <> struct TC<signed char> { enum { v = T_SCHAR }; };
template <> struct TC<unsigned char> { enum { v = T_UCHAR }; };
template <> struct TC<unsigned> { enum { v = T_UINT }; };
template <> struct TC<bool> { enum { v = T_BOOL }; };
template <> struct TC<double> { enum { v = T_DOUBLE }; };
template <> struct TC<std::string> { enum { v = T_STR }; };
template <> struct TC<std::shared_ptr<VBase> > { enum { v = T_PBASE }; };
template <> struct TC<std::shared_ptr<VDerived> > { enum { v = T_PDERIVED }; };

struct TypedPack
{
	int n;
	int code[3];
	long long val[3];
	const void * ptr;
	TypedPack() : n(0), ptr(nullptr) {}
	void push(int c, long long v) { if(n < 3) { code[n] = c; val[n] = v; ++n; } }
	std::string text() const { std::string t = "("; for(int i = 0; i < n; ++i) { if(i) t += ","; t += std::string(kTypeName[code[i]]) + ":" + num(val[i]); } return t + ")"; }
};
static long long bitsOf(double d) { long long b; memcpy(&b, &d, sizeof b); return b; }
template <typename T> inline typename std::enable_if<std::is_integral<T>::value, long long>::type recVal(TypedPack &, const T & v) { return (long long)v; }
inline long long recVal(TypedPack &, const double & v) { return bitsOf(v); }
inline long long recVal(TypedPack &, const std::string & s) { return vf::fpOf(s); }
inline long long recVal(TypedPack & p, const std::shared_ptr<VDerived> & d) { p.ptr = d.get(); return d ? d->id : -7; }
inline long long recVal(TypedPack &, const std::shared_ptr<VBase> & d) { return d ? d->vid() : -7; }
template <typename A> inline void recOne(TypedPack & p, const A & a) { const long long v = recVal(p, a); p.push(TC<A>::v, v); }

// ------------------------------------------------------------------ the sink every scripted functor reports to
struct Sink
{
	virtual bool onFilter(int fid, ArgView & w) = 0;
	virtual bool onMixin(ArgView & w) = 0;
	virtual bool onPolicy(ArgView & w) = 0;
	virtual bool onCond(int cbid, ArgView & w) = 0;
	virtual void onAdapted(int cbid, const TypedPack & p) = 0;
	virtual bool onPred(ArgView * w) = 0;
	virtual ~Sink() {}
};
static Sink * gSink = nullptr;

enum { FILTER_ID_BASE = 20000, CC_FLAG = 0x10000 };
static bool polVerdict(int v) { return (v & CC_FLAG) == 0; }

struct TFilter
{
	Counted<K_CB> c;
	explicit TFilter(int fid) : c(FILTER_ID_BASE + fid) {}
	template <typename ...A>
	bool operator() (A && ...a) const {
		if(! c.checkLive("filter-invoke-after-destruction")) return true;
		ArgView w;
		bindAll(w, std::forward<A>(a)...);
		return gSink ? gSink->onFilter(c.id - FILTER_ID_BASE, w) : true;
	}
};
// fixed signatures for the heterogeneous dispatcher (prototype lookup is by invocability)
struct HFilterA { TFilter f; bool operator() (int & v) const { return f(v); } };
struct HFilterB { TFilter f; bool operator() (std::string & s, int & v) const { return f(s, v); } };
struct HLisA { TCallback cb; void operator() (int v) const { cb(int(v)); } };
struct HLisB { TCallback cb; void operator() (std::string s, int v) const { cb(s, int(v)); } };

struct CondFn
{
	int cbid;
	template <typename ...A>
	bool operator() (const A & ...a) const { ArgView w; bindAll(w, a...); return gSink ? gSink->onCond(cbid, w) : true; }
};
struct TRec
{
	Counted<K_CB> c;
	explicit TRec(int id) : c(id) {}
	template <typename ...A>
	void operator() (A && ...a) const {
		if(! c.checkLive("invoke-after-destruction")) return;
		TypedPack p;
		int d[] = { 0, (recOne<typename std::decay<A>::type>(p, a), 0)... }; (void)d;
		if(gSink) gSink->onAdapted(c.id, p);
	}
};
struct PredArgs
{
	template <typename A0, typename ...A>
	bool operator() (A0 && a0, A && ...a) const { ArgView w; bindAll(w, std::forward<A0>(a0), std::forward<A>(a)...); return gSink ? gSink->onPred(&w) : true; }
};
struct PredNoArgs { bool operator() () const { return gSink ? gSink->onPred(nullptr) : true; } };

// ------------------------------------------------------------------ user mixins and policies
template <typename Base>
class MixinVeto : public Base
{
public:
	template <typename ...A>
	bool mixinBeforeDispatch(A && ...a) const {
		ArgView w;
		bindAll(w, std::forward<A>(a)...);
		return gSink ? gSink->onMixin(w) : true;
	}
};
// a mixin without any interceptor point (they are optional, doc/mixins.md)
template <typename Base>
class MixinPassive : public Base
{
public:
	int passiveMarker() const { return 12; }
};

struct PolF { typedef eventpp::MixinList<eventpp::MixinFilter> Mixins; };
struct PolFS { typedef eventpp::MixinList<eventpp::MixinFilter> Mixins; typedef eventpp::SingleThreading Threading; };
struct PolFV { typedef eventpp::MixinList<eventpp::MixinFilter, MixinVeto> Mixins; typedef eventpp::SingleThreading Threading; };
struct PolVF { typedef eventpp::MixinList<MixinVeto, eventpp::MixinFilter> Mixins; };
struct PolPF { typedef eventpp::MixinList<MixinPassive, eventpp::MixinFilter> Mixins; typedef eventpp::SingleThreading Threading; };
struct PolFP { typedef eventpp::MixinList<eventpp::MixinFilter, MixinPassive> Mixins; };
struct PolHF { typedef eventpp::MixinList<eventpp::MixinHeterFilter> Mixins; };
struct PolSingle { typedef eventpp::SingleThreading Threading; };
struct PolCCa {
	typedef eventpp::SingleThreading Threading;
	static bool canContinueInvoking(int & v, int p) { ArgView w; bindAll(w, v, p); return gSink ? gSink->onPolicy(w) : polVerdict(v); }
};
struct PolCCb {
	typedef eventpp::MixinList<eventpp::MixinFilter> Mixins;
	static bool canContinueInvoking(const int & v, const int & p) { ArgView w; bindAll(w, v, p); return gSink ? gSink->onPolicy(w) : polVerdict(v); }
};
struct PolCCc {
	typedef eventpp::SingleThreading Threading;
	template <typename ...A>
	static bool canContinueInvoking(A && ...a) { ArgView w; bindAll(w, std::forward<A>(a)...); return gSink ? gSink->onPolicy(w) : polVerdict(w.iv[0]); }
};

// ------------------------------------------------------------------ listener kinds
enum LKind { LK_PLAIN, LK_COND, LK_ADAPT, LK_COND_ADAPT, LK_N };
static const char * kLKindName[] = { "plain", "conditional", "adapter", "conditional+adapter" };
enum AKind {
	A_NONE,
	A_LONG_CSTR, A_SHORT_STR, A_DOUBLE_CSTR, A_UCHAR_STR,                       // from void(int, std::string)
	A_CHAR, A_SCHAR, A_UCHAR, A_SHORT, A_UINT, A_LLONG, A_BOOL, A_DOUBLE, A_LONG, // from void(int)
	A_PDER_LONG,                                                                // from void(shared_ptr<VBase>, int)
	A_N
};
static const char * kAKindName[] = { "-", "void(long,const string&)", "void(short,string)", "void(double,const string&)", "void(unsigned char,string)",
	"void(char)", "void(signed char)", "void(unsigned char)", "void(short)", "void(unsigned)", "void(long long)", "void(bool)", "void(double)", "void(long)",
	"void(shared_ptr<Derived>,long)" };

struct LSpec { int cbid, kind, akind, shape; };

// expected view of an adapted listener: the same static_cast the statement names
static void expectAdapted(int akind, const DArgs & a, TypedPack & e)
{
	const int v = a.i0;
	switch(akind) {
	case A_LONG_CSTR: e.push(T_LONG, (long long)static_cast<long>(v)); e.push(T_STR, vf::fpOf(a.s)); break;
	case A_SHORT_STR: e.push(T_SHORT, (long long)static_cast<short>(v)); e.push(T_STR, vf::fpOf(a.s)); break;
	case A_DOUBLE_CSTR: e.push(T_DOUBLE, bitsOf(static_cast<double>(v))); e.push(T_STR, vf::fpOf(a.s)); break;
	case A_UCHAR_STR: e.push(T_UCHAR, (long long)static_cast<unsigned char>(v)); e.push(T_STR, vf::fpOf(a.s)); break;
	case A_CHAR: e.push(T_CHAR, (long long)static_cast<char>(v)); break;
	case A_SCHAR: e.push(T_SCHAR, (long long)static_cast<signed char>(v)); break;
	case A_UCHAR: e.push(T_UCHAR, (long long)static_cast<unsigned char>(v)); break;
	case A_SHORT: e.push(T_SHORT, (long long)static_cast<short>(v)); break;
	case A_UINT: e.push(T_UINT, (long long)static_cast<unsigned>(v)); break;
	case A_LLONG: e.push(T_LLONG, (long long)static_cast<long long>(v)); break;
	case A_BOOL: e.push(T_BOOL, (long long)static_cast<bool>(v)); break;
	case A_DOUBLE: e.push(T_DOUBLE, bitsOf(static_cast<double>(v))); break;
	case A_LONG: e.push(T_LONG, (long long)static_cast<long>(v)); break;
	case A_PDER_LONG: e.push(T_PDERIVED, a.obj); e.push(T_LONG, (long long)static_cast<long>(v)); e.ptr = a.objp.get(); break;
	default: break;
	}
}

// builds the listener object of a spec and hands it to `add` (append / prepend / insert of the real container)
template <typename Proto, typename Add>
static void addAdapted(const LSpec & sp, Add && add)
{
	if(sp.kind == LK_ADAPT) add(eventpp::argumentAdapter<Proto>(TRec(sp.cbid)));
	else add(eventpp::conditionalFunctor(eventpp::argumentAdapter<Proto>(TRec(sp.cbid)), CondFn{ sp.cbid }));
}
template <typename Add>
static void makePlainOrCond(const LSpec & sp, Add && add)
{
	if(sp.kind == LK_PLAIN) add(TCallback(sp.cbid));
	else add(eventpp::conditionalFunctor(TCallback(sp.cbid), CondFn{ sp.cbid }));
}

// ------------------------------------------------------------------ prototypes (how to call the real object)
struct ShIS // void(int, std::string)
{
	typedef void Sig(int, std::string);
	template <typename D> static void dispatch(D & d, int key, int variant, DArgs & io) {
		int v = io.i0; std::string s = io.s;
		if(variant == 1) d.dispatch(v, s);                              // the event is the first argument
		else if(variant == 2) d.dispatch(key, int(v), std::string(s));  // temporaries
		else d.dispatch(key, v, s);
		io.i0 = v; io.s = s;
	}
	template <typename Q> static void enqueue(Q & q, int key, int variant, const DArgs & a) {
		if(variant == 1) q.enqueue(a.i0, a.s);
		else if(variant == 2) q.enqueue(key, int(a.i0), std::string(a.s));
		else { int v = a.i0; std::string s = a.s; q.enqueue(key, v, s); }
	}
	template <typename Add> static void make(const LSpec & sp, Add && add) { makePlainOrCond(sp, add); }
};
struct ShISW : ShIS // + adapters
{
	template <typename Add> static void make(const LSpec & sp, Add && add) {
		if(sp.kind == LK_PLAIN || sp.kind == LK_COND) { makePlainOrCond(sp, add); return; }
		switch(sp.akind) {
		case A_LONG_CSTR: addAdapted<void(long, const std::string &)>(sp, add); break;
		case A_SHORT_STR: addAdapted<void(short, std::string)>(sp, add); break;
		case A_DOUBLE_CSTR: addAdapted<void(double, const std::string &)>(sp, add); break;
		default: addAdapted<void(unsigned char, std::string)>(sp, add); break;
		}
	}
};
struct ShIRS // void(int &, const std::string &)
{
	typedef void Sig(int &, const std::string &);
	template <typename D> static void dispatch(D & d, int key, int variant, DArgs & io) {
		int v = io.i0; std::string s = io.s;
		if(variant == 1) d.dispatch(v, s);
		else d.dispatch(key, v, s);
		io.i0 = v; io.s = s;
	}
	template <typename Q> static void enqueue(Q & q, int key, int variant, const DArgs & a) { ShIS::enqueue(q, key, variant, a); }
	template <typename Add> static void make(const LSpec & sp, Add && add) { makePlainOrCond(sp, add); }
};
struct ShII // void(int &, int)
{
	typedef void Sig(int &, int);
	template <typename D> static void dispatch(D & d, int key, int variant, DArgs & io) {
		int v = io.i0; int p = io.i1;
		if(variant == 2) d.dispatch(key, v, int(p));
		else d.dispatch(key, v, p);
		io.i0 = v; io.i1 = p;
	}
	template <typename Q> static void enqueue(Q & q, int key, int variant, const DArgs & a) {
		if(variant == 2) q.enqueue(key, int(a.i0), int(a.i1));
		else { int v = a.i0; int p = a.i1; q.enqueue(key, v, p); }
	}
	template <typename Add> static void make(const LSpec & sp, Add && add) { add(TCallback(sp.cbid)); }
};

// ------------------------------------------------------------------ the real object behind one interface
struct IObj
{
	virtual ~IObj() {}
	virtual void addFilter(int uid, int shape) = 0;
	virtual bool removeFilter(int uid) = 0;
	virtual void addListener(int uid, int how, int key, const LSpec & sp, int beforeUid) = 0; // how: 0 append, 1 prepend, 2 insert
	virtual bool removeListener(int key, int uid) = 0;
	virtual void dispatch(int key, int shape, int variant, DArgs & io) = 0; // io: values in, the caller's variables out
	virtual void enqueue(int, int, const DArgs &) {}
	virtual bool process(int) { return false; } // 0 process, 1 processOne, 2 processIf(args...), 3 processIf()
};

template <typename O, bool HasFilter> struct FilterHandleOf { typedef typename O::FilterHandle type; };
template <typename O> struct FilterHandleOf<O, false> { typedef int type; };

template <typename Obj, typename SH, bool HasFilter, bool IsQueue>
struct HomoObj : IObj
{
	Obj o;
	std::vector<typename Obj::Handle> lh;
	std::vector<typename FilterHandleOf<Obj, HasFilter>::type> fh;

	void addFilter(int uid, int) override {
		if((int)fh.size() <= uid) fh.resize((size_t)uid + 1);
		if constexpr(HasFilter) fh[(size_t)uid] = o.appendFilter(TFilter(uid));
	}
	bool removeFilter(int uid) override {
		if constexpr(HasFilter) return o.removeFilter(fh[(size_t)uid]);
		else { (void)uid; return false; }
	}
	void addListener(int uid, int how, int key, const LSpec & sp, int beforeUid) override {
		if((int)lh.size() <= uid) lh.resize((size_t)uid + 1);
		typename Obj::Handle before;
		if(beforeUid >= 0) before = lh[(size_t)beforeUid];
		typename Obj::Handle h;
		auto add = [&](const typename Obj::Callback & cb) {
			if(how == 0) h = o.appendListener(key, cb);
			else if(how == 1) h = o.prependListener(key, cb);
			else h = o.insertListener(key, cb, before);
		};
		SH::make(sp, add);
		lh[(size_t)uid] = h;
	}
	bool removeListener(int key, int uid) override { return o.removeListener(key, lh[(size_t)uid]); }
	void dispatch(int key, int, int variant, DArgs & io) override { SH::dispatch(o, key, variant, io); }
	void enqueue(int key, int variant, const DArgs & a) override { if constexpr(IsQueue) SH::enqueue(o, key, variant, a); else { (void)key; (void)variant; (void)a; } }
	bool process(int how) override {
		if constexpr(IsQueue) {
			switch(how) {
			case 0: return o.process();
			case 1: return o.processOne();
			case 2: return o.processIf(PredArgs());
			default: return o.processIf(PredNoArgs());
			}
		}
		else { (void)how; return false; }
	}
};

// CallbackList<void(int&, int), canContinueInvoking policy>: no keys, no filters
struct CCListObj : IObj
{
	typedef eventpp::CallbackList<void(int &, int), PolCCa> L;
	L l;
	std::vector<L::Handle> lh;
	void addFilter(int, int) override {}
	bool removeFilter(int) override { return false; }
	void addListener(int uid, int how, int, const LSpec & sp, int beforeUid) override {
		if((int)lh.size() <= uid) lh.resize((size_t)uid + 1);
		L::Handle before;
		if(beforeUid >= 0) before = lh[(size_t)beforeUid];
		TCallback cb(sp.cbid);
		lh[(size_t)uid] = how == 0 ? l.append(cb) : how == 1 ? l.prepend(cb) : l.insert(cb, before);
	}
	bool removeListener(int, int uid) override { return l.remove(lh[(size_t)uid]); }
	void dispatch(int, int, int variant, DArgs & io) override {
		int v = io.i0; int p = io.i1;
		if(variant == 2) l(v, int(p)); else l(v, p);
		io.i0 = v;
	}
};

// two callback lists for the wrappers: key 0 = void(int), key 1 = void(shared_ptr<VBase>, int)
struct WrapListsObj : IObj
{
	typedef eventpp::CallbackList<void(int)> L0;
	typedef eventpp::CallbackList<void(std::shared_ptr<VBase>, int), PolSingle> L1;
	L0 l0; L1 l1;
	std::vector<L0::Handle> h0;
	std::vector<L1::Handle> h1;
	void addFilter(int, int) override {}
	bool removeFilter(int) override { return false; }
	void addListener(int uid, int how, int key, const LSpec & sp, int beforeUid) override {
		if((int)h0.size() <= uid) { h0.resize((size_t)uid + 1); h1.resize((size_t)uid + 1); }
		if(key == 0) {
			L0::Handle before; if(beforeUid >= 0) before = h0[(size_t)beforeUid];
			L0::Handle h;
			auto add = [&](const L0::Callback & cb) { h = how == 0 ? l0.append(cb) : how == 1 ? l0.prepend(cb) : l0.insert(cb, before); };
			if(sp.kind == LK_PLAIN || sp.kind == LK_COND) makePlainOrCond(sp, add);
			else switch(sp.akind) {
				case A_CHAR: addAdapted<void(char)>(sp, add); break;
				case A_SCHAR: addAdapted<void(signed char)>(sp, add); break;
				case A_UCHAR: addAdapted<void(unsigned char)>(sp, add); break;
				case A_SHORT: addAdapted<void(short)>(sp, add); break;
				case A_UINT: addAdapted<void(unsigned)>(sp, add); break;
				case A_LLONG: addAdapted<void(long long)>(sp, add); break;
				case A_BOOL: addAdapted<void(bool)>(sp, add); break;
				case A_DOUBLE: addAdapted<void(double)>(sp, add); break;
				default: addAdapted<void(long)>(sp, add); break;
			}
			h0[(size_t)uid] = h;
		}
		else {
			L1::Handle before; if(beforeUid >= 0) before = h1[(size_t)beforeUid];
			L1::Handle h;
			auto add = [&](const L1::Callback & cb) { h = how == 0 ? l1.append(cb) : how == 1 ? l1.prepend(cb) : l1.insert(cb, before); };
			if(sp.kind == LK_PLAIN || sp.kind == LK_COND) makePlainOrCond(sp, add);
			else addAdapted<void(std::shared_ptr<VDerived>, long)>(sp, add);
			h1[(size_t)uid] = h;
		}
	}
	bool removeListener(int key, int uid) override { return key == 0 ? l0.remove(h0[(size_t)uid]) : l1.remove(h1[(size_t)uid]); }
	void dispatch(int key, int, int variant, DArgs & io) override {
		if(key == 0) { int v = io.i0; if(variant == 2) l0(int(v)); else l0(v); }
		else { int v = io.i0; l1(io.objp, v); }
	}
};

// HeterEventDispatcher with MixinHeterFilter, prototypes void(int) [SH_I] and void(std::string, int) [SH_SI]
struct HeterObj : IObj
{
	typedef eventpp::HeterEventDispatcher<int, eventpp::HeterTuple<void(int), void(std::string, int)>, PolHF> D;
	D o;
	std::vector<D::Handle> lh;
	std::vector<D::FilterHandle> fh;
	void addFilter(int uid, int shape) override {
		if((int)fh.size() <= uid) fh.resize((size_t)uid + 1);
		if(shape == SH_I) fh[(size_t)uid] = o.appendFilter(HFilterA{ TFilter(uid) });
		else fh[(size_t)uid] = o.appendFilter(HFilterB{ TFilter(uid) });
	}
	bool removeFilter(int uid) override { return o.removeFilter(fh[(size_t)uid]); }
	template <typename C> D::Handle add(int how, int key, const C & cb, int beforeUid) {
		if(how == 0) return o.appendListener(key, cb);
		if(how == 1) return o.prependListener(key, cb);
		return o.insertListener(key, cb, lh[(size_t)beforeUid]);
	}
	void addListener(int uid, int how, int key, const LSpec & sp, int beforeUid) override {
		if((int)lh.size() <= uid) lh.resize((size_t)uid + 1);
		if(how == 2 && beforeUid < 0) how = 0;
		D::Handle h;
		if(sp.shape == SH_I) h = add(how, key, HLisA{ TCallback(sp.cbid) }, beforeUid);
		else h = add(how, key, HLisB{ TCallback(sp.cbid) }, beforeUid);
		lh[(size_t)uid] = h;
	}
	bool removeListener(int key, int uid) override { return o.removeListener(key, lh[(size_t)uid]); }
	void dispatch(int key, int shape, int variant, DArgs & io) override {
		int v = io.i0; std::string s = io.s;
		if(shape == SH_I) { if(variant == 2) o.dispatch(key, int(v)); else o.dispatch(key, v); }
		else {
			if(variant == 2) o.dispatch(key, std::string(s), int(v));
			else if(variant == 1) o.dispatch(key, std::string(s), v);
			else o.dispatch(key, s, v);
		}
		io.i0 = v; io.s = s;
	}
};

// ------------------------------------------------------------------ configurations
struct Caps
{
	const char * name;
	int shape;          // the prototype's shape, or -1: depends on the key / per dispatch
	bool hasFilters, isQueue, hasCC, intByRef, strMutable, veto, heter, wrapLists, explicitOnly, wideInts, eventArgForm;
	unsigned kinds;     // bit per LKind
	int nkeysMin, nkeysMax;
	int cls;            // non-triviality class: 0 filters, 1 filters + queue, 2 canContinue, 3 canContinue + queue, 4 wrappers
};
enum { KB_P = 1u << LK_PLAIN, KB_C = 1u << LK_COND, KB_A = 1u << LK_ADAPT, KB_CA = 1u << LK_COND_ADAPT };
static const Caps kCaps[] = {
	/* 0*/ { "EventDispatcher<int,void(int,std::string)> MixinList<MixinFilter>", SH_IS, true, false, false, false, true, false, false, false, false, false, true, KB_P | KB_C, 1, 3, 0 },
	/* 1*/ { "EventDispatcher<int,void(int&,const std::string&)> MixinList<MixinFilter>", SH_IS, true, false, false, true, false, false, false, false, false, false, true, KB_P | KB_C, 1, 3, 0 },
	/* 2*/ { "EventQueue<int,void(int,std::string)> MixinList<MixinFilter>", SH_IS, true, true, false, false, true, false, false, false, false, false, true, KB_P | KB_C, 1, 3, 1 },
	/* 3*/ { "EventDispatcher<int,void(int,std::string)> MixinList<MixinFilter,MixinVeto>", SH_IS, true, false, false, false, true, true, false, false, false, false, true, KB_P, 1, 3, 0 },
	/* 4*/ { "EventQueue<int,void(int&,const std::string&)> MixinList<MixinVeto,MixinFilter>", SH_IS, true, true, false, true, false, true, false, false, true, false, true, KB_P, 1, 3, 1 },
	/* 5*/ { "HeterEventDispatcher<int,HeterTuple<void(int),void(std::string,int)>> MixinList<MixinHeterFilter>", -1, true, false, false, false, true, false, true, false, false, false, false, KB_P, 1, 3, 0 },
	/* 6*/ { "CallbackList<void(int&,int)> canContinueInvoking(int&,int)", SH_II, false, false, true, true, false, false, false, false, false, false, false, KB_P, 1, 1, 2 },
	/* 7*/ { "EventDispatcher<int,void(int&,int)> canContinueInvoking(const int&,const int&) + MixinFilter", SH_II, true, false, true, true, false, false, false, false, false, false, false, KB_P, 1, 3, 2 },
	/* 8*/ { "EventQueue<int,void(int&,int)> template canContinueInvoking(A&&...)", SH_II, false, true, true, true, false, false, false, false, false, false, false, KB_P, 1, 3, 3 },
	/* 9*/ { "EventDispatcher<int,void(int,std::string)> MixinFilter + conditionalFunctor/argumentAdapter listeners", SH_IS, true, false, false, false, true, false, false, false, false, true, true, KB_P | KB_C | KB_A | KB_CA, 1, 2, 4 },
	/*10*/ { "CallbackList<void(int)> and CallbackList<void(shared_ptr<Base>,int)> with conditionalFunctor/argumentAdapter listeners", -1, false, false, false, false, false, false, false, true, false, true, false, KB_P | KB_C | KB_A | KB_CA, 2, 2, 4 },
	/*11*/ { "EventDispatcher<int,void(int,std::string)> MixinList<MixinPassive,MixinFilter>", SH_IS, true, false, false, false, true, false, false, false, false, false, true, KB_P, 1, 3, 0 },
	/*12*/ { "EventQueue<int,void(int,std::string)> MixinList<MixinFilter,MixinPassive>", SH_IS, true, true, false, false, true, false, false, false, false, false, true, KB_P, 1, 3, 1 },
};
enum { NCFG = 13 };

// expected argument kinds of a filter call, per configuration and shape
static std::string expectedFilterKinds(int cfg, int shape)
{
	if(shape == SH_I) return "M";
	if(cfg == 1 || cfg == 4) return "MC"; // int& stays int&, const std::string& stays const std::string&
	return "MM";
}

