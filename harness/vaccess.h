// vaccess.h - eventpp_verif::Access: the friend granted by EVENTPP_VERIF_FRIEND.
// Read-only walkers of the real data structures (+ the C19 counter setter).
#ifndef VF_VACCESS_H
#define VF_VACCESS_H

#include "vledger.h"
#include <functional>
#include <string>
#include <vector>

namespace vf {

template <typename Sig>
inline int cbIdOf(const std::function<Sig> & f)
{
	const TCallback * t = f.template target<TCallback>();
	return t ? t->id() : -1;
}
inline int cbIdOf(const TCallback & t) { return t.id(); }
// address of the TCallback stored in a callback object
template <typename Sig> inline const void * cbAddrOf(const std::function<Sig> & f) { return f.template target<TCallback>(); }
inline const void * cbAddrOf(const TCallback & t) { return &t; }

struct NodeView { int cbid; unsigned counter; const void * addr; };

} // namespace vf

namespace eventpp_verif {

struct Access
{
	// ---- CallbackList
	template <typename L>
	static unsigned counter(const L & l) { return (unsigned)l.currentCounter.load(); }

	template <typename L>
	static void setCounter(L & l, unsigned v) { l.currentCounter.store(v); }

	// Walk head..tail, checking the invariants traversal relies on. Returns "" or a description.
	template <typename L>
	static std::string walk(const L & l, std::vector<vf::NodeView> & out)
	{
		out.clear();
		auto node = l.head;
		if(! node) {
			if(l.tail) return "head is null but tail is not";
			return "";
		}
		if(! l.tail) return "tail is null but head is not";
		if(node->previous) return "head->previous is not null";
		const unsigned cur = (unsigned)l.currentCounter.load();
		size_t guard = 0;
		while(node) {
			if(++guard > 100000) return "cycle in next chain";
			vf::NodeView v;
			v.cbid = vf::cbIdOf(node->callback);
			v.counter = (unsigned)node->counter;
			v.addr = node.get();
			out.push_back(v);
			if(node->counter == 0) return "linked node carries the removed marker (generation 0)";
			if((unsigned)node->counter > cur) return "linked node's generation exceeds the list's";
			if(node->next) {
				if(node->next->previous != node) return "n->next->previous != n";
			}
			else {
				if(l.tail != node) return "last node is not tail";
			}
			node = node->next;
		}
		return "";
	}

	// is `addr` the TCallback stored in one of the linked nodes of l?
	template <typename L>
	static bool holdsCallbackObject(const L & l, const void * addr)
	{
		auto node = l.head;
		int guard = 0;
		while(node && ++guard < 100000) { if(vf::cbAddrOf(node->callback) == addr) return true; node = node->next; }
		return false;
	}

	// ---- dispatcher: find the list of a key without creating it (nullptr if absent)
	template <typename D, typename K>
	static auto findList(D & d, const K & k) -> decltype(&d.eventCallbackListMap.find(k)->second)
	{
		auto it = d.eventCallbackListMap.find(k);
		if(it == d.eventCallbackListMap.end()) return nullptr;
		return &it->second;
	}
	template <typename D>
	static size_t mapSize(const D & d) { return d.eventCallbackListMap.size(); }

	// ---- queues
	template <typename Q> static size_t queueSize(const Q & q) { size_t n = 0; for(auto it = q.queueList.begin(); it != q.queueList.end(); ++it) ++n; return n; }
	template <typename Q> static size_t freeSize(const Q & q) { size_t n = 0; for(auto it = q.freeList.begin(); it != q.freeList.end(); ++it) ++n; return n; }
	template <typename Q> static int emptyCounter(const Q & q) { return (int)q.queueEmptyCounter.load(); }
	template <typename Q> static int notifyCounter(const Q & q) { return (int)q.queueNotifyCounter.load(); }
	// "" or a description: every free-list slot must be empty, every queue-list slot occupied
	template <typename Q>
	static std::string checkSlots(const Q & q)
	{
		for(auto it = q.freeList.begin(); it != q.freeList.end(); ++it) if(! it->empty()) return "free-list slot still holds an object";
		for(auto it = q.queueList.begin(); it != q.queueList.end(); ++it) if(it->empty()) return "queue-list slot is empty";
		return "";
	}

	// visit the pending events (front to back) without consuming them
	template <typename Q, typename F> static void forEachQueued(const Q & q, F f) { for(auto it = q.queueList.begin(); it != q.queueList.end(); ++it) f(it->get()); }

	// the queue's condition variable (an injected MonCV in the concurrent drivers)
	template <typename Q> static auto cv(const Q & q) -> decltype((q.queueListConditionVariable)) { return q.queueListConditionVariable; }

	// ---- scoped remover
	template <typename R> static size_t removerItems(const R & r) { return r.itemList.size(); }
};

} // namespace eventpp_verif

#endif
