// vlistshim.cpp - instrumented copies of the std::list node primitives (TSan builds only).
// libstdc++.so is not instrumented, so ThreadSanitizer does not see splice/swap/hook/unhook on the queue lists.
// Defining the five primitives in the (instrumented) executable pre-empts the shared library's definitions.
#include <list>

namespace std {
namespace __detail {

void _List_node_base::swap(_List_node_base & __x, _List_node_base & __y) _GLIBCXX_USE_NOEXCEPT
{
	if(__x._M_next != &__x) {
		if(__y._M_next != &__y) {
			// Both __x and __y are not empty.
			std::swap(__x._M_next, __y._M_next);
			std::swap(__x._M_prev, __y._M_prev);
			__x._M_next->_M_prev = __x._M_prev->_M_next = &__x;
			__y._M_next->_M_prev = __y._M_prev->_M_next = &__y;
		}
		else {
			// __x is not empty, __y is empty.
			__y._M_next = __x._M_next;
			__y._M_prev = __x._M_prev;
			__y._M_next->_M_prev = __y._M_prev->_M_next = &__y;
			__x._M_next = __x._M_prev = &__x;
		}
	}
	else if(__y._M_next != &__y) {
		// __x is empty, __y is not empty.
		__x._M_next = __y._M_next;
		__x._M_prev = __y._M_prev;
		__x._M_next->_M_prev = __x._M_prev->_M_next = &__x;
		__y._M_next = __y._M_prev = &__y;
	}
}

void _List_node_base::_M_transfer(_List_node_base * const __first, _List_node_base * const __last) _GLIBCXX_USE_NOEXCEPT
{
	if(this != __last) {
		// Remove [first, last) from its old position.
		__last->_M_prev->_M_next = this;
		__first->_M_prev->_M_next = __last;
		this->_M_prev->_M_next = __first;

		// Splice [first, last) into its new position.
		_List_node_base * const __tmp = this->_M_prev;
		this->_M_prev = __last->_M_prev;
		__last->_M_prev = __first->_M_prev;
		__first->_M_prev = __tmp;
	}
}

void _List_node_base::_M_reverse() _GLIBCXX_USE_NOEXCEPT
{
	_List_node_base * __tmp = this;
	do {
		std::swap(__tmp->_M_next, __tmp->_M_prev);
		// Old next node is now prev.
		__tmp = __tmp->_M_prev;
	} while(__tmp != this);
}

void _List_node_base::_M_hook(_List_node_base * const __position) _GLIBCXX_USE_NOEXCEPT
{
	this->_M_next = __position;
	this->_M_prev = __position->_M_prev;
	__position->_M_prev->_M_next = this;
	__position->_M_prev = this;
}

void _List_node_base::_M_unhook() _GLIBCXX_USE_NOEXCEPT
{
	_List_node_base * const __next_node = this->_M_next;
	_List_node_base * const __prev_node = this->_M_prev;
	__prev_node->_M_next = __next_node;
	__next_node->_M_prev = __prev_node;
}

} // namespace __detail
} // namespace std
