// drv_copyheter.cpp - online monitor of property C10 for the HETEROGENEOUS containers and for containers carrying
// FILTERS (the homogeneous CallbackList / EventDispatcher / EventQueue without mixins are covered by drv_cblist,
// drv_dispatch and drv_queue in mode c10).  C++17 (variants asan17 / clang-asan17 / plain17).
//
// Object kinds (case n runs configuration n % 6; --opt cfg=N forces one):
//   0 HCL   HeterCallbackList<HeterTuple<void(int), void(const std::string&,int), void(TPayload)>>
//   1 HED   HeterEventDispatcher<int, same prototypes>
//   2 HEQ   HeterEventQueue<int, same prototypes>                         (no swap)
//   3 EDF   EventDispatcher<int, void(int,std::string)> + MixinFilter
//   4 EQF   EventQueue<int, void(int,std::string)> + MixinFilter          (no swap)
//   5 HEDF  HeterEventDispatcher<int, HeterTuple<void(int), void(std::string,int)>> + MixinHeterFilter
//
// One control flow.  A pool of 2-3 objects of the kind lives in raw aligned storage that is pre-filled with a byte
// pattern (0x00 0xFF 0xA5 0x5C or bytes from ONE rng draw) before every placement-new.  Every pool member has its own
// model: one M-list per (event key, prototype) [model_list.h], one filter chain per prototype, the FIFO of pending
// events.  Operations are generated online from the models: listener append/prepend/insert/remove, filter
// append/remove, direct invoke/dispatch, enqueue/process/processOne/emptyQueue/waitFor(0)/clearEvents, and the
// structural operations copy-construct, copy-assign (also from itself), move-construct, move-assign, swap (member and
// ADL, also with itself), destroy + re-create.  Listeners and filters are counted functors (TCallback / TFilter): every
// call is checked at once against the model (which one, order, argument values after the filters' modifications,
// blocked dispatches) and may issue nested listener changes (snapshot rules of M-list).
// After every structural operation BOTH objects involved are fully checked (every key x prototype is enumerated and
// triggered; queues: emptyQueue, enqueue -> not empty -> process dispatches -> empty), then the histories continue on
// all pool members.  A moved-from source is only promised to be valid: its content is never looked at; in half of the
// moves a listener (and a filter) is appended to it - operations without precondition, which a valid object accepts and
// which must never show up in the destination - and then it is destroyed and re-created at once.
//
// What is NOT asserted (the statement is silent): where the FILTERS are after a move or a swap ("moving transfers the
// listeners", "swap exchanges them").  They are read back (a probe dispatch with the filters in neutral recording
// mode) and the model is resynchronised; the counters move.filters.* / swap.filters.* say what the library did.
// Events pending in the DESTINATION of an assignment: the destination is emptied with clearEvents first.
//
// modes (--mode): c10 (default) | flat (no nested operations) | long (3-4x longer histories)
// options (--opt): cfg=N, noprefill=1 (memcheck runs: leave the storage undefined), live=1 (print the op log at once)
// build: one binary compiles in ~53 s (g++ -O1 ASan+UBSan) / ~34 s (clang++); -DVF_CFG_MASK=0x07 and 0x38 give two
// binaries of ~37 s each (a configuration that is masked out is not counted as a case that ran).
//
// non-trivial case: >= 1 copy (construct or assign from another object), >= 1 move, >= 1 swap of two different objects
// (kinds that have swap) and, after a structural operation, >= 1 change (listener or filter added/removed) of one of
// the two objects involved followed by a trigger of the same key/prototype of the other one.
#include "vcommon.h"
#include "vledger.h"
#include "vaccess.h"
#include "model_list.h"

#include <eventpp/hetercallbacklist.h>
#include <eventpp/hetereventdispatcher.h>
#include <eventpp/hetereventqueue.h>
#include <eventpp/eventdispatcher.h>
#include <eventpp/eventqueue.h>
#include <eventpp/mixins/mixinfilter.h>
#include <eventpp/mixins/mixinheterfilter.h>

#include <chrono>
#include <deque>
#include <set>

using namespace vf;

// ------------------------------------------------------------------ scripted functors
enum { FILTER_ID_BASE = 20000 };

struct FilterSink
{
	virtual bool onFilter(int fid, const ArgPack & args, MutInts & mut) = 0;
	virtual ~FilterSink() {}
};
static FilterSink * gFilterSink = nullptr;

struct TFilter
{
	Counted<K_CB> c;
	explicit TFilter(int fid) : c(FILTER_ID_BASE + fid) {}
	template <typename ...A>
	bool operator() (A && ...a) const {
		if(! c.checkLive("filter-invoke-after-destruction")) return true;
		ArgPack p;
		packArgs(p, a...);
		MutInts m;
		collectMut(m, std::forward<A>(a)...);
		return gFilterSink ? gFilterSink->onFilter(c.id - FILTER_ID_BASE, p, m) : true;
	}
};
// fixed signatures: the heterogeneous containers route a callable by the first prototype it can be invoked with
struct LA { TCallback cb; void operator() (int v) const { cb(v); } };
struct LB { TCallback cb; void operator() (const std::string & s, int v) const { cb(s, v); } };
struct LC { TCallback cb; void operator() (const TPayload & p) const { cb(p); } };
struct LIS { TCallback cb; void operator() (int v, const std::string & s) const { cb(v, s); } };
struct HFilterA { TFilter f; bool operator() (int & v) const { return f(v); } };
struct HFilterB { TFilter f; bool operator() (std::string & s, int & v) const { return f(s, v); } };

template <typename Fn, typename Sig> static void tryTarget(const std::function<Sig> & f, int & out) { const Fn * t = f.template target<Fn>(); if(t) out = t->cb.id(); }
template <typename Sig> static int idOfFn(const std::function<Sig> & f)
{
	int r = -1;
	tryTarget<LA>(f, r); tryTarget<LB>(f, r); tryTarget<LC>(f, r); tryTarget<LIS>(f, r);
	return r;
}

// ------------------------------------------------------------------ kinds
enum { MAXD = 3, MAXP = 3, MAXK = 3 };
enum { SH_HET3 = 0, SH_IS = 1, SH_HF = 2 };
enum { CT_LIST = 0, CT_DISP = 1, CT_QUEUE = 2 };
static const int kKeys[MAXK] = { 3, -7, 1 << 20 };

struct Caps { const char * tag; const char * name; int cont, shape, filt; bool hasSwap; int NK, NP; };

typedef eventpp::HeterTuple<void(int), void(const std::string &, int), void(TPayload)> PL3;
typedef eventpp::HeterTuple<void(int), void(std::string, int)> PL2;
struct PolF { typedef eventpp::MixinList<eventpp::MixinFilter> Mixins; };
struct PolHF { typedef eventpp::MixinList<eventpp::MixinHeterFilter> Mixins; };

static const Caps kCaps[] = {
	{ "HCL", "HeterCallbackList<HeterTuple<void(int),void(const std::string&,int),void(TPayload)>>", CT_LIST, SH_HET3, 0, true, 1, 3 },
	{ "HED", "HeterEventDispatcher<int,HeterTuple<void(int),void(const std::string&,int),void(TPayload)>>", CT_DISP, SH_HET3, 0, true, 3, 3 },
	{ "HEQ", "HeterEventQueue<int,HeterTuple<void(int),void(const std::string&,int),void(TPayload)>>", CT_QUEUE, SH_HET3, 0, false, 3, 3 },
	{ "EDF", "EventDispatcher<int,void(int,std::string)> MixinList<MixinFilter>", CT_DISP, SH_IS, 1, true, 3, 1 },
	{ "EQF", "EventQueue<int,void(int,std::string)> MixinList<MixinFilter>", CT_QUEUE, SH_IS, 1, false, 3, 1 },
	{ "HEDF", "HeterEventDispatcher<int,HeterTuple<void(int),void(std::string,int)>> MixinList<MixinHeterFilter>", CT_DISP, SH_HF, 2, true, 3, 2 },
};
enum { NCFG = 6 };

// ------------------------------------------------------------------ events, filters: pure model functions
struct Ev { int k, p, v, sid, eid; };
struct MF { int fid, hid; }; // hid: index of the filter's handle in the pool's table, -1 = unknown (copied filter)
typedef std::vector<MF> Chain;
typedef std::vector<Chain> FChains; // per prototype

static std::string strOf(int sid) { return "s" + num(sid) + std::string((size_t)(sid % 37), 'q'); }
static int fDelta(int fid) { return (fid / 3) % 3; }
static bool fBlocks(int fid, int v) { return fid % 3 == 0 && v % 4 == 0; }

static void expectArgs(int shape, const Ev & e, int v, ArgPack & p)
{
	if(shape == SH_IS) { p.push(v); p.push(fpOf(strOf(e.sid))); }
	else if(e.p == 0) p.push(v);
	else if(e.p == 1) { p.push(fpOf(strOf(e.sid))); p.push(v); }
	else p.push(e.eid);
}
static bool samePack(const ArgPack & a, const ArgPack & b)
{
	if(a.n != b.n) return false;
	for(int i = 0; i < a.n; ++i) if(a.fp[i] != b.fp[i]) return false;
	return true;
}
static bool sameFids(const FChains & a, const FChains & b)
{
	if(a.size() != b.size()) return false;
	for(size_t p = 0; p < a.size(); ++p) {
		if(a[p].size() != b[p].size()) return false;
		for(size_t i = 0; i < a[p].size(); ++i) if(a[p][i].fid != b[p][i].fid) return false;
	}
	return true;
}
static bool sameHids(const FChains & a, const FChains & b)
{
	for(size_t p = 0; p < a.size(); ++p) for(size_t i = 0; i < a[p].size(); ++i) if(a[p][i].hid != b[p][i].hid) return false;
	return true;
}
static size_t chainTotal(const FChains & c) { size_t n = 0; for(size_t p = 0; p < c.size(); ++p) n += c[p].size(); return n; }

// ------------------------------------------------------------------ modes
struct CMode { int pAct, minOps, maxOps; bool live; };
static CMode modeOf(const std::string & m)
{
	CMode r; r.pAct = 25; r.minOps = 40; r.maxOps = 110;
	if(m == "flat") r.pAct = 0;
	else if(m == "long") { r.minOps = 150; r.maxOps = 400; }
	r.live = ctx().optInt("live", 0) != 0;
	return r;
}
static const unsigned char kPrefill[4] = { 0x00, 0xFF, 0xA5, 0x5C };
static const char * kPrefillName[5] = { "prefill.0x00", "prefill.0xFF", "prefill.0xA5", "prefill.0x5C", "prefill.random" };

// ------------------------------------------------------------------ the world: models, generator, oracle (not a template)
enum { NE_NONE = 0, NE_FILTER = 1, NE_LISTENER = 2 };
enum { OR_FRESH = 0, OR_COPY, OR_MOVED, OR_SWAPPED };
static const char * kOriginName[] = { "fresh", "copied", "moved_to", "swapped" };

struct Frame
{
	Ev ev;
	int v;            // the int argument as the filters have left it so far
	Chain fsnap;
	size_t fpos;
	bool blocked;
	ListFrame lf;
	Frame() : v(0), fpos(0), blocked(false) { ev.k = ev.p = ev.v = ev.sid = ev.eid = 0; }
};
struct Disp
{
	int d;
	std::vector<Ev> batch;
	int cursor;
	bool open, learn;
	Frame f;
	Disp() : d(0), cursor(-1), open(false), learn(false) {}
};
struct DM
{
	ListModel lm;
	FChains filters;
	std::deque<Ev> pending;
	unsigned linked;
	std::set<int> due;   // (key, prototype) lists changed in a partner since this object was last triggered there
	int origin;
	DM() : linked(0), origin(OR_FRESH) {}
};

struct WorldBase : CallbackSink, FilterSink
{
	const int cfg;
	const Caps caps;
	const int NK, NP;
	CMode mode;
	Rng & rng;
	int nd;
	DM dm[MAXD];
	std::deque<Disp> stack; // push/pop at the back never invalidates the other elements
	int nextCb, nextFid, nextEid, budget;
	bool dead, noNest;
	Fnv trace;
	const char * curWhy;
	std::vector<int> learnBuf;
	// enumeration in progress
	int enumD, enumCk;
	size_t enumPos;
	bool enumActive, enumBad, enumHandleBad, enumHarvest;
	// per-case evidence for the non-triviality rule
	int nCopy, nMove, nSwap, nProbe;

	// ---- the library side (Pool<...>)
	virtual void vCreate(int d, unsigned pat) = 0;
	virtual void vDestroy(int d) = 0;
	virtual void vCopyCtor(int a, int b, unsigned pat) = 0;
	virtual void vCopyAssign(int a, int b) = 0;
	virtual void vMoveCtor(int a, int b, unsigned pat) = 0;
	virtual void vMoveAssign(int a, int b) = 0;
	virtual void vSwap(int a, int b, bool adl) = 0;
	virtual void vHandlesClear(int d) = 0;
	virtual void vHandlesMove(int a, int b) = 0;
	virtual void vHandlesSwap(int a, int b) = 0;
	virtual bool vAdd(int d, int k, int p, int cbid, int how, int beforeUid, int uid) = 0;
	virtual bool vRemove(int d, int k, int p, int uid) = 0;
	virtual void vEnum(int d, int k, int p) = 0;
	virtual bool vHasAny(int d, int k) = 0;
	virtual void vTrigger(int d, const Ev & e, int form) = 0;
	virtual void vEnqueue(int d, const Ev & e, int form) = 0;
	virtual bool vProcess(int d, bool one) = 0;
	virtual bool vEmptyQueue(int d) = 0;
	virtual bool vWaitFor0(int d) = 0;
	virtual void vClearEvents(int d) = 0;
	virtual int vAddFilter(int d, int p, int fid) = 0;
	virtual bool vRemoveFilter(int d, int hid) = 0;

	WorldBase(int cfg_, const CMode & m, Rng & r) : cfg(cfg_), caps(kCaps[cfg_]), NK(kCaps[cfg_].NK), NP(kCaps[cfg_].NP), mode(m), rng(r), nd(2),
		nextCb(0), nextFid(0), nextEid(0), budget(0), dead(false), noNest(false), curWhy("history"),
		enumD(0), enumCk(0), enumPos(0), enumActive(false), enumBad(false), enumHandleBad(false), enumHarvest(false),
		nCopy(0), nMove(0), nSwap(0), nProbe(0)
	{
		for(int i = 0; i < MAXD; ++i) dm[i].filters.assign((size_t)NP, Chain());
	}

	bool isQueue() const { return caps.cont == CT_QUEUE; }
	static int ck(int k, int p) { return k * MAXP + p; }
	std::string pre() const { return "[" + num((long long)stack.size()) + "] "; }
	void log(const std::string & s) { oplog(pre() + s); trace.add(s); if(mode.live) fprintf(stderr, "  | %s%s\n", pre().c_str(), s.c_str()); }
	void fail(const std::string & key0, const std::string & desc) {
		const std::string key = std::string(caps.tag) + ":" + key0 + ":" + curWhy;
		violation(key, desc);
		oplog(pre() + "!! " + key + " :: " + desc);
		if(mode.live) fprintf(stderr, "  | !! %s :: %s\n", key.c_str(), desc.c_str());
		dead = true;
	}
	std::string kp(int k, int p) const { return (caps.cont == CT_LIST ? std::string() : "k" + num(k) + " ") + "P" + num(p); }
	std::string evStr(const Ev & e) const { return kp(e.k, e.p) + " v=" + num(e.v) + " s=" + num(e.sid) + " e=" + num(e.eid); }
	Ev mkEvent(int k, int p) { Ev e; e.k = k; e.p = p; e.v = (int)rng.below(10000); e.sid = (int)rng.below(1000); e.eid = 100 + (nextEid++ % 20000); return e; }
	bool hasPayload(const Ev & e) const { return caps.shape == SH_HET3 && e.p == 2; }

	// ---------------------------------------------------------------- independence bookkeeping
	void link(int a, int b) { if(a == b) return; dm[a].linked |= 1u << b; dm[b].linked |= 1u << a; }
	void unlink(int x) { for(int y = 0; y < MAXD; ++y) dm[y].linked &= ~(1u << x); dm[x].linked = 0; dm[x].due.clear(); }
	void mutated(int x, int k, int p) { for(int y = 0; y < nd; ++y) if((dm[x].linked >> y) & 1u) dm[y].due.insert(ck(k, p)); }
	void mutatedFilter(int x, int p) { for(int k = 0; k < NK; ++k) mutated(x, k, p); }
	void noteTriggered(int y, int k, int p) {
		if(dm[y].due.erase(ck(k, p)) > 0) { count("independence.probes"); ++nProbe; }
	}

	// ---------------------------------------------------------------- frames
	void openFrame(Disp & c, const Ev & e) {
		Frame & f = c.f;
		f.ev = e; f.v = e.v; f.fpos = 0; f.blocked = false;
		f.fsnap = c.learn ? Chain() : dm[c.d].filters[(size_t)e.p];
		f.lf = dm[c.d].lm.begin(ck(e.k, e.p));
		c.open = true;
	}
	int nextExpected(Disp & c, int & id) {
		id = -1;
		Frame & f = c.f;
		if(f.blocked) return NE_NONE;
		if(f.fpos < f.fsnap.size()) { id = f.fsnap[f.fpos].fid; return NE_FILTER; }
		const int uid = dm[c.d].lm.peekNext(f.lf);
		if(uid >= 0) { id = uid; return NE_LISTENER; }
		return NE_NONE;
	}
	// the dispatch frame an observed call belongs to: events of a batch that expect nothing (any more) are passed over
	bool locate(Disp & c) {
		for(;;) {
			if(c.open) { int id; if(nextExpected(c, id) != NE_NONE) return true; }
			if(c.cursor + 1 >= (int)c.batch.size()) return c.open;
			++c.cursor;
			openFrame(c, c.batch[(size_t)c.cursor]);
			if(c.batch.size() > 1) log("  (queued event " + evStr(c.f.ev) + " is being dispatched)");
		}
	}
	std::string expectText(Disp & c) {
		int id; const int ne = nextExpected(c, id);
		if(ne == NE_FILTER) return "filter f" + num(id);
		if(ne == NE_LISTENER) return "listener cb" + num(dm[c.d].lm.nodes[(size_t)id].cbid);
		return c.f.blocked ? "nothing more (a filter returned false)" : "nothing more";
	}
	void endDisp(Disp & c, const char * op) {
		if(dead) return;
		for(;;) {
			if(c.open) {
				int id; const int ne = nextExpected(c, id);
				if(ne == NE_FILTER) { fail(std::string(op) + ":filter-not-run", std::string(op) + " of " + evStr(c.f.ev) + " on D" + num(c.d) + " returned without running filter f" + num(id)); return; }
				if(ne == NE_LISTENER) { fail(std::string(op) + ":listener-not-called", std::string(op) + " of " + evStr(c.f.ev) + " on D" + num(c.d) + " returned without calling cb" + num(dm[c.d].lm.nodes[(size_t)id].cbid)); return; }
			}
			if(c.cursor + 1 >= (int)c.batch.size()) return;
			++c.cursor;
			openFrame(c, c.batch[(size_t)c.cursor]);
		}
	}

	// ---------------------------------------------------------------- FilterSink: a filter was really called
	bool onFilter(int fid, const ArgPack & args, MutInts & mut) override {
		if(dead) return true;
		count("filter.calls");
		if(stack.empty()) { fail("filter:called-outside-any-dispatch", "filter f" + num(fid) + args.str() + " called while no dispatch is in progress"); return true; }
		Disp & c = stack.back();
		if(c.learn) { learnBuf.push_back(fid); log("  (read back) filter f" + num(fid)); return true; }
		int id = -1;
		const int ne = locate(c) ? nextExpected(c, id) : NE_NONE;
		if(ne != NE_FILTER || id != fid) {
			std::string cls = "unknown-filter";
			bool inSnap = false, inOther = false;
			for(size_t i = 0; i < c.f.fsnap.size(); ++i) if(c.f.fsnap[i].fid == fid) inSnap = true;
			for(int y = 0; y < nd; ++y) for(size_t p = 0; p < dm[y].filters.size(); ++p) for(size_t i = 0; i < dm[y].filters[p].size(); ++i)
				if(dm[y].filters[p][i].fid == fid && (y != c.d || (int)p != c.f.ev.p)) inOther = true;
			if(c.f.blocked) cls = "ran-after-earlier-filter-returned-false";
			else if(inSnap) cls = "out-of-order-or-twice";
			else if(inOther) cls = "filter-of-another-object-or-prototype";
			else cls = "removed-or-unknown-filter";
			fail("filter:" + cls, "filter f" + num(fid) + args.str() + " ran during dispatch of " + evStr(c.f.ev) + " on D" + num(c.d) + "; model expected " + expectText(c));
			return true;
		}
		Frame & f = c.f;
		ArgPack want;
		if(caps.shape == SH_IS) { want.push(f.v); want.push(fpOf(strOf(f.ev.sid))); }
		else if(f.ev.p == 0) want.push(f.v);
		else { want.push(fpOf(strOf(f.ev.sid))); want.push(f.v); }
		if(! samePack(want, args)) { fail("filter:arguments", "filter f" + num(fid) + " received " + args.str() + ", model says " + want.str()); return true; }
		++f.fpos;
		// script: modify the int through the reference received, then decide
		if(mut.n < 1) { fail("filter:argument-not-modifiable", "filter f" + num(fid) + " did not receive a modifiable int"); return true; }
		*mut.p[0] += fDelta(fid);
		f.v += fDelta(fid);
		const bool verdict = ! fBlocks(fid, f.v);
		log("  filter f" + num(fid) + args.str() + " -> v=" + num(f.v) + (verdict ? "" : " BLOCKS"));
		if(fDelta(fid) != 0) count("filter.rewrites");
		if(! verdict) { f.blocked = true; count("filter.blocked_dispatches"); }
		return verdict;
	}

	// ---------------------------------------------------------------- CallbackSink: a listener was really called
	void onCall(int cbid, const ArgPack & args, MutInts &) override {
		if(dead) return;
		count("listener.calls");
		if(enumActive) { fail("forEach:listener-invoked-by-enumeration", "cb" + num(cbid) + " invoked during an enumeration"); return; }
		if(stack.empty()) { fail("listener:called-outside-any-dispatch", "cb" + num(cbid) + args.str() + " called while no dispatch is in progress"); return; }
		Disp & c = stack.back();
		int id = -1;
		const int ne = locate(c) ? nextExpected(c, id) : NE_NONE;
		ListModel & lm = dm[c.d].lm;
		if(ne != NE_LISTENER || lm.nodes[(size_t)id].cbid != cbid) {
			std::string cls;
			if(! c.open) cls = "no-event-to-dispatch";
			else if(c.f.blocked) cls = "ran-after-filter-returned-false";
			else if(ne == NE_FILTER) cls = "ran-before-remaining-filters";
			else {
				cls = lm.classify(c.f.lf, cbid);
				if(cls == "unknown-listener-called" || cls == "listener-of-another-event-called") {
					for(int y = 0; y < nd; ++y) if(y != c.d) for(size_t i = 0; i < dm[y].lm.nodes.size(); ++i)
						if(dm[y].lm.nodes[i].cbid == cbid && dm[y].lm.nodes[i].live && cls == "unknown-listener-called") cls = "listener-of-another-object-called";
				}
			}
			fail("dispatch:" + cls, "cb" + num(cbid) + args.str() + " called on D" + num(c.d) + (c.open ? " for " + evStr(c.f.ev) : std::string()) + "; model expected " + (c.open ? expectText(c) : std::string("no call")));
			return;
		}
		Frame & f = c.f;
		ArgPack want; expectArgs(caps.shape, f.ev, f.v, want);
		if(! samePack(want, args)) { fail("dispatch:arguments", "cb" + num(cbid) + " received " + args.str() + " for " + evStr(f.ev) + ", model says " + want.str()); return; }
		lm.consume(f.lf);
		log("  call cb" + num(cbid) + args.str());
		if(f.fsnap.size() > 0) count("listener.calls_behind_filters");
		const int d = c.d, k = f.ev.k, p = f.ev.p; // c / f may be left behind by nested dispatches: copy first
		nestedActions(d, k, p);
	}

	void nestedActions(int d, int k, int p) {
		if(noNest || mode.pAct == 0 || budget <= 0 || dead) return;
		if(! rng.chance((uint32_t)mode.pAct, 100)) return;
		const int n = 1 + (int)rng.below(2);
		for(int i = 0; i < n && budget > 0 && ! dead; ++i) {
			--budget;
			int td = d, tk = k, tp = p;
			const bool same = rng.chance(3, 4);
			if(! same) { td = (int)rng.below((uint32_t)nd); tk = (int)rng.below((uint32_t)NK); tp = (int)rng.below((uint32_t)NP); }
			const uint32_t c = rng.below(100);
			count("nested.ops");
			count((std::string("nested.ops_inside_callbacks_of_") + kOriginName[dm[d].origin] + "_object").c_str());
			if(td != d) count("nested.ops_on_another_pool_member");
			if(c < 50) doAdd(td, tk, tp);
			else if(c < 90) doRemove(td, tk, tp);
			else if(stack.size() < 2) doTrigger(td, tk, tp);
		}
	}

	// ---------------------------------------------------------------- listeners
	bool doAdd(int d, int k, int p) {
		DM & m = dm[d];
		const int key = ck(k, p);
		if(m.lm.listOf(key).size() >= 6 || m.lm.nodes.size() > 600) return false;
		const int cbid = nextCb++;
		const int how = (int)rng.below(3);
		int before = -1;
		if(how == 2) {
			const std::vector<int> & o = m.lm.listOf(key);
			const bool useLive = rng.chance(3, 4);
			if(useLive && ! o.empty()) before = o[rng.below((uint32_t)o.size())];
		}
		const bool nestedSame = ! stack.empty() && stack.back().open && stack.back().d == d && ck(stack.back().f.ev.k, stack.back().f.ev.p) == key;
		const int uid = m.lm.add(key, cbid, how, before);
		log(std::string(how == 0 ? "append" : how == 1 ? "prepend" : "insert") + " D" + num(d) + " " + kp(k, p) + " cb" + num(cbid) + (how == 2 ? " before u" + num(before) : std::string()) + " -> u" + num(uid));
		const bool ok = vAdd(d, k, p, cbid, how, before, uid);
		count(how == 0 ? "op.append" : how == 1 ? "op.prepend" : "op.insert");
		if(nestedSame) count("nested.added_to_the_list_being_invoked");
		mutated(d, k, p);
		if(! ok) fail("add:bad-handle", "listener registration returned an expired handle or one naming another prototype");
		return true;
	}
	bool doRemove(int d, int k, int p) {
		DM & m = dm[d];
		const int key = ck(k, p);
		const std::vector<int> & o = m.lm.listOf(key);
		if(o.empty()) return false;
		const int uid = o[rng.below((uint32_t)o.size())];
		if(! stack.empty() && stack.back().open && stack.back().d == d && ck(stack.back().f.ev.k, stack.back().f.ev.p) == key) {
			const ListFrame & lf = stack.back().f.lf;
			bool later = false;
			for(size_t i = lf.pos; i < lf.snap.size(); ++i) if(lf.snap[i] == uid) later = true;
			count(later ? "nested.removed_before_its_turn" : uid == lf.curUid ? "nested.removed_itself" : "nested.removed_after_its_turn_or_new");
		}
		m.lm.remove(uid);
		log("remove D" + num(d) + " " + kp(k, p) + " u" + num(uid));
		const bool got = vRemove(d, k, p, uid);
		count("op.remove");
		mutated(d, k, p);
		if(! got) fail("remove:result", "remove of live listener u" + num(uid) + " through its handle returned false");
		return true;
	}
	int enumNext(int cbid) { // called by the pool's visitor: uid the model expects at this position, -1 on mismatch
		const std::vector<int> & o = dm[enumD].lm.listOf(enumCk);
		if(enumPos >= o.size() || dm[enumD].lm.nodes[(size_t)o[enumPos]].cbid != cbid) { enumBad = true; ++enumPos; return -1; }
		return o[enumPos++];
	}
	void doEnum(int d, int k, int p, bool harvest) {
		enumD = d; enumCk = ck(k, p); enumPos = 0; enumBad = false; enumHandleBad = false; enumHarvest = harvest; enumActive = true;
		vEnum(d, k, p);
		enumActive = false;
		const size_t want = dm[d].lm.listOf(enumCk).size();
		log(std::string(harvest ? "harvest " : "forEach ") + "D" + num(d) + " " + kp(k, p) + " visited=" + num((long long)enumPos) + " model=" + num((long long)want));
		count("op.forEach");
		if(enumBad || enumPos != want) { fail("forEach:content", "enumeration of " + kp(k, p) + " on D" + num(d) + " does not show the model's listeners in order (visited " + num((long long)enumPos) + ", model " + num((long long)want) + ")"); return; }
		if(enumHandleBad) fail("forEach:handle", "enumeration of " + kp(k, p) + " on D" + num(d) + " passed a handle that is not the one the listener was registered / harvested with");
	}
	void harvestAll(int d) {
		vHandlesClear(d);
		for(int k = 0; k < NK && ! dead; ++k) for(int p = 0; p < NP && ! dead; ++p) doEnum(d, k, p, true);
	}
	void doEmptyApi(int d) {
		for(int k = 0; k < NK && ! dead; ++k) {
			bool want = false;
			for(int p = 0; p < NP; ++p) if(! dm[d].lm.listOf(ck(k, p)).empty()) want = true;
			const bool got = vHasAny(d, k);
			log(std::string(caps.cont == CT_LIST ? "!empty" : "hasAnyListener") + " D" + num(d) + " k" + num(k) + " -> " + num(got));
			count("op.hasAny");
			if(got != want) fail("hasAnyListener:result", "D" + num(d) + " reports listeners=" + num(got) + " for k" + num(k) + ", model says " + num(want));
		}
	}

	// ---------------------------------------------------------------- filters
	bool doAddFilter(int d) {
		if(! caps.filt) return false;
		const int p = (int)rng.below((uint32_t)NP);
		Chain & ch = dm[d].filters[(size_t)p];
		if(ch.size() >= 4) return false;
		MF f; f.fid = nextFid++;
		log("appendFilter D" + num(d) + " P" + num(p) + " f" + num(f.fid) + " (delta " + num(fDelta(f.fid)) + (f.fid % 3 == 0 ? ", may block" : "") + ")");
		f.hid = vAddFilter(d, p, f.fid);
		ch.push_back(f);
		count("op.appendFilter");
		mutatedFilter(d, p);
		return true;
	}
	bool doRemoveFilter(int d) {
		if(! caps.filt) return false;
		std::vector<std::pair<int, int> > cand;
		for(int p = 0; p < NP; ++p) for(size_t i = 0; i < dm[d].filters[(size_t)p].size(); ++i) if(dm[d].filters[(size_t)p][i].hid >= 0) cand.push_back(std::make_pair(p, (int)i));
		if(cand.empty()) return false;
		const std::pair<int, int> c = cand[rng.below((uint32_t)cand.size())];
		Chain & ch = dm[d].filters[(size_t)c.first];
		const MF f = ch[(size_t)c.second];
		ch.erase(ch.begin() + c.second);
		log("removeFilter D" + num(d) + " P" + num(c.first) + " f" + num(f.fid));
		const bool got = vRemoveFilter(d, f.hid);
		count("op.removeFilter");
		mutatedFilter(d, c.first);
		if(! got) fail("removeFilter:result", "removeFilter of live filter f" + num(f.fid) + " through its handle returned false");
		return true;
	}

	// ---------------------------------------------------------------- triggers
	void doTrigger(int d, int k, int p) {
		const Ev e = mkEvent(k, p);
		const int form = (int)rng.below(2);
		const size_t nl = dm[d].lm.listOf(ck(k, p)).size(), nf = dm[d].filters[(size_t)p].size();
		log(std::string(caps.cont == CT_LIST ? "invoke" : "dispatch") + " D" + num(d) + " " + evStr(e) + (form ? " temporaries" : " lvalues") + " listeners=" + num((long long)nl) + " filters=" + num((long long)nf));
		count("op.trigger");
		if(nl >= 2) count("trigger.with_2plus_listeners");
		if(nf >= 1) count("trigger.with_filters");
		Disp c; c.d = d; c.batch.push_back(e);
		stack.push_back(c);
		countMax("max_depth", stack.size());
		vTrigger(d, e, form);
		endDisp(stack.back(), caps.cont == CT_LIST ? "invoke" : "dispatch");
		stack.pop_back();
		noteTriggered(d, k, p);
	}
	// the filters of D<d> as the object itself shows them: probe dispatches with the filters in neutral recording mode
	FChains readFilters(int d) {
		FChains obs((size_t)NP);
		const bool savedNoNest = noNest;
		noNest = true;
		for(int p = 0; p < NP && ! dead; ++p) {
			const Ev e = mkEvent(0, p);
			learnBuf.clear();
			log("read back filters D" + num(d) + " P" + num(p) + ": dispatch " + evStr(e));
			Disp c; c.d = d; c.learn = true; c.batch.push_back(e);
			stack.push_back(c);
			vTrigger(d, e, 0);
			endDisp(stack.back(), "dispatch");
			stack.pop_back();
			for(size_t i = 0; i < learnBuf.size(); ++i) { MF f; f.fid = learnBuf[i]; f.hid = -1; obs[(size_t)p].push_back(f); }
		}
		noNest = savedNoNest;
		count("filters.read_back");
		return obs;
	}
	// returns the index of the candidate the object's filters match (-1: none); the model takes what was observed
	int resyncFilters(int d, const std::vector<FChains> & cands, const char * const * names, const char * why) {
		const FChains obs = readFilters(d);
		if(dead) return -1;
		int match = -1; bool ambiguous = false, distinct = false;
		for(size_t i = 0; i < cands.size(); ++i) {
			if(! sameFids(cands[i], cands[0])) distinct = true;
			if(! sameFids(cands[i], obs)) continue;
			if(match < 0) match = (int)i;
			else if(! sameHids(cands[i], cands[(size_t)match])) ambiguous = true;
		}
		if(match >= 0) {
			dm[d].filters = cands[(size_t)match];
			if(ambiguous) for(size_t p = 0; p < dm[d].filters.size(); ++p) for(size_t i = 0; i < dm[d].filters[p].size(); ++i) dm[d].filters[p][i].hid = -1;
			if(distinct) count((std::string(why) + ".filters." + names[match]).c_str());
			log("  D" + num(d) + " shows the filters " + names[match] + (ambiguous ? " (handles ambiguous)" : ""));
		}
		else {
			dm[d].filters = obs;
			count((std::string(why) + ".filters.other").c_str());
			log("  D" + num(d) + " shows a filter chain that is none of the candidates: taken as observed");
		}
		return ambiguous ? -2 : match;
	}

	// ---------------------------------------------------------------- queue operations
	void doEnqueue(int d, int k, int p) {
		const Ev e = mkEvent(k, p);
		const int form = (int)rng.below(2);
		dm[d].pending.push_back(e);
		log("enqueue D" + num(d) + " " + evStr(e) + (form ? " temporaries" : " lvalues"));
		vEnqueue(d, e, form);
		count("op.enqueue");
		countMax("max_pending", dm[d].pending.size());
	}
	void doProcess(int d, bool one) {
		Disp c; c.d = d;
		DM & m = dm[d];
		if(one) { if(! m.pending.empty()) { c.batch.push_back(m.pending.front()); m.pending.pop_front(); } }
		else { c.batch.assign(m.pending.begin(), m.pending.end()); m.pending.clear(); }
		const std::vector<Ev> batch = c.batch;
		log(std::string(one ? "processOne" : "process") + " D" + num(d) + " (" + num((long long)batch.size()) + " event(s))");
		count(one ? "op.processOne" : "op.process");
		stack.push_back(c);
		countMax("max_depth", stack.size());
		const bool r = vProcess(d, one);
		endDisp(stack.back(), "process");
		stack.pop_back();
		log("  -> " + num(r));
		if(! dead && r != ! batch.empty()) fail("process:result", "process returned " + num(r) + " with " + num((long long)batch.size()) + " event(s) pending");
		for(size_t i = 0; i < batch.size(); ++i) noteTriggered(d, batch[i].k, batch[i].p);
		if(! batch.empty()) count("process.events_dispatched", batch.size());
	}
	void doEmptyQ(int d) {
		const bool want = dm[d].pending.empty();
		const bool got = vEmptyQueue(d);
		log("emptyQueue D" + num(d) + " -> " + num(got));
		count("op.emptyQueue");
		if(got != want) { fail(std::string("emptyQueue:result:") + (want ? "nothing-pending" : "events-pending"), "emptyQueue of D" + num(d) + " returned " + num(got) + " with " + num((long long)dm[d].pending.size()) + " event(s) pending"); return; }
		const bool w = vWaitFor0(d);
		log("waitFor(0ms) D" + num(d) + " -> " + num(w));
		count("op.waitFor0");
		if(w != ! want) fail(std::string("waitFor0:result:") + (want ? "nothing-pending" : "events-pending"), "waitFor(0ms) of D" + num(d) + " returned " + num(w) + " with " + num((long long)dm[d].pending.size()) + " event(s) pending");
	}
	void doClear(int d) {
		log("clearEvents D" + num(d) + " (" + num((long long)dm[d].pending.size()) + " event(s))");
		dm[d].pending.clear();
		vClearEvents(d);
		count("op.clearEvents");
	}

	// ---------------------------------------------------------------- full check of one object
	void fullCheck(int d, const char * why, bool queueCycle) {
		if(dead) return;
		const char * savedWhy = curWhy;
		curWhy = why;
		count("full_checks");
		log("-- full check of D" + num(d) + " (" + why + ")");
		for(int k = 0; k < NK && ! dead; ++k) for(int p = 0; p < NP && ! dead; ++p) doEnum(d, k, p, false);
		if(! dead) doEmptyApi(d);
		for(int k = 0; k < NK && ! dead; ++k) for(int p = 0; p < NP && ! dead; ++p) doTrigger(d, k, p);
		if(isQueue() && ! dead) {
			doEmptyQ(d);
			if(queueCycle && ! dead) {
				const int ek = (int)rng.below((uint32_t)NK); const int ep = (int)rng.below((uint32_t)NP);
				doEnqueue(d, ek, ep);
				if(! dead) doEmptyQ(d);
				if(! dead) doProcess(d, false);
				if(! dead) doEmptyQ(d);
				count("queue_cycles");
			}
		}
		curWhy = savedWhy;
	}

	// ---------------------------------------------------------------- structural operations (top level only)
	void resetModel(int d) {
		dm[d].lm = ListModel(); dm[d].filters.assign((size_t)NP, Chain()); dm[d].pending.clear(); dm[d].origin = OR_FRESH;
		vHandlesClear(d);
		unlink(d);
	}
	void useMovedFrom(int b) {
		const int n = 1 + (int)rng.below(2);
		for(int i = 0; i < n; ++i) {
			const int k = (int)rng.below((uint32_t)NK), p = (int)rng.below((uint32_t)NP);
			const int cbid = nextCb++;
			const int uid = dm[b].lm.add(ck(k, p), cbid, 0, -1);
			log("append to the moved-from D" + num(b) + " " + kp(k, p) + " cb" + num(cbid) + " (result not looked at)");
			vAdd(b, k, p, cbid, 0, -1, uid);
		}
		if(caps.filt && rng.chance(1, 2)) {
			const int p = (int)rng.below((uint32_t)NP);
			const int fid = nextFid++;
			log("appendFilter to the moved-from D" + num(b) + " P" + num(p) + " f" + num(fid) + " (result not looked at)");
			vAddFilter(b, p, fid);
		}
		count("move.source_used_before_destruction");
	}
	void recreate(int d) {
		const unsigned pat = rng.below(5);
		vDestroy(d);
		resetModel(d);
		vCreate(d, pat);
		log("destroy + re-create D" + num(d) + " prefill=" + num(pat));
	}
	void structCount(const char * name) {
		count((std::string("structural.") + name).c_str());
		count((std::string("structural.") + name + "." + caps.tag).c_str());
	}
	int pickSource(int notThis) {
		int b = (int)rng.below((uint32_t)nd);
		const bool preferFull = rng.chance(3, 4);
		if(b == notThis) b = (b + 1) % nd;
		if(preferFull && dm[b].lm.liveCount() == 0) for(int y = 0; y < nd; ++y) if(y != notThis && dm[y].lm.liveCount() > 0) { b = y; break; }
		return b;
	}
	void copyModel(int a, int b) {
		dm[a].lm.cloneFrom(dm[b].lm);
		dm[a].filters = dm[b].filters;
		for(size_t p = 0; p < dm[a].filters.size(); ++p) for(size_t i = 0; i < dm[a].filters[p].size(); ++i) dm[a].filters[p][i].hid = -1;
		const size_t nf = chainTotal(dm[a].filters);
		if(nf) { count("copy.filters_copied", nf); count("copy.with_filters"); }
		if(dm[a].lm.liveCount()) count("copy.listeners_copied", dm[a].lm.liveCount());
		dm[a].pending.clear();
		dm[a].origin = OR_COPY;
	}
	void noteSourcePending(int b) {
		if(! isQueue()) return;
		if(! dm[b].pending.empty()) { count("copy.source_had_pending_events"); count("copy.source_pending_events", dm[b].pending.size()); }
	}
	void emptyDestination(int a) { // the statement says nothing about events pending in the destination of an assignment
		if(isQueue() && ! dm[a].pending.empty()) doClear(a);
	}
	void probeAfter(int a, int b) {
		if(dead || a == b) return;
		const bool swapRoles = rng.chance(1, 2);
		independenceProbe(swapRoles ? b : a, swapRoles ? a : b);
	}
	// change x, then trigger the same key/prototype of y (and of x)
	void independenceProbe(int x, int y) {
		std::vector<int> full;
		for(int k = 0; k < NK; ++k) for(int p = 0; p < NP; ++p) if(! dm[y].lm.listOf(ck(k, p)).empty() || ! dm[x].lm.listOf(ck(k, p)).empty()) full.push_back(ck(k, p));
		int k = (int)rng.below((uint32_t)NK), p = (int)rng.below((uint32_t)NP);
		const uint32_t pick = full.empty() ? 0 : rng.below((uint32_t)full.size());
		if(! full.empty()) { k = full[pick] / MAXP; p = full[pick] % MAXP; }
		const uint32_t c = rng.below(100);
		log("-- independence probe: change D" + num(x) + ", then trigger D" + num(y));
		count("independence.forced_probes");
		bool did = false;
		if(caps.filt && c < 20) did = doAddFilter(x);
		else if(caps.filt && c < 35) did = doRemoveFilter(x);
		if(! did && c < 70) did = doAdd(x, k, p);
		if(! did) did = doRemove(x, k, p);
		if(! did) did = doAdd(x, k, p);
		if(dead || ! did) return;
		// the filter operations choose their own prototype: trigger every list that is due
		std::vector<int> dueNow(dm[y].due.begin(), dm[y].due.end());
		int done = 0;
		for(size_t i = 0; i < dueNow.size() && ! dead && done < 3; ++i) if(dueNow[i] / MAXP == k || dueNow[i] == ck(k, p)) { doTrigger(y, dueNow[i] / MAXP, dueNow[i] % MAXP); ++done; }
		if(! dead) doTrigger(x, k, p);
	}

	enum { ST_COPY_CTOR, ST_COPY_ASSIGN, ST_SELF_ASSIGN, ST_MOVE_CTOR, ST_MOVE_ASSIGN, ST_SWAP, ST_SELF_SWAP, ST_RECREATE, ST_N };
	void doStructural(int kind) {
		if(nd < 2 || ! stack.empty() || dead) return;
		if(! caps.hasSwap && kind == ST_SWAP) kind = ST_COPY_ASSIGN;
		if(! caps.hasSwap && kind == ST_SELF_SWAP) kind = ST_SELF_ASSIGN;
		const int a = (int)rng.below((uint32_t)nd);
		const int b = pickSource(a);
		const unsigned pat = rng.below(5);
		static const char * names[] = { "copy_ctor", "copy_assign", "self_copy_assign", "move_ctor", "move_assign", "swap", "self_swap", "recreate" };
		structCount(names[kind]);
		curWhy = names[kind];
		const bool preEnqueue = rng.chance(1, 2);
		const int pk = (int)rng.below((uint32_t)NK), pp = (int)rng.below((uint32_t)NP);
		static const char * moveNames[] = { "transferred", "destination_kept_its_own", "none" };
		static const char * swapNames[] = { "stayed", "exchanged" };
		switch(kind) {
		case ST_COPY_CTOR: {
			if(isQueue() && preEnqueue) doEnqueue(b, pk, pp);
			noteSourcePending(b);
			log("== copy_ctor D" + num(a) + " <- D" + num(b) + " prefill=" + num(pat));
			vDestroy(a);
			unlink(a);
			vCopyCtor(a, b, pat);
			copyModel(a, b);
			link(a, b);
			++nCopy;
			harvestAll(a);
			fullCheck(a, "after-copy_ctor", true);
			fullCheck(b, "source-after-copy_ctor", rng.chance(1, 2));
			probeAfter(a, b);
			break; }
		case ST_COPY_ASSIGN: {
			if(isQueue() && preEnqueue) doEnqueue(b, pk, pp);
			noteSourcePending(b);
			emptyDestination(a);
			log("== copy_assign D" + num(a) + " <- D" + num(b));
			vCopyAssign(a, b);
			unlink(a);
			copyModel(a, b);
			link(a, b);
			++nCopy;
			harvestAll(a);
			fullCheck(a, "after-copy_assign", true);
			fullCheck(b, "source-after-copy_assign", rng.chance(1, 2));
			probeAfter(a, b);
			break; }
		case ST_SELF_ASSIGN:
			log("== copy_assign D" + num(a) + " <- D" + num(a) + " (self)");
			if(isQueue() && ! dm[a].pending.empty()) count("self_copy_assign.with_pending_events");
			vCopyAssign(a, a);
			count("structural.self_operations");
			fullCheck(a, "after-self_copy_assign", rng.chance(1, 2));
			break;
		case ST_MOVE_CTOR: case ST_MOVE_ASSIGN: {
			const bool ctor = kind == ST_MOVE_CTOR;
			std::vector<FChains> cands;
			cands.push_back(dm[b].filters); cands.push_back(ctor ? FChains((size_t)NP) : dm[a].filters); cands.push_back(FChains((size_t)NP));
			if(isQueue() && ! dm[b].pending.empty()) count("move.source_had_pending_events");
			if(ctor) { log("== move_ctor D" + num(a) + " <- D" + num(b) + " prefill=" + num(pat)); vDestroy(a); unlink(a); vMoveCtor(a, b, pat); dm[a].pending.clear(); }
			else { emptyDestination(a); log("== move_assign D" + num(a) + " <- D" + num(b)); vMoveAssign(a, b); unlink(a); }
			dm[a].lm = dm[b].lm;
			vHandlesMove(a, b);
			dm[a].origin = OR_MOVED;
			if(dm[a].lm.liveCount()) count("move.listeners_transferred", dm[a].lm.liveCount());
			++nMove;
			// the source is only promised to be valid: its content is not looked at.  Being valid it accepts operations that
			// have no precondition; whatever is added to it must never show up in the destination.  Then it is destroyed
			// and re-created at once to return to a known state.
			resetModel(b);
			if(rng.chance(1, 2)) useMovedFrom(b);
			recreate(b);
			link(a, b);
			if(caps.filt) resyncFilters(a, cands, moveNames, "move");
			else dm[a].filters.assign((size_t)NP, Chain());
			fullCheck(a, ctor ? "after-move_ctor" : "after-move_assign", true);
			fullCheck(b, "re-created-source-after-move", rng.chance(1, 2));
			probeAfter(a, b);
			break; }
		case ST_SWAP: {
			const bool adl = rng.chance(1, 2);
			std::vector<FChains> ca, cb;
			ca.push_back(dm[a].filters); ca.push_back(dm[b].filters);
			cb.push_back(dm[b].filters); cb.push_back(dm[a].filters);
			log(std::string("== swap D") + num(a) + " <-> D" + num(b) + (adl ? " (ADL swap)" : " (member swap)"));
			count(adl ? "structural.swap.adl" : "structural.swap.member");
			vSwap(a, b, adl);
			std::swap(dm[a].lm, dm[b].lm);
			vHandlesSwap(a, b);
			dm[a].origin = OR_SWAPPED; dm[b].origin = OR_SWAPPED;
			link(a, b);
			++nSwap;
			if(caps.filt) {
				const int ra = resyncFilters(a, ca, swapNames, "swap");
				const int rb = dead ? -1 : resyncFilters(b, cb, swapNames, "swap");
				// both objects claiming the same chain: nobody knows whose handles those are
				if(! dead && ra >= 0 && rb >= 0 && ra != rb && chainTotal(dm[a].filters) > 0 && sameFids(dm[a].filters, dm[b].filters) && sameHids(dm[a].filters, dm[b].filters))
					for(int y = 0; y < 2; ++y) { FChains & f = dm[y ? b : a].filters; for(size_t p = 0; p < f.size(); ++p) for(size_t i = 0; i < f[p].size(); ++i) f[p][i].hid = -1; }
			}
			fullCheck(a, "after-swap", true);
			fullCheck(b, "after-swap", true);
			probeAfter(a, b);
			break; }
		case ST_SELF_SWAP: {
			const bool adl = rng.chance(1, 2);
			log(std::string("== swap D") + num(a) + " <-> D" + num(a) + " (self" + (adl ? ", ADL swap)" : ", member swap)"));
			vSwap(a, a, adl);
			count("structural.self_operations");
			fullCheck(a, "after-self_swap", false);
			break; }
		default:
			log("== re-create D" + num(a));
			recreate(a);
			fullCheck(a, "after-recreate", true);
			break;
		}
		curWhy = "history";
	}

	// ---------------------------------------------------------------- generation
	void step() {
		if(dead) return;
		const int d = (int)rng.below((uint32_t)nd);
		const int k = (int)rng.below((uint32_t)NK), p = (int)rng.below((uint32_t)NP);
		const uint32_t c = rng.below(100);
		if(c < 12) {
			static const int w[ST_N] = { 20, 20, 8, 12, 12, 14, 6, 8 };
			int t = (int)rng.below(100), kind = 0;
			while(kind < ST_N - 1 && t >= w[kind]) { t -= w[kind]; ++kind; }
			doStructural(kind);
			return;
		}
		if(c < 38) { doAdd(d, k, p); return; }
		if(c < 50) { doRemove(d, k, p); return; }
		if(c < 56) { doEnum(d, k, p, false); return; }
		if(caps.filt && c < 64) { if(rng.chance(3, 5)) doAddFilter(d); else doRemoveFilter(d); return; }
		if(isQueue()) {
			if(c < 78) { doEnqueue(d, k, p); return; }
			if(c < 83) { doProcess(d, false); return; }
			if(c < 87) { doProcess(d, true); return; }
			if(c < 91) { doEmptyQ(d); return; }
			if(c < 92) { doClear(d); return; }
		}
		doTrigger(d, k, p);
	}

	void quiescent() {
		if(dead) return;
		count("quiescent_checks");
		long wantCb = 0, wantPl = 0;
		for(int d = 0; d < nd; ++d) {
			wantCb += (long)dm[d].lm.liveCount() + (long)chainTotal(dm[d].filters);
			for(size_t i = 0; i < dm[d].pending.size(); ++i) if(hasPayload(dm[d].pending[i])) ++wantPl;
		}
		if(ledger().liveCount(K_CB) != wantCb) { fail("lifetime:callback-instances", "live listener/filter instances " + num(ledger().liveCount(K_CB)) + ", the models hold " + num(wantCb)); return; }
		if(ledger().liveCount(K_PAYLOAD) != wantPl) fail("lifetime:payload-instances", "live payload instances " + num(ledger().liveCount(K_PAYLOAD)) + ", pending events with a payload " + num(wantPl));
	}

	void run(int ndWanted, int nops) {
		nd = ndWanted;
		for(int i = 0; i < nd; ++i) { const unsigned pat = rng.below(5); vCreate(i, pat); }
		callbackSink() = this;
		gFilterSink = this;
		const int pre = 4 + (int)rng.below(7);
		for(int i = 0; i < pre && ! dead; ++i) { const int d = (int)rng.below((uint32_t)nd); const int k = (int)rng.below((uint32_t)NK); const int p = (int)rng.below((uint32_t)NP); doAdd(d, k, p); }
		if(caps.filt) { const int nf = 1 + (int)rng.below(3); for(int i = 0; i < nf && ! dead; ++i) doAddFilter((int)rng.below((uint32_t)nd)); }
		quiescent();
		for(int i = 0; i < nops && ! dead; ++i) {
			budget = 12;
			if(i == nops / 5 && nCopy == 0) doStructural(rng.chance(1, 2) ? ST_COPY_CTOR : ST_COPY_ASSIGN);
			else if(i == 2 * nops / 5 && nMove == 0) doStructural(rng.chance(1, 2) ? ST_MOVE_CTOR : ST_MOVE_ASSIGN);
			else if(i == 3 * nops / 5 && nSwap == 0 && caps.hasSwap) doStructural(ST_SWAP);
			else step();
			quiescent();
		}
		budget = 6;
		for(int d = 0; d < nd && ! dead; ++d) fullCheck(d, "final", false);
		quiescent();
		callbackSink() = nullptr;
		gFilterSink = nullptr;
		if(! dead) {
			for(int d = 0; d < nd; ++d) vDestroy(d);
			if(ledger().liveCount(K_CB) != 0) violation(std::string(caps.tag) + ":lifetime:callback-leaked-after-destruction", num(ledger().liveCount(K_CB)) + " listener/filter instance(s) alive after every object was destroyed");
			if(ledger().liveCount(K_PAYLOAD) != 0) violation(std::string(caps.tag) + ":lifetime:payload-leaked-after-destruction", num(ledger().liveCount(K_PAYLOAD)) + " payload instance(s) alive after every object was destroyed");
		}
	}

	bool nontrivial() const { return nCopy >= 1 && nMove >= 1 && (! caps.hasSwap || nSwap >= 1) && nProbe >= 1; }
};

// ------------------------------------------------------------------ the real objects
template <typename O, bool Has> struct FilterHandleOf { typedef typename O::FilterHandle type; };
template <typename O> struct FilterHandleOf<O, false> { typedef int type; };

template <typename Obj_, int Cfg>
struct Pool : WorldBase
{
	typedef Obj_ Obj;
	typedef typename Obj::Handle Handle;
	static constexpr int Cont = Cfg == 0 ? (int)CT_LIST : (Cfg == 2 || Cfg == 4) ? (int)CT_QUEUE : (int)CT_DISP;
	static constexpr int Shape = Cfg <= 2 ? (int)SH_HET3 : Cfg <= 4 ? (int)SH_IS : (int)SH_HF;
	static constexpr int Filt = Cfg <= 2 ? 0 : Cfg <= 4 ? 1 : 2;
	typedef typename FilterHandleOf<Obj, Filt != 0>::type FilterHandle;
	typedef void P0(int);
	typedef typename std::conditional<Shape == SH_HET3, void(const std::string &, int), void(std::string, int)>::type P1;
	typedef void P2(TPayload);
	static_assert(alignof(Obj) <= 16, "slot alignment");

	struct alignas(16) Slot { unsigned char buf[sizeof(Obj)]; };
	Slot slots[MAXD];
	bool alive[MAXD];
	std::vector<Handle> rh[MAXD];
	std::vector<FilterHandle> fh;

	Pool(const CMode & m, Rng & r) : WorldBase(Cfg, m, r) { for(int i = 0; i < MAXD; ++i) alive[i] = false; }
	~Pool() { for(int i = 0; i < MAXD; ++i) vDestroy(i); }
	Obj & At(int i) { return *reinterpret_cast<Obj *>(slots[i].buf); }

	void prefill(int i, unsigned pat) {
		static const bool noPrefill = ctx().optInt("noprefill", 0) != 0;
		count(kPrefillName[pat]);
		if(noPrefill) { if(pat >= 4) rng.next(); return; }
		if(pat < 4) memset(slots[i].buf, kPrefill[pat], sizeof(Obj));
		else { Rng fill(rng.next()); for(size_t k = 0; k < sizeof(Obj); ++k) slots[i].buf[k] = (unsigned char)fill.below(256); } // one draw: the object size must not influence the program
	}
	void vCreate(int d, unsigned pat) override { prefill(d, pat); new (slots[d].buf) Obj(); alive[d] = true; }
	void vDestroy(int d) override { if(alive[d]) { At(d).~Obj(); alive[d] = false; } }
	void vCopyCtor(int a, int b, unsigned pat) override { prefill(a, pat); new (slots[a].buf) Obj(At(b)); alive[a] = true; }
	void vCopyAssign(int a, int b) override { At(a) = At(b); }
	void vMoveCtor(int a, int b, unsigned pat) override { prefill(a, pat); new (slots[a].buf) Obj(std::move(At(b))); alive[a] = true; }
	void vMoveAssign(int a, int b) override { At(a) = std::move(At(b)); }
	void vSwap(int a, int b, bool adl) override {
		if constexpr (Cont != CT_QUEUE) {
			if(adl) { using std::swap; swap(At(a), At(b)); }
			else At(a).swap(At(b));
		}
		else { (void)a; (void)b; (void)adl; }
	}
	void vHandlesClear(int d) override { rh[d].clear(); }
	void vHandlesMove(int a, int b) override { rh[a] = rh[b]; }
	void vHandlesSwap(int a, int b) override { rh[a].swap(rh[b]); }

	static bool hExpired(const Handle & h) { if constexpr (Shape == SH_IS) return h.expired(); else return h.homoHandle.expired(); }
	static bool hSame(const Handle & a, const Handle & b) {
		if constexpr (Shape == SH_IS) return a.lock() == b.lock();
		else return a.index == b.index && a.homoHandle.lock() == b.homoHandle.lock();
	}

	template <typename Fn>
	Handle addFn(Obj & o, int k, const Fn & fn, int how, const Handle & before) {
		if constexpr (Cont == CT_LIST) {
			(void)k;
			if(how == 0) return o.append(fn);
			if(how == 1) return o.prepend(fn);
			return o.insert(fn, before);
		}
		else {
			const int key = kKeys[k];
			if(how == 0) return o.appendListener(key, fn);
			if(how == 1) return o.prependListener(key, fn);
			return o.insertListener(key, fn, before);
		}
	}
	bool vAdd(int d, int k, int p, int cbid, int how, int beforeUid, int uid) override {
		Obj & o = At(d);
		Handle before = Handle();
		if(beforeUid >= 0) before = rh[d][(size_t)beforeUid];
		else if(how == 2) { if constexpr (Shape != SH_IS) before.index = p; } // an empty handle of the same prototype
		Handle h = Handle();
		if constexpr (Shape == SH_IS) h = addFn(o, k, LIS{ TCallback(cbid) }, how, before);
		else {
			if(p == 0) h = addFn(o, k, LA{ TCallback(cbid) }, how, before);
			else if(p == 1) h = addFn(o, k, LB{ TCallback(cbid) }, how, before);
			else { if constexpr (Shape == SH_HET3) h = addFn(o, k, LC{ TCallback(cbid) }, how, before); }
		}
		if(rh[d].size() <= (size_t)uid) rh[d].resize((size_t)uid + 1);
		rh[d][(size_t)uid] = h;
		if(hExpired(h)) return false;
		if constexpr (Shape != SH_IS) { if(h.index != p) return false; }
		return true;
	}
	bool vRemove(int d, int k, int p, int uid) override {
		(void)p;
		if constexpr (Cont == CT_LIST) { (void)k; return At(d).remove(rh[d][(size_t)uid]); }
		else return At(d).removeListener(kKeys[k], rh[d][(size_t)uid]);
	}

	struct Vis {
		Pool * w; int d;
		template <typename CB> void operator() (const Handle & h, const CB & cb) const { w->visit(d, h, idOfFn(cb)); }
	};
	void visit(int d, const Handle & h, int cbid) {
		const int uid = enumNext(cbid);
		if(uid < 0) return;
		if(rh[d].size() <= (size_t)uid) rh[d].resize((size_t)uid + 1);
		Handle & st = rh[d][(size_t)uid];
		if(enumHarvest) { st = h; count("handles.harvested"); if(hExpired(h)) enumHandleBad = true; }
		else if(hExpired(st) || ! hSame(st, h)) enumHandleBad = true;
	}
	void vEnum(int d, int k, int p) override {
		Vis v; v.w = this; v.d = d;
		const Obj & o = At(d);
		if constexpr (Shape == SH_IS) { (void)p; o.forEach(kKeys[k], v); }
		else if constexpr (Cont == CT_LIST) {
			(void)k;
			if(p == 0) o.template forEach<P0>(v);
			else if(p == 1) o.template forEach<P1>(v);
			else { if constexpr (Shape == SH_HET3) o.template forEach<P2>(v); }
		}
		else {
			if(p == 0) o.template forEach<P0>(kKeys[k], v);
			else if(p == 1) o.template forEach<P1>(kKeys[k], v);
			else { if constexpr (Shape == SH_HET3) o.template forEach<P2>(kKeys[k], v); }
		}
	}
	bool vHasAny(int d, int k) override {
		if constexpr (Cont == CT_LIST) { (void)k; return ! At(d).empty(); }
		else return At(d).hasAnyListener(kKeys[k]);
	}

	void vTrigger(int d, const Ev & e, int form) override {
		Obj & o = At(d);
		int v = e.v; std::string s = strOf(e.sid);
		if constexpr (Shape == SH_IS) {
			if(form) o.dispatch(kKeys[e.k], int(v), std::string(s)); else { const int key = kKeys[e.k]; o.dispatch(key, v, s); }
		}
		else if constexpr (Cont == CT_LIST) {
			if(e.p == 0) { if(form) o(int(v)); else o(v); }
			else if(e.p == 1) { if(form) o(std::string(s), int(v)); else o(s, v); }
			else { if constexpr (Shape == SH_HET3) { TPayload pl(e.eid); o(pl); } }
		}
		else {
			const int key = kKeys[e.k];
			if(e.p == 0) { if(form) o.dispatch(kKeys[e.k], int(v)); else o.dispatch(key, v); }
			else if(e.p == 1) { if(form) o.dispatch(kKeys[e.k], std::string(s), int(v)); else o.dispatch(key, s, v); }
			else { if constexpr (Shape == SH_HET3) { TPayload pl(e.eid); o.dispatch(key, pl); } }
		}
	}
	void vEnqueue(int d, const Ev & e, int form) override {
		if constexpr (Cont == CT_QUEUE) {
			Obj & o = At(d);
			int v = e.v; std::string s = strOf(e.sid);
			const int key = kKeys[e.k];
			if constexpr (Shape == SH_IS) { if(form) o.enqueue(kKeys[e.k], int(v), std::string(s)); else o.enqueue(key, v, s); }
			else {
				if(e.p == 0) { if(form) o.enqueue(kKeys[e.k], int(v)); else o.enqueue(key, v); }
				else if(e.p == 1) { if(form) o.enqueue(kKeys[e.k], std::string(s), int(v)); else o.enqueue(key, s, v); }
				else { TPayload pl(e.eid); o.enqueue(key, pl); }
			}
		}
		else { (void)d; (void)e; (void)form; }
	}
	bool vProcess(int d, bool one) override { if constexpr (Cont == CT_QUEUE) return one ? At(d).processOne() : At(d).process(); else { (void)d; (void)one; return false; } }
	bool vEmptyQueue(int d) override { if constexpr (Cont == CT_QUEUE) return At(d).emptyQueue(); else { (void)d; return true; } }
	bool vWaitFor0(int d) override { if constexpr (Cont == CT_QUEUE) return At(d).waitFor(std::chrono::milliseconds(0)); else { (void)d; return false; } }
	void vClearEvents(int d) override { if constexpr (Cont == CT_QUEUE) At(d).clearEvents(); else (void)d; }

	int vAddFilter(int d, int p, int fid) override {
		if constexpr (Filt == 1) { (void)p; fh.push_back(At(d).appendFilter(TFilter(fid))); }
		else if constexpr (Filt == 2) { if(p == 0) fh.push_back(At(d).appendFilter(HFilterA{ TFilter(fid) })); else fh.push_back(At(d).appendFilter(HFilterB{ TFilter(fid) })); }
		else { (void)d; (void)p; (void)fid; }
		return (int)fh.size() - 1;
	}
	bool vRemoveFilter(int d, int hid) override {
		if constexpr (Filt != 0) return At(d).removeFilter(fh[(size_t)hid]);
		else { (void)d; (void)hid; return false; }
	}
};

typedef Pool<eventpp::HeterCallbackList<PL3>, 0> Pool0;
typedef Pool<eventpp::HeterEventDispatcher<int, PL3>, 1> Pool1;
typedef Pool<eventpp::HeterEventQueue<int, PL3>, 2> Pool2;
typedef Pool<eventpp::EventDispatcher<int, void(int, std::string), PolF>, 3> Pool3;
typedef Pool<eventpp::EventQueue<int, void(int, std::string), PolF>, 4> Pool4;
typedef Pool<eventpp::HeterEventDispatcher<int, PL2, PolHF>, 5> Pool5;

// ------------------------------------------------------------------ cases
template <typename P>
static void runCfg(const CMode & mode, Rng & rng, uint64_t caseNo, int cfgIndex)
{
	ledger().resetCase();
	const int nops = rng.range(mode.minOps, mode.maxOps);
	const int nd = rng.range(2, MAXD);
	uint64_t h; bool nontrivial;
	{
		P w(mode, rng);
		oplog(std::string("config ") + num(cfgIndex) + ": " + kCaps[cfgIndex].name + " objects=" + num(nd) + " ops=" + num(nops));
		w.run(nd, nops);
		h = w.trace.h;
		nontrivial = w.nontrivial() && ! caseHasViolation();
		if(w.nCopy) count("cases.with_copy");
		if(w.nMove) count("cases.with_move");
		if(w.nSwap) count("cases.with_swap");
		if(w.nProbe) count("cases.with_independence_probe");
	}
	count("ops", (uint64_t)nops);
	count((std::string("config.") + num(cfgIndex)).c_str());
	Fnv f; f.addu(h); f.addu((uint64_t)cfgIndex);
	if(nontrivial) { markNontrivial(f.h); count("cases.nontrivial"); }
	if(wantSample() && nontrivial) addSample("{\"case\":" + unum(caseNo) + ",\"history\":" + oplogJson(ctx().oplog, 60) + "}");
}
template <bool Enabled, typename P>
static typename std::enable_if<Enabled>::type runCfgIf(const CMode & mode, Rng & rng, uint64_t caseNo, int cfgIndex) { runCfg<P>(mode, rng, caseNo, cfgIndex); }
template <bool Enabled, typename P>
static typename std::enable_if<! Enabled>::type runCfgIf(const CMode &, Rng &, uint64_t, int) {}
static void skipCase() { --ctx().casesRun; }

#ifndef VF_CFG_MASK
#define VF_CFG_MASK 0x3f
#endif
static void runCase(uint64_t caseNo, Rng & rng)
{
	static CMode mode = modeOf(ctx().mode);
	const long long only = ctx().optInt("cfg", -1);
	const int cfg = only >= 0 ? (int)only : (int)(caseNo % NCFG);
#define VF_CFG(n) case n: if((VF_CFG_MASK >> n) & 1) { runCfgIf<((VF_CFG_MASK >> n) & 1) != 0, Pool##n>(mode, rng, caseNo, n); } else { skipCase(); } break;
	switch(cfg) {
	VF_CFG(0) VF_CFG(1) VF_CFG(2) VF_CFG(3) VF_CFG(4) VF_CFG(5)
	default: skipCase(); break;
	}
}
int main(int argc, char ** argv) { return runMain(argc, argv, runCase); }
