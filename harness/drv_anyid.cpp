// drv_anyid.cpp - monitor of property C18: AnyId keys are coherent (equality,
// ordering and hash agree; routing through ordered and hashed maps).  C++17.
//
// One case = one pool of ~40 ids built from ints, longs, chars and strings
// (with duplicates and deliberately colliding digests) under one configuration
//   Digester {std::hash, SmallHash (4 digest values)}  x
//   Storage  {VStore (type tag + text, has == and <), eventpp::EmptyAnyStorage,
//             NStore (keeps the value, no comparison operators)}.
// Every ordered pair is evaluated ONCE through the real operator== / operator< /
// std::hash<AnyId>; the laws of the statement are then checked over all pairs
// and all triples of the pool, and against the ground truth the statement names
// (value equality for VStore, digest equality for the storages without
// comparison).  Routing: TCallback listeners are registered under some pool ids
// in EventDispatcher<AnyId, void()> with the default map (unordered_map, because
// std::hash<AnyId> exists) and with a policy forcing std::map; a dispatch by
// every pool id must run exactly the listeners registered under ground-truth
// equal ids.
//
// modes (--mode): mixed (default), dense (tiny value domain: many duplicates and
//                 collisions), sparse (wide domain)
// options (--opt): cfg=N (0..7, fix the configuration; default caseNo % 8),
//                  pool=N (pool size, default random 36..44),
//                  route_always=1 (self-validation only: run the routing check even after a law was
//                  found broken; the maps' behaviour is then undefined)
#include "vcommon.h"
#include "vledger.h"
#include "vaccess.h"

#include <eventpp/eventdispatcher.h>
#include <eventpp/utilities/anyid.h>

#include <algorithm>
#include <memory>
#include <map>
#include <unordered_map>
#include <type_traits>

using namespace vf;

// ------------------------------------------------------------------ pool values
enum ValKind { VK_INT = 0, VK_LONG, VK_CHAR, VK_STR, VK_KINDS };
static const char * kKindName[] = { "int", "long", "char", "string" };

struct PoolVal
{
	int kind;
	long long num;
	std::string str;
	PoolVal() : kind(VK_INT), num(0) {}
	bool same(const PoolVal & o) const { return kind == o.kind && (kind == VK_STR ? str == o.str : num == o.num); }
};

// call f with the value in its concrete C++ type
template <typename F>
static void withValue(const PoolVal & v, F && f)
{
	switch(v.kind) {
	case VK_INT: { const int x = (int)v.num; f(x); break; }
	case VK_LONG: { const long x = (long)v.num; f(x); break; }
	case VK_CHAR: { const char x = (char)v.num; f(x); break; }
	default: f(v.str); break;
	}
}

// ------------------------------------------------------------------ digesters
template <typename T> struct TypeSalt { static const unsigned value = 0; };
template <> struct TypeSalt<long> { static const unsigned value = 1; };
template <> struct TypeSalt<char> { static const unsigned value = 3; };
template <> struct TypeSalt<std::string> { static const unsigned value = 2; };

// four digest values {-1,0,1,2} (a signed DigestType: std::hash<AnyId> has to cast it)
template <typename T>
struct SmallHash
{
	int operator() (const T & v) const {
		const std::size_t h = std::hash<T>()(v);
		return (int)(((h ^ (h >> 7)) + TypeSalt<T>::value) % 4u) - 1;
	}
};

// a digest that is a class type, not convertible to std::size_t: the library then hashes an id through std::hash<DigestType>.
// 4 type tags x 4 value classes = 16 digests, and std::hash<PairDigest> maps them onto 4 hash values only: ids whose digests
// differ very often hash alike (ordering and equality must keep them apart all the same), ids with equal digests always do
struct PairDigest
{
	unsigned tag, h;
	explicit operator long long () const { return ((long long)tag << 8) | (long long)h; }
};
inline bool operator == (const PairDigest & a, const PairDigest & b) { return a.tag == b.tag && a.h == b.h; }
inline bool operator < (const PairDigest & a, const PairDigest & b) { return a.tag != b.tag ? a.tag < b.tag : a.h < b.h; }
namespace std { template <> struct hash<PairDigest> { std::size_t operator() (const PairDigest & d) const noexcept { return (std::size_t)(d.h ^ d.tag); } }; }
static_assert(! std::is_convertible<PairDigest, std::size_t>::value, "PairDigest must not convert to size_t");
template <typename T>
struct PairHash
{
	PairDigest operator() (const T & v) const {
		const std::size_t x = std::hash<T>()(v);
		PairDigest d; d.tag = TypeSalt<T>::value; d.h = (unsigned)((x ^ (x >> 7)) % 4u);
		return d;
	}
};

// ------------------------------------------------------------------ storages
static uint64_t gEqCalls = 0, gLtCalls = 0;

struct VStore
{
	int tag;
	std::string text;
	VStore() : tag(-1) {}
	VStore(const int & v) : tag(VK_INT), text(vf::num(v)) {}
	VStore(const long & v) : tag(VK_LONG), text(vf::num(v)) {}
	VStore(const char & v) : tag(VK_CHAR), text(1, v) {}
	VStore(const std::string & v) : tag(VK_STR), text(v) {}
	friend bool operator == (const VStore & a, const VStore & b) { ++gEqCalls; return a.tag == b.tag && a.text == b.text; }
	friend bool operator < (const VStore & a, const VStore & b) { ++gLtCalls; return a.tag != b.tag ? a.tag < b.tag : a.text < b.text; }
};

// The application that owns VStore has functions of its own that happen to carry the names of the library's internal helpers (an
// "approximately equal" and a "sorts before, ignoring type" of its own).  Found through argument-dependent lookup they would replace
// the storage's operators: a library call into its helpers must not be hijacked by the namespace of the user's Storage type.
static uint64_t gDecoyCalls = 0;
inline bool compareEqual(const VStore & a, const VStore & b) { ++gDecoyCalls; return a.text.size() == b.text.size(); }
inline bool compareLessThan(const VStore & a, const VStore & b) { ++gDecoyCalls; return a.text.size() < b.text.size(); }
inline int compareValue(const VStore & a, const VStore & b) { ++gDecoyCalls; return (int)a.text.size() - (int)b.text.size(); }

// keeps the value but offers no comparison at all (like std::any)
struct NStore
{
	int tag;
	std::string text;
	NStore() : tag(-1) {}
	NStore(const int & v) : tag(VK_INT), text(vf::num(v)) {}
	NStore(const long & v) : tag(VK_LONG), text(vf::num(v)) {}
	NStore(const char & v) : tag(VK_CHAR), text(1, v) {}
	NStore(const std::string & v) : tag(VK_STR), text(v) {}
};

// a NORMALISING storage: keeps only the text, so values of different types (int 63, long 63, string "63") are stored equal.
// Ids over it are equal exactly when digest AND text are equal; equal text with different digests must stay unequal ids
// (otherwise equal ids would hash differently).
struct TStore
{
	std::string text;
	TStore() {}
	TStore(const int & v) : text(vf::num(v)) {}
	TStore(const long & v) : text(vf::num(v)) {}
	TStore(const char & v) : text(1, v) {}
	TStore(const std::string & v) : text(v) {}
	friend bool operator == (const TStore & a, const TStore & b) { ++gEqCalls; return a.text == b.text; }
	friend bool operator < (const TStore & a, const TStore & b) { ++gLtCalls; return a.text < b.text; }
};
static std::string textOf(const PoolVal & v) { return v.kind == VK_STR ? v.str : v.kind == VK_CHAR ? std::string(1, (char)v.num) : vf::num(v.num); }

// (which comparisons AnyId finds in a storage is not asserted at compile time: a library that stops finding VStore's
// operators is caught by the pair laws - colliding ids would be unequal yet incomparable - under the standard level it happens in)

// ------------------------------------------------------------------ configurations
struct PolOrdered { template <typename K, typename V> using Map = std::map<K, V>; };

template <template <typename> class Dig, typename Store, bool ValueTruth>
struct Cfg
{
	typedef eventpp::AnyId<Dig, Store> Id;
	typedef typename Id::DigestType Digest;
	static const bool valueTruth = ValueTruth; // ground truth of equality: the value (else: the digest)
	typedef eventpp::EventDispatcher<Id, void ()> DHashed;
	typedef eventpp::EventDispatcher<Id, void (), PolOrdered> DOrdered;

	// the statement's "hashed map": the default really is the unordered_map
	static_assert(eventpp::internal_::HasHash<Id>::value, "std::hash<AnyId> must exist");
	static_assert(std::is_same<
		typename eventpp::internal_::SelectMap<Id, int, eventpp::DefaultPolicies, false>::Type,
		std::unordered_map<Id, int> >::value, "default map of an AnyId dispatcher must be std::unordered_map");
	static_assert(std::is_same<
		typename eventpp::internal_::SelectMap<Id, int, PolOrdered, eventpp::internal_::HasTemplateMap<PolOrdered>::value>::Type,
		std::map<Id, int> >::value, "policy map must be std::map");

	static Id make(const PoolVal & v) {
		switch(v.kind) {
		case VK_INT: { const int x = (int)v.num; return Id(x); }
		case VK_LONG: { const long x = (long)v.num; return Id(x); }
		case VK_CHAR: { const char x = (char)v.num; return Id(x); }
		default: return Id(v.str);
		}
	}
	// the digest the Digester assigns to the value, computed by the harness
	static long long digestOf(const PoolVal & v) {
		switch(v.kind) {
		case VK_INT: return (long long)Dig<int>()((int)v.num);
		case VK_LONG: return (long long)Dig<long>()((long)v.num);
		case VK_CHAR: return (long long)Dig<char>()((char)v.num);
		default: return (long long)Dig<std::string>()(v.str);
		}
	}
};

typedef Cfg<std::hash, VStore, true> Cfg0;
typedef Cfg<SmallHash, VStore, true> Cfg1;
typedef Cfg<std::hash, eventpp::EmptyAnyStorage, false> Cfg2;
typedef Cfg<SmallHash, eventpp::EmptyAnyStorage, false> Cfg3;
typedef Cfg<std::hash, NStore, false> Cfg4;
typedef Cfg<SmallHash, NStore, false> Cfg5;
typedef Cfg<std::hash, TStore, true> Cfg6;
typedef Cfg<SmallHash, TStore, true> Cfg7;
typedef Cfg<PairHash, VStore, true> Cfg8;
typedef Cfg<PairHash, eventpp::EmptyAnyStorage, false> Cfg9;
enum { NCFG = 10 };
static const char * kCfgName[NCFG] = {
	"AnyId<std::hash,VStore>", "AnyId<SmallHash,VStore>",
	"AnyId<std::hash,EmptyAnyStorage>", "AnyId<SmallHash,EmptyAnyStorage>",
	"AnyId<std::hash,NStore>", "AnyId<SmallHash,NStore>",
	"AnyId<std::hash,TStore(normalising)>", "AnyId<SmallHash,TStore(normalising)>",
	"AnyId<PairHash(class-type digest),VStore>", "AnyId<PairHash(class-type digest),EmptyAnyStorage>"
};
static const char * kStoreName[NCFG] = { "VStore", "VStore", "Empty", "Empty", "NStore", "NStore", "TStore", "TStore", "VStore", "Empty" };

// ------------------------------------------------------------------ pool generation
static std::string showVal(const PoolVal & v)
{
	if(v.kind == VK_STR) return std::string("string \"") + v.str + "\"";
	return std::string(kKindName[v.kind]) + " " + num(v.num);
}

static PoolVal genValue(Rng & rng, int domain)
{
	PoolVal v;
	v.kind = (int)rng.below(VK_KINDS);
	if(v.kind == VK_STR) {
		const uint32_t c = rng.below(10);
		if(c < 6) v.str = num((long long)rng.below((uint32_t)domain) + 60); // text of a number: meets VStore's text of ints
		else if(c < 9) { const int len = (int)rng.below(4); for(int i = 0; i < len; ++i) v.str += (char)('a' + rng.below((uint32_t)(domain < 26 ? domain : 26))); }
		else { const size_t len = 20 + rng.below(30); const char ch = (char)('a' + rng.below(3)); v.str = std::string(len, ch); }
	}
	else {
		// numbers of every kind share one small range (so std::hash, the identity on integers, collides across types)
		long long n = 60 + (long long)rng.below((uint32_t)domain);
		if(v.kind != VK_CHAR && rng.chance(1, 8)) n = -n;
		if(v.kind == VK_LONG && rng.chance(1, 10)) n += 0x100000000LL * (long long)(1 + rng.below(3));
		if(v.kind == VK_CHAR) n = 60 + (n - 60) % 60;
		v.num = n;
	}
	return v;
}

// ------------------------------------------------------------------ the case
static uint64_t gTraceXor = 0;

struct RunSink : CallbackSink
{
	std::vector<int> ran;
	void onCall(int cbId, const ArgPack &, MutInts &) override { ran.push_back(cbId); }
};

// the typed part of a case: the real ids and the real dispatchers behind a narrow interface
struct IWorld
{
	virtual ~IWorld() {}
	virtual void makeIds(const std::vector<PoolVal> & pool, std::vector<long long> & digestWanted, std::vector<long long> & digestGot) = 0;
	virtual void assignAll(std::vector<unsigned char> & out) = 0;
	virtual void evaluate(std::vector<char> & eq, std::vector<char> & lt, std::vector<std::size_t> & hs, std::vector<std::size_t> & hsCopy) = 0;
	// dispatcher: kind 0 = default map (unordered_map), 1 = policy map (std::map)
	virtual void openDispatcher(int kind) = 0;
	virtual void closeDispatcher() = 0;
	virtual void append(int pi, bool raw, int cbId) = 0; // handle index = order of registration
	virtual void dispatch(int pi, bool raw) = 0;
	virtual bool hasAny(int pi) = 0;
	virtual bool owns(int pj, int reg) = 0;
	virtual bool remove(int pj, int reg) = 0;
};

struct IDisp
{
	virtual ~IDisp() {}
	virtual void append(int pi, bool raw, int cbId) = 0;
	virtual void dispatch(int pi, bool raw) = 0;
	virtual bool hasAny(int pi) = 0;
	virtual bool owns(int pj, int reg) = 0;
	virtual bool remove(int pj, int reg) = 0;
};

template <typename Id, typename D>
struct DispT : IDisp
{
	typedef typename D::Handle Handle;
	const std::vector<PoolVal> & pool;
	const std::vector<Id> & ids;
	D d;
	std::vector<Handle> handles;
	DispT(const std::vector<PoolVal> & p, const std::vector<Id> & i) : pool(p), ids(i) {}
	void append(int pi, bool raw, int cbId) override {
		const TCallback cb(cbId);
		Handle h;
		if(raw) withValue(pool[pi], [&](const auto & x) { h = d.appendListener(x, cb); }); // converts to the id at the call
		else h = d.appendListener(ids[pi], cb);
		handles.push_back(h);
	}
	void dispatch(int pi, bool raw) override {
		if(raw) withValue(pool[pi], [&](const auto & x) { d.dispatch(x); });
		else d.dispatch(ids[pi]);
	}
	bool hasAny(int pi) override { return d.hasAnyListener(ids[pi]); }
	bool owns(int pj, int reg) override { return d.ownsHandle(ids[pj], handles[reg]); }
	bool remove(int pj, int reg) override { return d.removeListener(ids[pj], handles[reg]); }
};

template <typename C>
struct WorldT : IWorld
{
	typedef typename C::Id Id;
	const std::vector<PoolVal> * pool;
	std::vector<Id> ids;
	std::unique_ptr<IDisp> disp;

	void makeIds(const std::vector<PoolVal> & p, std::vector<long long> & want, std::vector<long long> & got) override {
		pool = &p;
		for(size_t i = 0; i < p.size(); ++i) {
			ids.push_back(C::make(p[i]));
			want.push_back(C::digestOf(p[i]));
			got.push_back((long long)ids.back().getDigest());
		}
	}
	// x = ids[j] assigned over an object that held ids[i]: bit 0 x == ids[j], bit 1 x and ids[j] incomparable, bit 2 same hash, bit 3 (x == ids[i]) agrees with (ids[j] == ids[i]);
	// the same through move assignment in bits 4-7
	void assignAll(std::vector<unsigned char> & out) override {
		const size_t n = ids.size();
		const std::hash<Id> hasher = std::hash<Id>();
		out.assign(n * n, 0);
		for(size_t i = 0; i < n; ++i) for(size_t j = 0; j < n; ++j) {
			unsigned char r = 0;
			{
				Id x(ids[i]);
				x = ids[j];
				if(x == ids[j] && ids[j] == x) r |= 1;
				if(! (x < ids[j]) && ! (ids[j] < x)) r |= 2;
				if(hasher(x) == hasher(ids[j])) r |= 4;
				if((x == ids[i]) == (ids[j] == ids[i])) r |= 8;
			}
			{
				Id x(ids[i]);
				Id tmp(ids[j]);
				x = std::move(tmp);
				if(x == ids[j] && ids[j] == x) r |= 16;
				if(! (x < ids[j]) && ! (ids[j] < x)) r |= 32;
				if(hasher(x) == hasher(ids[j])) r |= 64;
				if((x == ids[i]) == (ids[j] == ids[i])) r |= 128;
			}
			out[i * n + j] = r;
		}
	}
	void evaluate(std::vector<char> & eq, std::vector<char> & lt, std::vector<std::size_t> & hs, std::vector<std::size_t> & hsCopy) override {
		const size_t n = ids.size();
		const std::hash<Id> hasher = std::hash<Id>();
		for(size_t i = 0; i < n; ++i) {
			hs[i] = hasher(ids[i]);
			const Id copy(ids[i]);
			hsCopy[i] = hasher(copy);
		}
		for(size_t i = 0; i < n; ++i) for(size_t j = 0; j < n; ++j) {
			const bool e = ids[i] == ids[j];
			const bool l = ids[i] < ids[j];
			eq[i * n + j] = e ? 1 : 0;
			lt[i * n + j] = l ? 1 : 0;
		}
	}
	void openDispatcher(int kind) override {
		if(kind == 0) disp.reset(new DispT<Id, typename C::DHashed>(*pool, ids));
		else disp.reset(new DispT<Id, typename C::DOrdered>(*pool, ids));
	}
	void closeDispatcher() override { disp.reset(); }
	void append(int pi, bool raw, int cbId) override { disp->append(pi, raw, cbId); }
	void dispatch(int pi, bool raw) override { disp->dispatch(pi, raw); }
	bool hasAny(int pi) override { return disp->hasAny(pi); }
	bool owns(int pj, int reg) override { return disp->owns(pj, reg); }
	bool remove(int pj, int reg) override { return disp->remove(pj, reg); }
};

struct Case
{
	Rng & rng;
	IWorld & world;
	int cfgIndex;
	bool valueTruth; // ground truth of equality: the value (VStore); else the digest
	std::string store;
	std::vector<PoolVal> pool;
	std::vector<long long> dg;
	std::vector<std::size_t> hs;
	std::vector<char> eq, lt; // n*n matrices of the REAL results
	int n;
	Fnv trace;
	bool dead;
	std::unordered_set<std::string> reported;

	Case(Rng & r, IWorld & w, int ci, bool vt) : rng(r), world(w), cfgIndex(ci), valueTruth(vt), store(kStoreName[ci]), n(0), dead(false) {}

	void log(const std::string & s) { oplog(s); trace.add(s); }
	// one report per law and case
	void fail(const std::string & key, const std::string & desc) {
		const std::string k = key + ":storage=" + store;
		if(! reported.insert(k).second) return;
		violation(k, std::string(kCfgName[cfgIndex]) + ": " + desc);
		oplog("!! " + k + " :: " + desc);
	}
	std::string P(int i) const { return "p" + num(i) + "(" + showVal(pool[i]) + ", digest " + num(dg[i]) + ")"; }
	// equal stored value: same type and value (VStore) / same digest and same text (normalising TStore)
	bool sameV(int i, int j) const { return store == "TStore" ? (dg[i] == dg[j] && textOf(pool[i]) == textOf(pool[j])) : pool[i].same(pool[j]); }
	bool truth(int i, int j) const { return valueTruth ? sameV(i, j) : dg[i] == dg[j]; }
	bool E(int i, int j) const { return eq[(size_t)i * n + j] != 0; }
	bool L(int i, int j) const { return lt[(size_t)i * n + j] != 0; }
	bool I(int i, int j) const { return ! L(i, j) && ! L(j, i); }

	void build(int poolSize, int domain) {
		n = poolSize;
		// values: fresh ones, exact duplicates, and the same number under another type
		while((int)pool.size() < n) {
			const uint32_t c = rng.below(100);
			if(! pool.empty() && c < 22) pool.push_back(pool[rng.below((uint32_t)pool.size())]);
			else if(! pool.empty() && c < 34) {
				PoolVal v = pool[rng.below((uint32_t)pool.size())];
				if(v.kind != VK_STR) {
					v.kind = (v.kind + 1 + (int)rng.below(2)) % 3;
					if(v.kind == VK_CHAR) v.num = 60 + ((v.num % 60) + 60) % 60;
					else if(v.kind == VK_INT) v.num = (long long)(int)v.num; // the model holds exactly the value the id is built from
				}
				pool.push_back(v);
			}
			else pool.push_back(genValue(rng, domain));
		}
		std::vector<long long> got;
		world.makeIds(pool, dg, got);
		for(int i = 0; i < n; ++i) log("p" + num(i) + " = " + showVal(pool[i]) + " digest=" + num(dg[i]));
		for(int i = 0; i < n; ++i) if(got[i] != dg[i]) fail("digest:not-the-digester-value", P(i) + ": getDigest() returns " + num(got[i]));
	}

	void evaluate() {
		eq.assign((size_t)n * n, 0);
		lt.assign((size_t)n * n, 0);
		hs.assign((size_t)n, 0);
		std::vector<std::size_t> hc((size_t)n, 0);
		world.evaluate(eq, lt, hs, hc);
		for(int i = 0; i < n; ++i)
			if(hs[i] != hc[i]) fail("hash:copy-of-id-hashes-differently", P(i) + ": std::hash gives " + unum(hs[i]) + " for the id and " + unum(hc[i]) + " for its copy");
		count("pairs_evaluated", (uint64_t)n * n);
		// an id assigned over another id (copy and move assignment) is the assigned id
		std::vector<unsigned char> asg;
		world.assignAll(asg);
		for(int i = 0; i < n; ++i) for(int j = 0; j < n; ++j) {
			const unsigned r = asg[(size_t)i * n + j];
			if(r == 255) continue;
			const char * cls = sameV(i, j) ? "same-value" : dg[i] == dg[j] ? "colliding-digests" : "different-digests";
			const bool mv = (r & 15) == 15;
			const unsigned h = mv ? (r >> 4) : (r & 15);
			fail(std::string(mv ? "assign:move-assigned-id-is-not-the-source-id:" : "assign:copy-assigned-id-is-not-the-source-id:") + cls,
				"x held " + P(i) + "; after x = " + P(j) + ": x == source " + num((h & 1) != 0) + ", incomparable with source " + num((h & 2) != 0) + ", same hash " + num((h & 4) != 0) + ", compares with its old value like the source does " + num((h & 8) != 0));
		}
		count("assignments_checked", (uint64_t)n * n * 2);
	}

	// pair laws + ground truth
	void pairLaws(uint64_t & collisions, uint64_t & duplicates) {
		uint64_t nEq = 0, nLt = 0, nCollEq = 0;
		for(int i = 0; i < n; ++i) {
			if(! E(i, i)) fail("eq:not-reflexive", P(i) + " == itself is false");
			if(L(i, i)) fail("lt:not-irreflexive", P(i) + " < itself is true");
		}
		for(int i = 0; i < n; ++i) for(int j = 0; j < n; ++j) {
			if(i == j) continue;
			const bool e = E(i, j), l = L(i, j);
			const bool sameDigest = dg[i] == dg[j];
			const bool sameValue = sameV(i, j);
			if(e) ++nEq;
			if(l) ++nLt;
			if(i < j) {
				if(sameDigest && ! sameValue) ++collisions;
				if(sameValue) ++duplicates;
			}
			const char * cls = sameValue ? "same-value" : sameDigest ? "colliding-digests" : "different-digests";
			if(e != E(j, i)) fail(std::string("eq:not-symmetric:") + cls, P(i) + " == " + P(j) + " is " + num(e) + " but the converse is " + num(E(j, i)));
			if(l && L(j, i)) fail(std::string("lt:not-asymmetric:") + cls, P(i) + " < " + P(j) + " and " + P(j) + " < " + P(i));
			const bool inc = ! l && ! L(j, i);
			if(inc != e) fail(std::string(inc ? "lt-eq:incomparable-but-unequal:" : "lt-eq:equal-but-ordered:") + cls,
				P(i) + " vs " + P(j) + ": == gives " + num(e) + ", < gives " + num(l) + ", > gives " + num(L(j, i)));
			if(e && hs[i] != hs[j]) fail(std::string("hash:equal-ids-hash-differently:") + cls, P(i) + " == " + P(j) + " but std::hash gives " + unum(hs[i]) + " and " + unum(hs[j]));
			if(valueTruth) {
				if(sameValue && ! e) fail("eq:equal-values-are-unequal-ids", P(i) + " and " + P(j) + " hold the same value but compare unequal");
				if(! sameValue && e) fail(std::string("eq:distinct-values-are-equal-ids:") + cls, P(i) + " and " + P(j) + " hold different values but compare equal");
				if(! sameValue && sameDigest && ! e) ++nCollEq;
			}
			else {
				if(e != sameDigest) fail(std::string("eq:differs-from-digest-equality:") + cls, P(i) + " == " + P(j) + " is " + num(e) + " with a storage that has no comparison");
			}
		}
		count("pairs.equal", nEq);
		count("pairs.less", nLt);
		count("pairs.colliding_kept_distinct", nCollEq);
		log("pairs: equal=" + unum(nEq) + " less=" + unum(nLt) + " collisions=" + unum(collisions) + " duplicates=" + unum(duplicates));
	}

	void tripleLaws() {
		uint64_t premEq = 0, premLt = 0, premInc = 0;
		for(int i = 0; i < n; ++i) for(int j = 0; j < n; ++j) {
			const bool eij = E(i, j), lij = L(i, j), iij = I(i, j);
			if(! eij && ! lij && ! iij) continue;
			for(int k = 0; k < n; ++k) {
				if(eij && E(j, k)) { ++premEq; if(! E(i, k)) fail("eq:not-transitive", P(i) + " == " + P(j) + " == " + P(k) + " but first != last"); }
				if(lij && L(j, k)) { ++premLt; if(! L(i, k)) fail("lt:not-transitive", P(i) + " < " + P(j) + " < " + P(k) + " but not first < last"); }
				if(iij && I(j, k)) { ++premInc; if(! I(i, k)) fail("lt:incomparability-not-transitive", P(i) + " ~ " + P(j) + " ~ " + P(k) + " but first and last are ordered"); }
			}
		}
		count("triples_checked", (uint64_t)n * n * n);
		count("triples.eq_premise", premEq);
		count("triples.lt_premise", premLt);
		count("triples.incomparable_premise", premInc);
		log("triples: n^3=" + unum((uint64_t)n * n * n) + " eq-chains=" + unum(premEq) + " lt-chains=" + unum(premLt));
	}

	static std::string listStr(const std::vector<int> & v) { std::string s; for(size_t k = 0; k < v.size(); ++k) s += (k ? "," : "") + num(v[k]); return s; }

	// ---------- routing through a dispatcher
	void routing(int kind) {
		const std::string mapName = kind == 0 ? "unordered_map" : "map";
		RunSink sink;
		callbackSink() = &sink;
		world.openDispatcher(kind);
		const int nreg = rng.range(8, 18);
		std::vector<int> regPool;
		std::vector<char> attached;
		for(int r = 0; r < nreg; ++r) {
			// half of the registrations go to ids that have a duplicate or a colliding partner
			int pi = (int)rng.below((uint32_t)n);
			if(rng.chance(1, 2)) {
				for(int t = 0; t < 6; ++t) {
					const int a = (int)rng.below((uint32_t)n);
					bool partner = false;
					for(int b = 0; b < n && ! partner; ++b) partner = b != a && dg[a] == dg[b];
					if(partner) { pi = a; break; }
				}
			}
			const bool raw = rng.chance(1, 2);
			world.append(pi, raw, r);
			regPool.push_back(pi);
			attached.push_back(1);
			log(mapName + ": append cb" + num(r) + " under p" + num(pi) + (raw ? " (raw value)" : " (id)"));
			count("route.registrations");
		}
		for(int round = 0; round < 2 && ! dead; ++round) {
			for(int i = 0; i < n; ++i) {
				sink.ran.clear();
				const bool raw = rng.chance(1, 3);
				world.dispatch(i, raw);
				std::vector<int> want;
				for(int r = 0; r < nreg; ++r) if(attached[r] && truth(regPool[r], i)) want.push_back(r);
				std::vector<int> got = sink.ran;
				std::sort(got.begin(), got.end());
				log(mapName + ": dispatch p" + num(i) + " -> [" + listStr(got) + "]");
				count("route.dispatches");
				if(! want.empty()) count("route.dispatches_reaching_listeners");
				if(got != want) {
					bool missed = false, foreign = false;
					for(size_t k = 0; k < want.size(); ++k) if(! std::binary_search(got.begin(), got.end(), want[k])) missed = true;
					for(size_t k = 0; k < got.size(); ++k) if(! std::binary_search(want.begin(), want.end(), got[k])) foreign = true;
					fail("route:" + mapName + (missed ? ":missed-listener-of-equal-id" : foreign ? ":ran-listener-of-unequal-id" : ":listener-ran-twice"),
						"dispatch by " + P(i) + " ran [" + listStr(got) + "], ground truth says [" + listStr(want) + "]");
					dead = true;
					break;
				}
				const bool has = world.hasAny(i);
				if(has != ! want.empty()) {
					fail("route:" + mapName + ":hasAnyListener", "hasAnyListener(" + P(i) + ") = " + num(has) + ", ground truth says " + num(! want.empty()));
					dead = true;
					break;
				}
			}
			if(round == 0 && ! dead) {
				// ask for some handles THROUGH other pool entries: the list of an equal id owns them, that of an unequal id does not
				// (removal through an unequal id is not tried: a foreign handle breaks the precondition of remove)
				for(int t = 0; t < 12 && ! dead; ++t) {
					const int r = (int)rng.below((uint32_t)nreg);
					int j = (int)rng.below((uint32_t)n);
					if(rng.chance(1, 2)) for(int b = 0; b < n; ++b) if(b != regPool[r] && dg[b] == dg[regPool[r]] && rng.chance(1, 2)) { j = b; break; }
					const bool expect = truth(regPool[r], j);
					const bool got = world.owns(j, r);
					log(mapName + ": ownsHandle cb" + num(r) + " (under p" + num(regPool[r]) + ") through p" + num(j) + " -> " + num(got));
					count(expect ? "route.owns_through_equal_id" : "route.owns_through_unequal_id");
					if(got != expect) {
						fail("route:" + mapName + (expect ? ":handle-not-found-through-equal-id" : ":handle-found-through-unequal-id"),
							"ownsHandle(" + P(j) + ", handle of cb" + num(r) + " registered under " + P(regPool[r]) + ") = " + num(got));
						dead = true;
					}
				}
				// remove some listeners through another pool entry holding an equal id
				for(int r = 0; r < nreg && ! dead; ++r) {
					if(! attached[r] || ! rng.chance(1, 4)) continue;
					int j = regPool[r];
					for(int b = 0; b < n; ++b) if(b != regPool[r] && truth(regPool[r], b)) { j = b; break; }
					const bool got = world.remove(j, r);
					log(mapName + ": remove cb" + num(r) + " (under p" + num(regPool[r]) + ") through p" + num(j) + " -> " + num(got));
					count("route.remove_through_equal_id");
					if(! got) { fail("route:" + mapName + ":remove-through-equal-id-failed", "removeListener(" + P(j) + ", handle of cb" + num(r) + " registered under " + P(regPool[r]) + ") = 0"); dead = true; break; }
					attached[r] = 0;
				}
			}
		}
		world.closeDispatcher();
		callbackSink() = nullptr;
	}

	void run(int poolSize, int domain, uint64_t caseNo) {
		log(std::string("config ") + num(cfgIndex) + ": " + kCfgName[cfgIndex] + " pool=" + num(poolSize) + " domain=" + num(domain));
		const uint64_t eq0 = gEqCalls, lt0 = gLtCalls;
		build(poolSize, domain);
		evaluate();
		uint64_t collisions = 0, duplicates = 0;
		pairLaws(collisions, duplicates);
		tripleLaws();
		count("storage.eq_calls", gEqCalls - eq0);
		count("storage.lt_calls", gLtCalls - lt0);
		if(gDecoyCalls != 0) { fail("lookup:library-helper-call-resolved-to-a-function-of-the-storage's-namespace", "comparing ids called a function of the Storage type's own namespace that merely has the name of a library helper (argument-dependent lookup) " + unum(gDecoyCalls) + " time(s)"); gDecoyCalls = 0; }
		// a broken equivalence / ordering makes the maps' behaviour undefined: report the law, do not route
		if(! caseHasViolation() || ctx().optInt("route_always", 0) != 0) {
			routing(0);
			dead = false;
			routing(1);
		}
		else count("routing_skipped_after_law_violation");
		count("pool.values", (uint64_t)n);
		count("pool.colliding_pairs", collisions);
		count("pool.duplicate_pairs", duplicates);
		count((std::string("config.") + num(cfgIndex)).c_str());
		const bool nontrivial = collisions > 0 && duplicates > 0;
		if(! nontrivial) count("cases_without_collision_or_duplicate");
		Fnv f; f.addu(trace.h); f.addu((uint64_t)cfgIndex);
		if(nontrivial) markNontrivial(f.h);
		gTraceXor ^= mix(trace.h, caseNo);
		if(wantSample() && nontrivial) addSample("{\"case\":" + unum(caseNo) + ",\"history\":" + oplogJson(ctx().oplog, 60) + "}");
	}
};

template <typename C>
static void runCfg(Rng & rng, uint64_t caseNo, int cfgIndex)
{
	ledger().resetCase();
	const std::string & m = ctx().mode;
	int domain = rng.chance(1, 2) ? 8 : 24;
	if(m == "dense") domain = 4;
	else if(m == "sparse") domain = 200;
	int poolSize = (int)ctx().optInt("pool", 0);
	if(poolSize <= 0) poolSize = rng.range(36, 44);
	if(poolSize > 64) poolSize = 64;
	{
		WorldT<C> world;
		Case c(rng, world, cfgIndex, C::valueTruth);
		c.run(poolSize, domain, caseNo);
	}
	// prior memory (C20's dimension, checked here because this driver owns AnyId): an id that is DEFAULT-initialised
	// (`new (p) Id;`, a member no constructor mentions) in storage that held arbitrary bytes must be the same id as Id()
	if(! caseHasViolation()) {
		typedef typename C::Id Id;
		struct alignas(16) Raw { unsigned char b[sizeof(Id)]; };
		static const unsigned char pats[4] = { 0xFF, 0xA5, 0x5C, 0x01 };
		Raw r1, r2;
		memset(r1.b, pats[rng.below(4)], sizeof r1.b);
		{ Rng fill(rng.next()); for(size_t i = 0; i < sizeof r2.b; ++i) r2.b[i] = (unsigned char)fill.below(256); }
		Id * a = new (r1.b) Id;
		Id * b = new (r2.b) Id;
		const Id v = Id();
		const bool eqAB = *a == *b, eqAV = *a == v, ltAB = *a < *b, ltBA = *b < *a;
		const std::size_t ha = std::hash<Id>()(*a), hb = std::hash<Id>()(*b), hv = std::hash<Id>()(v);
		if(! eqAB || ! eqAV || ltAB || ltBA || ha != hb || ha != hv)
			violation(std::string("prior-memory:default-initialised-ids-differ:storage=") + kStoreName[cfgIndex],
				std::string(kCfgName[cfgIndex]) + ": two default-initialised ids in pre-filled storage: a==b " + num(eqAB) + ", a==Id() " + num(eqAV) + ", a<b " + num(ltAB) + ", b<a " + num(ltBA) + ", hashes " + unum(ha) + "/" + unum(hb) + "/" + unum(hv));
		count("default_initialised_ids_checked", 2);
		a->~Id(); b->~Id();
	}
	if(! caseHasViolation() && ledger().liveCount(K_CB) != 0)
		violation("lifetime:callback-leaked-after-destruction", num(ledger().liveCount(K_CB)) + " callback instance(s) alive after the dispatchers were destroyed");
}

static void runCase(uint64_t caseNo, Rng & rng)
{
	const long long only = ctx().optInt("cfg", -1);
	const int cfg = only >= 0 ? (int)only : (int)(caseNo % NCFG);
	switch(cfg) {
	case 0: runCfg<Cfg0>(rng, caseNo, 0); break;
	case 1: runCfg<Cfg1>(rng, caseNo, 1); break;
	case 2: runCfg<Cfg2>(rng, caseNo, 2); break;
	case 3: runCfg<Cfg3>(rng, caseNo, 3); break;
	case 4: runCfg<Cfg4>(rng, caseNo, 4); break;
	case 5: runCfg<Cfg5>(rng, caseNo, 5); break;
	case 6: runCfg<Cfg6>(rng, caseNo, 6); break;
	case 7: runCfg<Cfg7>(rng, caseNo, 7); break;
	case 8: runCfg<Cfg8>(rng, caseNo, 8); break;
	case 9: runCfg<Cfg9>(rng, caseNo, 9); break;
	default: --ctx().casesRun; break;
	}
}

int main(int argc, char ** argv)
{
	return runMain(argc, argv, runCase, []() {
		ctx().counters["trace_xor_lo"] = gTraceXor & 0xffffffffu;
		ctx().counters["trace_xor_hi"] = gTraceXor >> 32;
	});
}
