// model_list.h - M-disp: per-key sequential listener lists with snapshot invocation frames (C++11).
// Shared by the dispatcher and queue drivers.
#ifndef VF_MODEL_LIST_H
#define VF_MODEL_LIST_H

#include "vcommon.h"
#include <algorithm>
#include <map>
#include <string>
#include <vector>

namespace vf {

struct LNode { int cbid; bool live; int key; uint64_t born; };

struct ListFrame
{
	int key;
	std::vector<int> snap;
	size_t pos;
	int curUid;
	ListFrame() : key(0), pos(0), curUid(-1) {}
};

struct ListModel
{
	std::vector<LNode> nodes;
	std::map<int, std::vector<int> > order; // key -> uids in list order
	uint64_t tick;
	ListModel() : tick(0) {}

	const std::vector<int> & listOf(int key) const {
		static const std::vector<int> none;
		std::map<int, std::vector<int> >::const_iterator it = order.find(key);
		return it == order.end() ? none : it->second;
	}
	bool isLive(int uid) const { return uid >= 0 && uid < (int)nodes.size() && nodes[uid].live; }

	// where: 0 back, 1 front, 2 before `before` (if live in that key's list, else back)
	int add(int key, int cbid, int where, int before) {
		LNode n; n.cbid = cbid; n.live = true; n.key = key; n.born = ++tick;
		nodes.push_back(n);
		const int uid = (int)nodes.size() - 1;
		std::vector<int> & o = order[key];
		if(where == 1) o.insert(o.begin(), uid);
		else if(where == 2 && isLive(before) && nodes[before].key == key) o.insert(std::find(o.begin(), o.end(), before), uid);
		else o.push_back(uid);
		return uid;
	}
	bool remove(int uid) {
		if(! isLive(uid)) return false;
		std::vector<int> & o = order[nodes[uid].key];
		o.erase(std::find(o.begin(), o.end(), uid));
		nodes[uid].live = false;
		return true;
	}
	void clearAll() {
		for(size_t i = 0; i < nodes.size(); ++i) nodes[i].live = false;
		order.clear();
	}
	// copy the content of `src` (fresh uids, same cbids, same order); returns nothing, own content replaced
	void cloneFrom(const ListModel & src) {
		clearAll();
		for(std::map<int, std::vector<int> >::const_iterator it = src.order.begin(); it != src.order.end(); ++it)
			for(size_t i = 0; i < it->second.size(); ++i) add(it->first, src.nodes[it->second[i]].cbid, 0, -1);
	}
	size_t liveCount() const { size_t n = 0; for(std::map<int, std::vector<int> >::const_iterator it = order.begin(); it != order.end(); ++it) n += it->second.size(); return n; }

	ListFrame begin(int key) const { ListFrame f; f.key = key; f.snap = listOf(key); return f; }

	// next callback the snapshot semantics expect in frame f, or -1 when the invocation is complete
	int peekNext(ListFrame & f) const {
		while(f.pos < f.snap.size() && ! nodes[f.snap[f.pos]].live) ++f.pos;
		return f.pos < f.snap.size() ? f.snap[f.pos] : -1;
	}
	void consume(ListFrame & f) { f.curUid = f.snap[f.pos]; ++f.pos; }

	// classification of an unexpected call of cbid within frame f
	std::string classify(const ListFrame & f, int cbid) const {
		for(size_t i = 0; i < f.snap.size(); ++i) {
			if(nodes[f.snap[i]].cbid == cbid) {
				if(i < f.pos) return nodes[f.snap[i]].live ? "listener-called-twice" : "removed-listener-called-again";
				if(! nodes[f.snap[i]].live) return "listener-removed-before-its-turn-was-called";
				return "listener-out-of-order-or-predecessor-skipped";
			}
		}
		const std::vector<int> & o = listOf(f.key);
		for(size_t i = 0; i < o.size(); ++i) if(nodes[o[i]].cbid == cbid) return "listener-added-during-dispatch-was-called";
		for(size_t i = 0; i < nodes.size(); ++i) if(nodes[i].cbid == cbid && nodes[i].live) return "listener-of-another-event-called";
		return "unknown-listener-called";
	}
};

} // namespace vf

#endif
