// drv_remover_mt.cpp - several threads add and remove listeners through ONE ScopedRemover (it carries its own mutex, so
// concurrent use is intended); afterwards exactly the not-removed listeners are attached, and destroying the remover
// detaches every one of them (C15 under schedules).  Injected perturbing Threading policy; TSan build.   C++11.
#define VF_CUSTOM_HOOKS
#include "vcommon.h"
#include "vledger.h"
#include "vaccess.h"
#include "vpolicy.h"

#include <eventpp/callbacklist.h>
#include <eventpp/eventdispatcher.h>
#include <eventpp/utilities/scopedremover.h>

#include <thread>
#include <algorithm>
#include <memory>

using namespace vf;

struct PolMon { typedef MonThreading Threading; };
struct PolMonSpin { typedef MonSpinThreading Threading; };

struct NullSink : CallbackSink { void onCall(int, const ArgPack &, MutInts &) override {} };

template <typename Policies>
struct CLT
{
	typedef eventpp::CallbackList<void(int), Policies> T;
	typedef typename T::Handle Handle;
	typedef eventpp::ScopedRemover<T> R;
	static const char * name() { return "CallbackList"; }
	static Handle add(R & r, int, const TCallback & cb, uint32_t how, const Handle & before) { return how == 0 ? r.append(cb) : how == 1 ? r.prepend(cb) : r.insert(cb, before); }
	static bool remove(R & r, int, const Handle & h) { return r.remove(h); }
	static void trigger(T & t) { t(1); }
	template <typename F> static void enumerate(T & t, F f) { t.forEach(f); }
};
template <typename Policies>
struct EDT
{
	typedef eventpp::EventDispatcher<int, void(int), Policies> T;
	typedef typename T::Handle Handle;
	typedef eventpp::ScopedRemover<T> R;
	static const char * name() { return "EventDispatcher"; }
	static Handle add(R & r, int key, const TCallback & cb, uint32_t how, const Handle & before) { return how == 0 ? r.appendListener(key, cb) : how == 1 ? r.prependListener(key, cb) : r.insertListener(key, cb, before); }
	static bool remove(R & r, int key, const Handle & h) { return r.removeListener(key, h); }
	static void trigger(T & t) { t.dispatch(1, 1); t.dispatch(2, 1); }
	template <typename F> static void enumerate(T & t, F f) { t.forEach(1, f); t.forEach(2, f); }
};

template <typename K>
struct Runner
{
	typename K::T target;
	std::unique_ptr<typename K::R> remover;
	uint64_t caseSeed;
	int nthreads, ops[8];
	std::vector<int> kept[8];     // callbacks this thread added and did not remove
	std::atomic<int> done;
	std::atomic<long> removeFailures;

	void worker(int tid) {
		threadBegin(tid, 1, caseSeed);
		Rng & rng = tls().rng;
		std::vector<std::pair<int, typename K::Handle> > mine;
		int next = tid * 1000;
		try {
			for(int i = 0; i < ops[tid]; ++i) {
				const uint32_t c = rng.below(10);
				if(c < 6 || mine.empty()) {
					const int id = next++;
					const int key = 1 + (id & 1);
					typename K::Handle before;
					for(size_t j = 0; j < mine.size(); ++j) if(1 + (mine[j].first & 1) == key) { before = mine[j].second; break; }
					typename K::Handle h = K::add(*remover, key, TCallback(id), rng.below(3), before);
					mine.push_back(std::make_pair(id, h));
				}
				else if(c < 9) {
					const size_t j = rng.below((uint32_t)mine.size());
					const bool r = K::remove(*remover, 1 + (mine[j].first & 1), mine[j].second);
					if(! r) removeFailures.fetch_add(1, std::memory_order_relaxed); // it was attached through this remover: must report true
					mine.erase(mine.begin() + (long)j);
				}
				else K::trigger(target);
			}
		}
		catch(const SelfDeadlock &) { violation("deadlock:self-relock", "thread re-locked a mutex it owns"); }
		for(size_t j = 0; j < mine.size(); ++j) kept[tid].push_back(mine[j].first);
		done.fetch_add(1, std::memory_order_seq_cst);
	}
};

static void pickWindow(Rng & rng)
{
	static const char * kTags[] = { "lock.pre", "lock.post", "unlock.post", "cl.append.cs", "cl.remove.cs", "cl.insert.cs", "ed.find.cs", "atomic.rmw.post" };
	Sched & s = sched();
	s.seed = rng.next();
	const uint32_t m = rng.below(10);
	s.pRandom = (int)(20 + rng.below(100));
	if(m < 1) { s.mode = 0; return; }
	if(m < 5) { s.mode = 1; return; }
	s.mode = 2;
	s.tag = tags().idOf(kTags[rng.below(sizeof(kTags) / sizeof(kTags[0]))]);
	s.role = -1;
	s.nth = 1 + (int)rng.below(8);
	s.delayUs = 100 + (int)rng.below(600);
}

template <typename K>
static void runScenario(uint64_t caseNo, Rng & rng, const char * pol)
{
	ledger().resetCase();
	syncHash().store(0, std::memory_order_relaxed);
	syncSeq().store(0, std::memory_order_relaxed);
	threadBegin(0, 0, ctx().curSeed);
	NullSink sink;
	callbackSink() = &sink;
	{
		std::unique_ptr<Runner<K> > R(new Runner<K>());
		R->remover.reset(new typename K::R(R->target));
		R->caseSeed = ctx().curSeed;
		R->nthreads = 2 + (int)rng.below(3);
		R->done = 0; R->removeFailures = 0;
		int total = 0;
		for(int t = 1; t <= R->nthreads; ++t) { R->ops[t] = 6 + (int)rng.below(20); total += R->ops[t]; }
		pickWindow(rng);
		Sched & sd = sched();
		oplog(std::string("config ScopedRemover<") + K::name() + "> " + pol + ": threads=" + num(R->nthreads) + " ops=" + num(total) + " sched.mode=" + num(sd.mode.load())
			+ " tag=" + (sd.mode.load() == 2 ? tags().name[sd.tag.load()] : "-") + " nth=" + num(sd.nth.load()) + " delayUs=" + num(sd.delayUs.load()));
		std::vector<std::thread> th;
		for(int t = 1; t <= R->nthreads; ++t) th.push_back(std::thread(&Runner<K>::worker, R.get(), t));
		int waited = 0;
		while(R->done.load(std::memory_order_seq_cst) < R->nthreads) {
			std::this_thread::sleep_for(std::chrono::milliseconds(1));
			if(++waited > 15000) {
				std::string dkey; const std::string cyc = findDeadlock(dkey);
				if(! cyc.empty()) violation(dkey, cyc); else oplog("INCONCLUSIVE: threads did not finish within 15 s");
				writeResult();
				_exit(cyc.empty() ? 4 : 3);
			}
		}
		for(size_t i = 0; i < th.size(); ++i) th[i].join();
		sched().mode = 0;
		if(R->removeFailures.load() != 0) violation("remove-via-remover:returned-false-for-attached-listener", num(R->removeFailures.load()) + " remove call(s) through the remover returned false for a listener attached through it");
		// attached now = exactly what the threads kept
		std::vector<int> want, got;
		for(int t = 1; t <= R->nthreads; ++t) want.insert(want.end(), R->kept[t].begin(), R->kept[t].end());
		struct Collect { std::vector<int> * v; void operator() (const typename K::T::Callback & cb) const { v->push_back(cbIdOf(cb)); } };
		Collect c; c.v = &got;
		K::enumerate(R->target, c);
		std::sort(want.begin(), want.end()); std::sort(got.begin(), got.end());
		if(want != got && ! caseHasViolation()) violation("concurrent-use:attached-listeners-differ", num((long long)got.size()) + " listeners attached after the threads finished, " + num((long long)want.size()) + " were added and not removed");
		count("listeners_kept", want.size());
		count("operations", (uint64_t)total);
		// the remover goes away: nothing added through it may stay
		R->remover.reset();
		got.clear();
		K::enumerate(R->target, c);
		if(! got.empty() && ! caseHasViolation()) violation("listener-outlives-remover:after-concurrent-use", num((long long)got.size()) + " listener(s) still attached after the remover was destroyed");
		if(ledger().liveCount(K_CB) != 0 && ! caseHasViolation()) violation("lifetime:callback-instances-after-remover-destruction", num(ledger().liveCount(K_CB)) + " callback instance(s) alive");
	}
	callbackSink() = nullptr;
	const uint64_t sh = syncHash().load(std::memory_order_relaxed);
	Fnv f; f.addu(sh); f.addu(caseNo);
#if defined(VF_TSAN)
	markNontrivial(f.h);
#else
	markNontrivial(sh);
#endif
	if(wantSample()) addSample("{\"case\":" + unum(caseNo) + ",\"scenario\":" + oplogJson(ctx().oplog, 4) + ",\"sync_order_hash\":" + unum(sh) + "}");
}

static void runCase(uint64_t caseNo, Rng & rng)
{
	long long only = ctx().optInt("cfg", -1);
	const int cfg = only >= 0 ? (int)only : (int)(caseNo % 4);
	if(cfg == 0) runScenario<CLT<PolMon> >(caseNo, rng, "std::mutex");
	else if(cfg == 1) runScenario<EDT<PolMon> >(caseNo, rng, "std::mutex");
	else if(cfg == 2) runScenario<CLT<PolMonSpin> >(caseNo, rng, "SpinLock");
	else runScenario<EDT<PolMonSpin> >(caseNo, rng, "SpinLock");
}

int main(int argc, char ** argv) { return runMain(argc, argv, runCase); }
