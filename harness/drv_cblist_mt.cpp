// drv_cblist_mt.cpp - concurrent histories on one CallbackList / one EventDispatcher under the injected perturbing
// Threading policy; offline linearizability check against M-list + traversal oracle (C03).  C++11.
#define VF_CUSTOM_HOOKS
#include "vcommon.h"
#include "vledger.h"
#include "vaccess.h"
#include "vpolicy.h"
#include "lincheck.h"

#include <eventpp/callbacklist.h>
#include <eventpp/eventdispatcher.h>
#include <eventpp/hetercallbacklist.h>
#include <eventpp/hetereventdispatcher.h>

#include <thread>

using namespace vf;
typedef eventpp_verif::Access Access;

struct PolMon { typedef MonThreading Threading; };
struct PolMonSpin { typedef MonSpinThreading Threading; };
struct PolMonMap { typedef MonThreading Threading; template <typename K, typename V> using Map = std::map<K, V>; };

#if defined(VF_TSAN)
static const bool kTicks = false;
#else
static const bool kTicks = true;
#endif
static std::atomic<uint64_t> gTick(1);
static inline uint64_t tick() { return kTicks ? gTick.fetch_add(1, std::memory_order_seq_cst) : 0; }

enum { MAXUID = 1024, NKEYS = 2 };

struct Traversal { int thread, key; uint64_t tc, tr; bool isInvoke; std::vector<int> visited; };

struct ThreadLog
{
	std::vector<LinOp> ops[NKEYS];
	std::vector<Traversal> travs;
	Traversal * cur;
	ThreadLog() : cur(nullptr) {}
};
static ThreadLog gLog[MAXTHREADS];

struct MtSink : CallbackSink
{
	void onCall(int cbid, const ArgPack & args, MutInts &) override {
		ThreadLog & l = gLog[tls().tid % MAXTHREADS];
		if(! l.cur) { violation("invoke:callback-called-outside-any-invocation", "cb" + num(cbid)); return; }
		if(args.n != 1 || args.fp[0] != 4242) violation("invoke:arguments", "cb" + num(cbid) + " received " + args.str());
		l.cur->visited.push_back(cbid);
		perturb("callback.body");
	}
};

// ---- the object under test: one CallbackList (key ignored) or one EventDispatcher with NKEYS keys
template <typename Policies>
struct CLTarget
{
	typedef eventpp::CallbackList<void(int), Policies> L;
	typedef typename L::Handle Handle;
	L list;
	enum { nkeys = 1 };
	static const char * name() { return "CallbackList"; }
	Handle append(int, const TCallback & cb) { return list.append(cb); }
	Handle prepend(int, const TCallback & cb) { return list.prepend(cb); }
	Handle insert(int, const TCallback & cb, const Handle & h) { return list.insert(cb, h); }
	bool remove(int, const Handle & h) { return list.remove(h); }
	bool owns(int, const Handle & h) { return list.ownsHandle(h); }
	bool empty(int) { return list.empty(); }
	void invoke(int, int v) { list(v); }
	enum { hasQueries = 1 };
	struct EnumFn { std::vector<int> * v; void operator() (const typename L::Callback & cb) const { v->push_back(cbIdOf(cb)); perturb("callback.body"); } };
	void enumerate(int, std::vector<int> & out) { EnumFn f; f.v = &out; list.forEach(f); }
	L * peek(int) { return &list; }
};
template <typename Policies>
struct EDTarget
{
	typedef eventpp::EventDispatcher<int, void(int), Policies> D;
	typedef eventpp::CallbackList<void(int), Policies> L;
	typedef typename D::Handle Handle;
	D d;
	enum { nkeys = NKEYS };
	static const char * name() { return "EventDispatcher"; }
	Handle append(int k, const TCallback & cb) { return d.appendListener(k, cb); }
	Handle prepend(int k, const TCallback & cb) { return d.prependListener(k, cb); }
	Handle insert(int k, const TCallback & cb, const Handle & h) { return d.insertListener(k, cb, h); }
	bool remove(int k, const Handle & h) { return d.removeListener(k, h); }
	bool owns(int k, const Handle & h) { return d.ownsHandle(k, h); }
	bool empty(int k) { return ! d.hasAnyListener(k); }
	void invoke(int k, int v) { d.dispatch(k, v); }
	enum { hasQueries = 1 };
	struct EnumFn { std::vector<int> * v; void operator() (const typename L::Callback & cb) const { v->push_back(cbIdOf(cb)); perturb("callback.body"); } };
	void enumerate(int k, std::vector<int> & out) { EnumFn f; f.v = &out; d.forEach(k, f); }
	L * peek(int k) { return Access::findList(d, k); }
};

// ---- heterogeneous variants: "key" k selects the prototype (0: void(int), 1: void(int,int)); the per-prototype list of a
// HeterCallbackList is created lazily at its first use, which may be concurrent
struct HL1 { TCallback cb; explicit HL1(const TCallback & c) : cb(c) {} void operator() (int a) const { cb(a); } };
struct HL2 { TCallback cb; explicit HL2(const TCallback & c) : cb(c) {} void operator() (int a, int) const { cb(a); } };
typedef eventpp::HeterTuple<void(int), void(int, int)> HProtos;
struct HEnum1 { std::vector<int> * v; void operator() (const std::function<void(int)> & cb) const { const HL1 * l = cb.target<HL1>(); v->push_back(l ? l->cb.id() : -1); perturb("callback.body"); } };
struct HEnum2 { std::vector<int> * v; void operator() (const std::function<void(int, int)> & cb) const { const HL2 * l = cb.target<HL2>(); v->push_back(l ? l->cb.id() : -1); perturb("callback.body"); } };
template <typename Policies>
struct HCLTarget
{
	typedef eventpp::HeterCallbackList<HProtos, Policies> H;
	typedef eventpp::CallbackList<void(int), Policies> L; // only for the signature of peek(): no structural walk for the heterogeneous classes
	typedef typename H::Handle Handle;
	H list;
	enum { nkeys = 2, hasQueries = 0 };
	static const char * name() { return "HeterCallbackList"; }
	Handle append(int k, const TCallback & cb) { return k == 0 ? list.append(HL1(cb)) : list.append(HL2(cb)); }
	Handle prepend(int k, const TCallback & cb) { return k == 0 ? list.prepend(HL1(cb)) : list.prepend(HL2(cb)); }
	Handle insert(int k, const TCallback & cb, const Handle & h) { return k == 0 ? list.insert(HL1(cb), h) : list.insert(HL2(cb), h); }
	bool remove(int, const Handle & h) { return list.remove(h); }
	bool owns(int, const Handle &) { return false; }
	bool empty(int) { return false; }
	void invoke(int k, int v) { if(k == 0) list(v); else list(v, 0); }
	void enumerate(int k, std::vector<int> & out) { if(k == 0) { HEnum1 f; f.v = &out; list.template forEach<void(int)>(f); } else { HEnum2 f; f.v = &out; list.template forEach<void(int, int)>(f); } }
	L * peek(int) { return nullptr; }
};
template <typename Policies>
struct HEDTarget
{
	typedef eventpp::HeterEventDispatcher<int, HProtos, Policies> H;
	typedef eventpp::CallbackList<void(int), Policies> L;
	typedef typename H::Handle Handle;
	H d;
	enum { nkeys = 2, hasQueries = 0 };
	static const char * name() { return "HeterEventDispatcher"; }
	// both keys are listeners of ONE event (7) with different prototypes: they share the event's HeterCallbackList and its lazily created slots
	Handle append(int k, const TCallback & cb) { return k == 0 ? d.appendListener(7, HL1(cb)) : d.appendListener(7, HL2(cb)); }
	Handle prepend(int k, const TCallback & cb) { return k == 0 ? d.prependListener(7, HL1(cb)) : d.prependListener(7, HL2(cb)); }
	Handle insert(int k, const TCallback & cb, const Handle & h) { return k == 0 ? d.insertListener(7, HL1(cb), h) : d.insertListener(7, HL2(cb), h); }
	bool remove(int, const Handle & h) { return d.removeListener(7, h); }
	bool owns(int, const Handle &) { return false; }
	bool empty(int) { return false; }
	void invoke(int k, int v) { if(k == 0) d.dispatch(7, v); else d.dispatch(7, v, 0); }
	void enumerate(int k, std::vector<int> & out) { if(k == 0) { HEnum1 f; f.v = &out; d.template forEach<void(int)>(7, f); } else { HEnum2 f; f.v = &out; d.template forEach<void(int, int)>(7, f); } }
	L * peek(int) { return nullptr; }
};

template <typename Target>
struct Runner
{
	typedef typename Target::Handle Handle;
	Target t;
	Handle handles[MAXUID];
	std::atomic<int> published[MAXUID]; // 0 no, 1 yes (release/acquire: the program's own publication of a handle)
	int keyOf[MAXUID];
	int nthreads, opsPerThread[8];
	uint64_t caseSeed;
	std::atomic<int> done;

	Runner() { for(int i = 0; i < MAXUID; ++i) { published[i].store(0, std::memory_order_relaxed); keyOf[i] = 0; } done = 0; }

	int pickPublished(Rng & rng, int key, int self) {
		// own range and everybody's: a random uid that has been published for this key (or -1: empty handle)
		for(int tries = 0; tries < 6; ++tries) {
			int uid;
			const uint32_t c = rng.below(10);
			if(c < 4) uid = (int)rng.below(8);                                   // the pre-populated nodes: heavily shared
			else if(c < 7) uid = 100 * (1 + (int)rng.below((uint32_t)nthreads)) + (int)rng.below(6); // nodes created by some thread
			else if(c < 9) uid = 100 * self + (int)rng.below(8);
			else return -1;
			if(uid < MAXUID && published[uid].load(std::memory_order_acquire) && keyOf[uid] == key) return uid;
		}
		return -1;
	}

	void worker(int tid) {
		threadBegin(tid, tid, caseSeed);
		Rng & rng = tls().rng;
		ThreadLog & log = gLog[tid % MAXTHREADS];
		int nextUid = 100 * tid;
		try {
			for(int i = 0; i < opsPerThread[tid]; ++i) {
				const int key = (int)rng.below((uint32_t)Target::nkeys);
				const uint32_t c = rng.below(100);
				LinOp o; o.thread = tid; o.uid = -1; o.before = -1; o.result = 0;
				if(c < 34) { // add
					const int uid = nextUid++;
					o.uid = uid;
					keyOf[uid] = key;
					TCallback cb(uid);
					Handle h;
					const uint32_t w = rng.below(3);
					if(w == 2) o.before = pickPublished(rng, key, tid);
					const Handle hb = o.before >= 0 ? handles[o.before] : Handle();
					o.tc = tick();
					if(w == 0) { o.kind = LO_APPEND; h = t.append(key, cb); }
					else if(w == 1) { o.kind = LO_PREPEND; h = t.prepend(key, cb); }
					else { o.kind = LO_INSERT; h = t.insert(key, cb, hb); }
					o.tr = tick();
					handles[uid] = h;
					published[uid].store(1, std::memory_order_release);
					log.ops[key].push_back(o);
				}
				else if(c < 60) {
					o.kind = LO_REMOVE; o.uid = pickPublished(rng, key, tid);
					const Handle h = o.uid >= 0 ? handles[o.uid] : Handle();
					o.tc = tick(); o.result = t.remove(key, h) ? 1 : 0; o.tr = tick();
					log.ops[key].push_back(o);
				}
				else if(c < 70 && Target::hasQueries) {
					o.kind = LO_OWNS; o.uid = pickPublished(rng, key, tid);
					const Handle h = o.uid >= 0 ? handles[o.uid] : Handle();
					o.tc = tick(); o.result = t.owns(key, h) ? 1 : 0; o.tr = tick();
					log.ops[key].push_back(o);
				}
				else if(c < 76 && Target::hasQueries) {
					o.kind = LO_EMPTY;
					o.tc = tick(); o.result = t.empty(key) ? 1 : 0; o.tr = tick();
					log.ops[key].push_back(o);
				}
				else {
					Traversal tr; tr.thread = tid; tr.key = key; tr.isInvoke = c < 90;
					log.travs.push_back(tr);
					Traversal & T = log.travs.back();
					log.cur = &T;
					T.tc = tick();
					if(T.isInvoke) t.invoke(key, 4242);
					else t.enumerate(key, T.visited);
					T.tr = tick();
					log.cur = nullptr;
				}
			}
		}
		catch(const SelfDeadlock &) { violation("deadlock:self-relock", "thread re-locked a mutex it owns"); }
		done.fetch_add(1, std::memory_order_seq_cst);
	}
};

static void pickWindow(Rng & rng, int nthreads)
{
	static const char * kTags[] = { "lock.pre", "lock.post", "unlock.post", "atomic.rmw.pre", "atomic.rmw.post", "atomic.load.post", "cl.insert.locked-before", "cl.insert.locked-before",
		"cl.remove.cs", "cl.insert.cs", "cl.append.cs", "cl.foreach.next.cs", "cl.foreach.head.cs", "racy-read.end", "callback.body", "ed.find.cs" };
	Sched & s = sched();
	s.seed = rng.next();
	const uint32_t m = rng.below(10);
	s.pRandom = (int)(10 + rng.below(80));
	if(m < 1) { s.mode = 0; return; }
	if(m < 4) { s.mode = 1; return; }
	s.mode = 2;
	s.tag = tags().idOf(kTags[rng.below(sizeof(kTags) / sizeof(kTags[0]))]);
	s.role = rng.chance(1, 4) ? -1 : 1 + (int)rng.below((uint32_t)nthreads);
	s.nth = 1 + (int)rng.below(5);
	s.delayUs = 100 + (int)rng.below(700);
}

template <typename Target>
static void runScenario(uint64_t caseNo, Rng & rng, const char * polName)
{
	ledger().resetCase();
	for(int i = 0; i < MAXTHREADS; ++i) { for(int k = 0; k < NKEYS; ++k) gLog[i].ops[k].clear(); gLog[i].travs.clear(); gLog[i].cur = nullptr; }
	syncHash().store(0, std::memory_order_relaxed);
	syncSeq().store(0, std::memory_order_relaxed);
	threadBegin(0, 0, ctx().curSeed);
	MtSink sink;
	callbackSink() = &sink;
	uint64_t nops = 0;
	{
		Runner<Target> * R = new Runner<Target>();
		R->caseSeed = ctx().curSeed;
		R->nthreads = 2 + (int)rng.below(3);
		int budgetOps = 0;
		for(int t = 1; t <= R->nthreads; ++t) { R->opsPerThread[t] = 4 + (int)rng.below(7); budgetOps += R->opsPerThread[t]; }
		// pre-populated content (part of the model's initial state)
		std::vector<int> initial[NKEYS];
		const int npre = (! Target::hasQueries && rng.chance(1, 2)) ? 0 : 1 + (int)rng.below(6); // heterogeneous: half of the histories start with no per-prototype list created yet
		sched().mode = 0;
		for(int i = 0; i < npre; ++i) {
			const int key = (int)rng.below((uint32_t)Target::nkeys);
			R->keyOf[i] = key;
			R->handles[i] = R->t.append(key, TCallback(i));
			R->published[i].store(1, std::memory_order_release);
			initial[key].push_back(i);
		}
		// a sixth of the histories take the list(s) across the wrap of the generation counter while the threads run: the renumbering of
		// all nodes that the wrap triggers (inside append/prepend/insert) must be as well synchronised as any other structural change
		static const bool allNearWrap = ctx().optInt("nearwrap", 0) != 0; // C19: every homogeneous history starts just before the wrap
		const bool nearWrap = rng.chance(1, 6) || (allNearWrap && Target::hasQueries);
		if(nearWrap) {
			count("near_wrap_histories");
			for(int key = 0; key < Target::nkeys; ++key) {
				typename Target::L * l = R->t.peek(key);
				if(l) Access::setCounter(*l, 0xffffffffu - rng.below((uint32_t)(budgetOps / 3 + 1)));
			}
		}
		pickWindow(rng, R->nthreads);
		Sched & sd = sched();
		const uint64_t forcedBefore = sd.forced.load();
		oplog(std::string("config ") + Target::name() + " " + polName + ": threads=" + num(R->nthreads) + " ops=" + num(budgetOps) + " pre-populated=" + num(npre) + (nearWrap ? " generation-counter-near-wrap" : "")
			+ " sched.mode=" + num(sd.mode.load()) + " tag=" + (sd.mode.load() == 2 ? tags().name[sd.tag.load()] : "-") + " role=" + num(sd.role.load()) + " nth=" + num(sd.nth.load()) + " delayUs=" + num(sd.delayUs.load()));

		std::vector<std::thread> th;
		for(int t = 1; t <= R->nthreads; ++t) th.push_back(std::thread(&Runner<Target>::worker, R, t));
		// watchdog
		int waited = 0;
		while(R->done.load(std::memory_order_seq_cst) < R->nthreads) {
			std::this_thread::sleep_for(std::chrono::milliseconds(1));
			if(++waited > 15000) {
				std::string dkey; const std::string cyc = findDeadlock(dkey);
				if(! cyc.empty()) violation(dkey, cyc);
				else oplog("INCONCLUSIVE: threads did not finish within 15 s and no lock cycle was found");
				writeResult();
				_exit(cyc.empty() ? 4 : 3);
			}
		}
		for(size_t i = 0; i < th.size(); ++i) th[i].join();
		sched().mode = 0;
		if(nearWrap) for(int key = 0; key < Target::nkeys; ++key) { typename Target::L * l = R->t.peek(key); if(l && Access::counter(*l) < 0x80000000u) count("near_wrap_histories_that_wrapped"); }
		count("windows_forced", sd.forced.load() - forcedBefore);
		if(sd.mode.load() == 2) count("targeted_cases");

		// ---- final state, structure, ledger
		long finalTotal = 0;
		for(int key = 0; key < Target::nkeys && ! caseHasViolation(); ++key) {
			std::vector<int> fin;
			R->t.enumerate(key, fin);
			finalTotal += (long)fin.size();
			typename Target::L * l = R->t.peek(key);
			if(l) {
				std::vector<NodeView> v;
				const std::string err = Access::walk(*l, v);
				if(! err.empty()) { violation("structure:" + err, "key " + num(key) + ": " + err); break; }
				bool same = v.size() == fin.size();
				for(size_t i = 0; same && i < v.size(); ++i) same = v[i].cbid == fin[i];
				if(! same) { violation("structure:enumeration-differs-from-linked-nodes", "key " + num(key)); break; }
			}
			// ---- history of this key
			std::vector<LinOp> ops;
			for(int t = 0; t < MAXTHREADS; ++t) ops.insert(ops.end(), gLog[t].ops[key].begin(), gLog[t].ops[key].end());
			nops += ops.size();
			for(size_t i = 0; i < ops.size(); ++i) oplog("  k" + num(key) + " " + ops[i].str());
			{ std::string s = "  k" + num(key) + " final:"; for(size_t i = 0; i < fin.size(); ++i) s += " u" + num(fin[i]); oplog(s); }
			// at-most-once removal, nothing duplicated (direct counts; independent of the search)
			std::vector<int> removedOk(MAXUID, 0), added(MAXUID, 0);
			for(size_t i = 0; i < initial[key].size(); ++i) added[initial[key][i]] = 1;
			for(size_t i = 0; i < ops.size(); ++i) {
				if(ops[i].kind <= LO_INSERT) added[ops[i].uid] = 1;
				if(ops[i].kind == LO_REMOVE && ops[i].result && ops[i].uid >= 0 && ++removedOk[ops[i].uid] > 1) { violation("remove:same-callback-removed-successfully-twice", "u" + num(ops[i].uid)); break; }
			}
			if(caseHasViolation()) break;
			std::vector<int> seen(MAXUID, 0);
			for(size_t i = 0; i < fin.size(); ++i) {
				const int u = fin[i];
				if(u < 0 || u >= MAXUID || ! added[u]) { violation("final:unknown-callback-in-list", "u" + num(u)); break; }
				if(++seen[u] > 1) { violation("final:callback-duplicated", "u" + num(u)); break; }
				if(removedOk[u]) { violation("final:removed-callback-still-in-list", "u" + num(u)); break; }
			}
			if(caseHasViolation()) break;
			for(int u = 0; u < MAXUID; ++u) if(added[u] && ! removedOk[u] && ! seen[u]) { violation("final:callback-lost", "u" + num(u) + " was added, never removed successfully, and is not in the list"); break; }
			if(caseHasViolation()) break;

			if(kTicks) {
				LinOp fo; fo.thread = 0; fo.kind = LO_FINAL; fo.uid = -1; fo.before = -1; fo.result = 0; fo.tc = ~0ULL - 1; fo.tr = ~0ULL; fo.finalOrder = fin;
				ops.push_back(fo);
				LinChecker chk(ops, initial[key]);
				LinResult r = chk.run(5000);
				count("lincheck.search_nodes", r.nodes);
				if(r.timedOut) { count("lincheck.inconclusive"); }
				else if(! r.ok) { violation("linearizability:no-sequential-execution-explains-the-history", "key " + num(key) + ": " + num((long long)ops.size()) + " operations, " + unum(r.nodes) + " search nodes"); break; }
				else count("lincheck.linearizable_histories");
				countMax("max_ops_in_history", ops.size());
			}
			// ---- traversal oracle
			for(int t = 0; t < MAXTHREADS && ! caseHasViolation(); ++t) for(size_t i = 0; i < gLog[t].travs.size(); ++i) {
				const Traversal & T = gLog[t].travs[i];
				if(T.key != key) continue;
				count(T.isInvoke ? "traversals.invoke" : "traversals.forEach");
				std::vector<int> cnt(MAXUID, 0);
				bool bad = false;
				for(size_t j = 0; j < T.visited.size(); ++j) {
					const int u = T.visited[j];
					if(u < 0 || u >= MAXUID || ! added[u]) { violation("traversal:unknown-callback-visited", "u" + num(u)); bad = true; break; }
					if(++cnt[u] > 1) { violation("traversal:callback-visited-twice", "T" + num(T.thread) + " visited u" + num(u) + " twice in one " + (T.isInvoke ? "invocation" : "enumeration")); bad = true; break; }
				}
				if(bad) break;
				if(kTicks) {
					// per uid: when it was certainly in / certainly out
					for(size_t j = 0; j < ops.size() && ! bad; ++j) {
						const LinOp & o = ops[j];
						if(o.kind == LO_REMOVE && o.result && o.tr < T.tc && cnt[o.uid]) { violation("traversal:visited-callback-removed-before-it-began", "u" + num(o.uid)); bad = true; }
						if(o.kind <= LO_INSERT && o.tc > T.tr && cnt[o.uid]) { violation("traversal:visited-callback-added-after-it-ended", "u" + num(o.uid)); bad = true; }
					}
					if(bad) break;
					for(int u = 0; u < MAXUID && ! bad; ++u) {
						if(! added[u]) continue;
						uint64_t addRet = 0; bool isInitial = false;
						for(size_t j = 0; j < initial[key].size(); ++j) if(initial[key][j] == u) isInitial = true;
						uint64_t remCall = ~0ULL;
						for(size_t j = 0; j < ops.size(); ++j) {
							if(ops[j].kind <= LO_INSERT && ops[j].uid == u) addRet = ops[j].tr;
							if(ops[j].kind == LO_REMOVE && ops[j].uid == u && ops[j].result) remCall = ops[j].tc;
						}
						const bool presentThroughout = (isInitial || (addRet != 0 && addRet < T.tc)) && remCall > T.tr;
						if(presentThroughout && cnt[u] != 1) { violation("traversal:callback-present-throughout-not-visited", "T" + num(T.thread) + " did not visit u" + num(u)); bad = true; }
					}
					if(bad) break;
				}
				// list order: the visited callbacks that survive to the end must appear in final order
				size_t pos = 0;
				for(size_t j = 0; j < T.visited.size() && ! bad; ++j) {
					const int u = T.visited[j];
					if(! seen[u]) continue;
					size_t p = pos;
					while(p < fin.size() && fin[p] != u) ++p;
					if(p == fin.size()) { violation("traversal:visit-order-contradicts-list-order", "T" + num(T.thread) + " visited u" + num(u) + " after a callback that follows it in the list"); bad = true; }
					pos = p;
				}
				if(bad) break;
			}
		}
		delete R;
		if(! caseHasViolation() && ledger().liveCount(K_CB) != 0) violation("lifetime:callback-leaked-after-destruction", num(ledger().liveCount(K_CB)) + " instance(s) alive after the container was destroyed");
		(void)finalTotal;
	}
	callbackSink() = nullptr;
	count("operations", nops);
	const uint64_t sh = syncHash().load(std::memory_order_relaxed);
	Fnv f; f.addu(sh); f.addu(caseNo);
	markNontrivial(kTicks ? sh : f.h);
	if(wantSample()) addSample("{\"case\":" + unum(caseNo) + ",\"history\":" + oplogJson(ctx().oplog, 50) + ",\"sync_order_hash\":" + unum(sh) + "}");
}

static void runCase(uint64_t caseNo, Rng & rng)
{
	long long only = ctx().optInt("cfg", -1);
	const int cfg = only >= 0 ? (int)only : (int)(caseNo % 7);
	switch(cfg) {
	case 0: runScenario<CLTarget<PolMon> >(caseNo, rng, "std::mutex"); break;
	case 1: runScenario<CLTarget<PolMonSpin> >(caseNo, rng, "SpinLock"); break;
	case 2: runScenario<EDTarget<PolMon> >(caseNo, rng, "std::mutex unordered_map"); break;
	case 3: runScenario<EDTarget<PolMonMap> >(caseNo, rng, "std::mutex std::map"); break;
	case 4: runScenario<EDTarget<PolMonSpin> >(caseNo, rng, "SpinLock unordered_map"); break;
	case 5: runScenario<HCLTarget<PolMon> >(caseNo, rng, "std::mutex"); break;
	default: runScenario<HEDTarget<PolMon> >(caseNo, rng, "std::mutex"); break;
	}
}

int main(int argc, char ** argv)
{
	return runMain(argc, argv, runCase, []() {
		TagTable & tt = tags();
		for(int i = 0; i < tt.n.load(); ++i) ctx().counters[std::string("tag.") + tt.name[i]] = tt.visits[i].load();
	});
}
