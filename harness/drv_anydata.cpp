// drv_anydata.cpp - monitor of property C17: AnyData holds, moves and destroys
// its value like the value itself.  C++17.
//
// Stored types, per AnyData capacity C in {16, 24, 64} (effective inline capacity
// is max(C, sizeof(LargeData)) ):
//   Blob<N> for EVERY N in 1..C+24   sizeof(Blob<N>) == N exactly, alignment = largest power
//                                    of two <= 8 dividing N; ledger-tracked BY ADDRESS (an
//                                    object of one byte cannot carry its own bookkeeping), N
//                                    pattern bytes derived from (id, N) verified on every read
//   int, std::string (short and long), std::unique_ptr<Blob<24>> (move-only),
//   std::shared_ptr<Blob<24>>, UBox<S> (move-only, S bytes), SBox<S> (shared ownership, S bytes)
//   with S = the capacity and the capacity + 8
// Construction forms: lvalue, const lvalue, rvalue, const rvalue, temporary, and a copy of the
// object held by ANOTHER AnyData.  Oracle (what the statement promises, nothing else):
//   * reading back by get<T>(), conversion to T&, to T*, and getAddress() gives the stored value,
//     all at one address, the same on repeated reads;
//   * isType<T> is asked for every instantiated type: true exactly for the stored one;
//   * lvalue forms leave the source intact and the ledger shows a copy; rvalue forms and every
//     move of an AnyData (chains of 1..20, also inside queued events) show NO copy (and a move
//     of the object for Blob sources); unique/shared pointers: source emptied, use_count exact;
//   * every held object is destroyed exactly once: double destruction / use after destruction /
//     object constructed over a live one are seen by the address registry, leaks by the ledger
//     at quiescent points and after everything was destroyed;
//   * round trips through EventQueue<int, void(const AnyData<C>&)>: enqueue / direct dispatch
//     converting from the concrete object, process / processOne / processIf / processUntil /
//     clearEvents / destruction with events pending; listeners taking const AnyData& and
//     listeners taking const T& (conversion operator) must observe the stored value.
//     (takeEvent / peekEvent cannot be instantiated with an AnyData argument: QueuedEvent is
//     neither default constructible nor assignable.)
// Whether an object sits inline or on the heap is OBSERVED (address inside the AnyData or not),
// used as evidence and for the non-triviality rule, never asserted.
//
// modes (--mode): random (default; one random scenario per case),
//                 exhaustive (every type x every construction form once per case)
// options (--opt): cap=16|24|64 (fix the capacity; default caseNo % 3), steps=N (operations of a random case, default 10..40)
// build: one binary takes ~110 s (g++ -O1 ASan+UBSan); -DVF_CAP_MASK=1|2|4 gives three binaries of < 60 s
//        each (run each with --opt cap=16|24|64), see below
#include "vcommon.h"
#include "vledger.h"
#include "vaccess.h"

#include <eventpp/eventqueue.h>
#include <eventpp/utilities/anydata.h>

#include <algorithm>
#include <deque>
#include <memory>
#include <string>
#include <unordered_map>
#include <unordered_set>
#include <cstdlib>
#include <new>
#include <utility>
#include <vector>

using namespace vf;

// Build only a part of the configurations (parallel / faster compilation); cases of the other parts are skipped:
//   -DVF_CAP_MASK=m     bit 0: capacity 16, bit 1: capacity 24, bit 2: capacity 64, bit 3: capacity 8 (default 15)
//   -DVF_TYPE_PARTS=n -DVF_TYPE_PART=k   only the stored types whose index % n == k are generated as STORED types
//                       (isType is still asked for every type of the capacity)
#ifndef VF_CAP_MASK
#define VF_CAP_MASK 15
#endif
#ifndef VF_TYPE_PARTS
#define VF_TYPE_PARTS 1
#endif
#ifndef VF_TYPE_PART
#define VF_TYPE_PART 0
#endif

// ------------------------------------------------------------------ message building, out of line (keeps the generated code small)
struct Piece
{
	const char * c; const std::string * s; long long n;
	Piece(const char * v) : c(v), s(nullptr), n(0) {}
	Piece(const std::string & v) : c(nullptr), s(&v), n(0) {}
	Piece(int v) : c(nullptr), s(nullptr), n(v) {}
	Piece(long v) : c(nullptr), s(nullptr), n(v) {}
	Piece(long long v) : c(nullptr), s(nullptr), n(v) {}
	Piece(unsigned long v) : c(nullptr), s(nullptr), n((long long)v) {}
	Piece(bool v) : c(nullptr), s(nullptr), n(v ? 1 : 0) {}
};
static __attribute__((noinline)) std::string joinPieces(const Piece * p, size_t n)
{
	std::string o;
	for(size_t i = 0; i < n; ++i) { if(p[i].c) o += p[i].c; else if(p[i].s) o += *p[i].s; else o += num(p[i].n); }
	return o;
}
template <typename ...A> static std::string S(const A & ...a) { const Piece p[] = { Piece(a)... }; return joinPieces(p, sizeof...(A)); }

// ------------------------------------------------------------------ Blob: tracked by address
struct BlobRec { int id; int n; bool movedFrom; };
typedef std::unordered_map<const void *, BlobRec> BlobMap;
static BlobMap & blobMap() { static BlobMap * m = new BlobMap(); return *m; }

static void blobPattern(int id, int n, unsigned char * p)
{
	uint64_t x = (uint64_t)id * 0x9E3779B97F4A7C15ULL + (uint64_t)n * 0x100000001B3ULL + 777;
	for(int i = 0; i < n; ++i) p[i] = (unsigned char)(splitmix(x) & 0xff);
}

static void blobRegister(const void * self, int id, int n, bool movedFrom)
{
	BlobMap & m = blobMap();
	BlobMap::iterator it = m.find(self);
	if(it != m.end()) {
		// a live object is being overwritten without having been destroyed
		violation("lifetime:constructed-over-live-object:payload", "a Blob<" + num(n) + "> id=" + num(id) + " is constructed at an address where Blob id=" + num(it->second.id) + " is still alive");
		ledger().died(K_PAYLOAD, it->second.id);
		m.erase(it);
	}
	BlobRec r; r.id = id; r.n = n; r.movedFrom = movedFrom;
	m[self] = r;
	ledger().born(K_PAYLOAD, id);
}

static void blobCtor(const void * self, int id, int n)
{
	ledger().constructed[K_PAYLOAD].fetch_add(1, std::memory_order_relaxed);
	blobRegister(self, id, n, false);
}

// how: 1 copy, 2 move
static void blobFrom(const void * self, const void * src, int n, int how)
{
	BlobMap & m = blobMap();
	BlobMap::iterator it = m.find(src);
	int id = -1;
	bool mf = false;
	if(it == m.end()) lifetimeError(how == 1 ? "copy-from-destroyed" : "move-from-destroyed", K_PAYLOAD, -1);
	else {
		id = it->second.id; mf = it->second.movedFrom;
		if(how == 2) it->second.movedFrom = true;
	}
	if(how == 1) ledger().copied[K_PAYLOAD].fetch_add(1, std::memory_order_relaxed);
	else ledger().moved[K_PAYLOAD].fetch_add(1, std::memory_order_relaxed);
	blobRegister(self, id, n, mf);
}

static void blobDtor(const void * self)
{
	BlobMap & m = blobMap();
	BlobMap::iterator it = m.find(self);
	if(it == m.end()) { lifetimeError("double-destruction", K_PAYLOAD, -1); return; } // or destruction of something never constructed
	ledger().died(K_PAYLOAD, it->second.id);
	m.erase(it);
}

// id, or a negative marker: destroyed / corrupted / moved-from
static long long blobObserve(const void * self, const unsigned char * pat, int n)
{
	BlobMap & m = blobMap();
	BlobMap::iterator it = m.find(self);
	if(it == m.end()) { lifetimeError("use-after-destruction", K_PAYLOAD, -1); return -1000000; }
	const BlobRec r = it->second;
	if(r.movedFrom) return -3000000 - r.id;
	unsigned char want[160];
	blobPattern(r.id, n, want);
	if(r.n != n || memcmp(want, pat, (size_t)n) != 0) {
		violation("payload-corrupted", "Blob<" + num(n) + "> id=" + num(r.id) + " has a broken pattern");
		return -2000000 - r.id;
	}
	return r.id;
}

static int blobState(const void * self) // 1 moved-from, 0 intact, -1 unknown (not alive)
{
	BlobMap::iterator it = blobMap().find(self);
	if(it == blobMap().end()) return -1;
	return it->second.movedFrom ? 1 : 0;
}

template <int N> struct BlobAlign { static const int value = (N % 8 == 0) ? 8 : (N % 4 == 0) ? 4 : (N % 2 == 0) ? 2 : 1; };

// a type that allocates itself: its own operator new / operator delete (a pool, an arena, a counting allocator).  Whatever
// holds such an object on the heap must obtain the memory from the type's operator new exactly when it gives it back to the
// type's operator delete ("destroys its value like the value itself"); the placement forms are declared because a class-level
// operator new hides the global placement form
typedef std::unordered_set<const void *> OwnBlockSet;
static OwnBlockSet & ownBlocks() { static OwnBlockSet * m = new OwnBlockSet(); return *m; }
template <bool Own> struct OwnNewBase {};
template <> struct OwnNewBase<true>
{
	static void * operator new(std::size_t n) { void * p = std::malloc(n); if(! p) throw std::bad_alloc(); ownBlocks().insert(p); count("own_operator_new.blocks"); return p; }
	static void operator delete(void * p) noexcept {
		if(! p) return;
		if(ownBlocks().erase(p) == 0) {
			violation("allocation:object-released-through-its-own-operator-delete-was-not-allocated-by-its-operator-new", "a held object of a type with its own operator new/operator delete is deleted through the type's operator delete, but the memory did not come from the type's operator new");
			::operator delete(p);
			return;
		}
		std::free(p);
	}
	static void * operator new(std::size_t, void * where) noexcept { return where; }
	static void operator delete(void *, void *) noexcept {}
};

// NX = false: the move constructor is not declared noexcept (a container that moves "if noexcept" would copy such an object)
// ON = true: the type has its own operator new / operator delete
template <int N, bool NX = true, bool ON = false>
struct alignas(BlobAlign<N>::value) Blob : OwnNewBase<ON>
{
	unsigned char pat[N];
	explicit Blob(int id) { blobPattern(id, N, pat); blobCtor(this, id, N); }
	Blob(const Blob & o) { memcpy(pat, o.pat, N); blobFrom(this, &o, N, 1); }
	Blob(Blob && o) noexcept(NX) { memcpy(pat, o.pat, N); blobFrom(this, &o, N, 2); memset(o.pat, 0xDD, N); }
	Blob & operator = (const Blob &) = delete;
	Blob & operator = (Blob &&) = delete;
	~Blob() { blobDtor(this); }
	long long observe() const { return blobObserve(this, pat, N); }
};
static_assert(sizeof(Blob<1>) == 1 && sizeof(Blob<16>) == 16 && sizeof(Blob<17>) == 17 && sizeof(Blob<88>) == 88, "sizeof(Blob<N>) must be N");
static_assert(sizeof(Blob<16, true, true>) == 16 && sizeof(Blob<17, true, true>) == 17, "sizeof(Blob<N>) must be N (empty base)");
static_assert(alignof(Blob<17>) == 1 && alignof(Blob<16>) == 8 && alignof(Blob<12>) == 4 && alignof(Blob<6>) == 2, "Blob alignment");

static_assert(! std::is_nothrow_move_constructible<Blob<8, false> >::value && std::is_nothrow_move_constructible<Blob<8> >::value, "Blob<N,false> must have a throwing move constructor");

// trivially copyable and trivially destructible object of N bytes (nothing to track: like int, but of any size)
template <int N>
struct Pod
{
	int id;
	unsigned char pad[N - 4];
	explicit Pod(int i) : id(i) { for(int k = 0; k < N - 4; ++k) pad[k] = (unsigned char)((i * 13 + k * 5 + 1) & 0xff); }
};
static_assert(std::is_trivially_destructible<Pod<8> >::value && std::is_trivially_copyable<Pod<40> >::value && sizeof(Pod<40>) == 40, "Pod<N> must be trivial and N bytes");

// a value type with an initializer_list constructor that accepts the type itself (as JSON-like values and vector<any> have):
// list-initialising a Nest from a Nest does not copy or move it, it wraps it one level deeper
struct Nest
{
	std::shared_ptr<std::vector<Nest> > kids;
	int id;
	explicit Nest(int i) : id(i) {}
	Nest(std::initializer_list<Nest> l) : kids(std::make_shared<std::vector<Nest> >(l)), id(-77) {}
};
static_assert(sizeof(Nest) == 24, "Nest is 24 bytes: inline for capacities >= 24");

typedef Blob<24> Pointee;
typedef std::unique_ptr<Pointee> UPtr;
typedef std::shared_ptr<Pointee> SPtr;

static unsigned char padByte(int id, int i) { return (unsigned char)((id * 31 + i * 7 + 5) & 0xff); }

// move-only object of S bytes
template <int S>
struct UBox
{
	UPtr p;
	unsigned char pad[S - 8];
	explicit UBox(int id) : p(new Pointee(id)) { for(int i = 0; i < S - 8; ++i) pad[i] = padByte(id, i); }
	UBox(UBox &&) = default;
	UBox(const UBox &) = delete;
};
// shared-ownership object of S bytes
template <int S>
struct SBox
{
	SPtr p;
	unsigned char pad[S - 16];
	explicit SBox(int id) : p(std::make_shared<Pointee>(id)) { for(int i = 0; i < S - 16; ++i) pad[i] = padByte(id, i); }
};
static_assert(sizeof(UPtr) == 8 && sizeof(SPtr) == 16 && sizeof(UBox<16>) == 16 && sizeof(UBox<72>) == 72 && sizeof(SBox<24>) == 24 && sizeof(SBox<72>) == 72, "box sizes");

// ------------------------------------------------------------------ traits of the stored types
enum TypeClass { TC_BLOB, TC_INT, TC_STRING, TC_UPTR, TC_SPTR, TC_UBOX, TC_SBOX, TC_POD, TC_NEST, TC_KINDS };
static const char * kClassName[] = { "blob", "int", "string", "unique_ptr", "shared_ptr", "move_only_box", "shared_box", "pod", "nested_value" };

template <typename T> struct Tr;

template <typename T> struct VariantOf { static const int value = 0; };
template <int N> struct VariantOf<Blob<N, false> > { static const int value = 1; };
template <int N> struct VariantOf<Blob<N, true, true> > { static const int value = 2; };
static std::string typeName(int cls, int size, int variant)
{
	switch(cls) {
	case TC_BLOB: return "Blob<" + num(size) + (variant == 1 ? ",throwing-move>" : variant == 2 ? ",own-operator-new>" : ">");
	case TC_POD: return "Pod<" + num(size) + ">";
	case TC_NEST: return "Nest";
	case TC_INT: return "int";
	case TC_STRING: return "std::string";
	case TC_UPTR: return "unique_ptr<Blob<24>>";
	case TC_SPTR: return "shared_ptr<Blob<24>>";
	case TC_UBOX: return "UBox<" + num(size) + ">";
	default: return "SBox<" + num(size) + ">";
	}
}

template <int N, bool NX, bool ON> struct Tr<Blob<N, NX, ON> >
{
	static const int cls = TC_BLOB; static const bool copyable = true;
	static Blob<N, NX, ON> make(int id) { return Blob<N, NX, ON>(id); }
	static long long fp(const Blob<N, NX, ON> & v) { return v.observe(); }
	static int srcState(const Blob<N, NX, ON> & v) { return blobState(&v); }
	static long shares(const Blob<N, NX, ON> &) { return -1; }
};
template <> struct Tr<Nest>
{
	static const int cls = TC_NEST; static const bool copyable = true;
	static Nest make(int id) { return Nest(id); }
	static long long fp(const Nest & v) { return v.kids ? -2000000 - (long long)v.kids->size() : (long long)v.id; } // wrapped: not the value that was stored
	static int srcState(const Nest &) { return -1; }
	static long shares(const Nest &) { return -1; }
};
template <int N> struct Tr<Pod<N> >
{
	static const int cls = TC_POD; static const bool copyable = true;
	static Pod<N> make(int id) { return Pod<N>(id); }
	static long long fp(const Pod<N> & v) { const Pod<N> w(v.id); return memcmp(w.pad, v.pad, N - 4) == 0 ? (long long)v.id : -2000000; }
	static int srcState(const Pod<N> &) { return -1; }
	static long shares(const Pod<N> &) { return -1; }
};
template <> struct Tr<int>
{
	static const int cls = TC_INT; static const bool copyable = true;
	static int make(int id) { return id; }
	static long long fp(const int & v) { return v; }
	static int srcState(const int &) { return -1; }
	static long shares(const int &) { return -1; }
};
template <> struct Tr<std::string>
{
	static const int cls = TC_STRING; static const bool copyable = true;
	static std::string make(int id) { return "s" + num(id) + ":" + std::string((size_t)(id % 41), (char)('a' + id % 26)); } // 3..47 characters: short and long
	static long long fp(const std::string & v) {
		if(v.size() < 3 || v[0] != 's') return -2000000;
		const long long id = atoll(v.c_str() + 1);
		return (id >= 0 && id < 100000 && v == make((int)id)) ? id : -2000000;
	}
	static int srcState(const std::string &) { return -1; } // content of a moved-from string is unspecified
	static long shares(const std::string &) { return -1; }
};
template <> struct Tr<UPtr>
{
	static const int cls = TC_UPTR; static const bool copyable = false;
	static UPtr make(int id) { return UPtr(new Pointee(id)); }
	static long long fp(const UPtr & v) { return v ? v->observe() : -7; }
	static int srcState(const UPtr & v) { return v ? 0 : 1; }
	static long shares(const UPtr &) { return -1; }
};
template <> struct Tr<SPtr>
{
	static const int cls = TC_SPTR; static const bool copyable = true;
	static SPtr make(int id) { return std::make_shared<Pointee>(id); }
	static long long fp(const SPtr & v) { return v ? v->observe() : -7; }
	static int srcState(const SPtr & v) { return v ? 0 : 1; }
	static long shares(const SPtr & v) { return v.use_count(); }
};
template <typename B> static long long boxFp(const B & v, int padLen)
{
	if(! v.p) return -7;
	const long long id = v.p->observe();
	if(id < 0) return id;
	for(int i = 0; i < padLen; ++i) if(v.pad[i] != padByte((int)id, i)) return -2000000 - id;
	return id;
}
template <int S> struct Tr<UBox<S> >
{
	static const int cls = TC_UBOX; static const bool copyable = false;
	static UBox<S> make(int id) { return UBox<S>(id); }
	static long long fp(const UBox<S> & v) { return boxFp(v, S - 8); }
	static int srcState(const UBox<S> & v) { return v.p ? 0 : 1; }
	static long shares(const UBox<S> &) { return -1; }
};
template <int S> struct Tr<SBox<S> >
{
	static const int cls = TC_SBOX; static const bool copyable = true;
	static SBox<S> make(int id) { return SBox<S>(id); }
	static long long fp(const SBox<S> & v) { return boxFp(v, S - 16); }
	static int srcState(const SBox<S> & v) { return v.p ? 0 : 1; }
	static long shares(const SBox<S> & v) { return v.p.use_count(); }
};

// ------------------------------------------------------------------ type lists
template <typename ...Ts> struct TL { static const int size = (int)sizeof...(Ts); };

// move-only and shared boxes exactly at the capacity and just beyond it (8 more bytes: they are 8-aligned)
template <int Cap, std::size_t ...I>
static TL<Blob<(int)I + 1>..., int, std::string, UPtr, SPtr,
	UBox<(Cap < 16 ? 16 : Cap)>, UBox<(Cap < 16 ? 16 : Cap) + 8>,
	SBox<(Cap < 24 ? 24 : Cap)>, SBox<(Cap < 24 ? 24 : Cap) + 8>,
	Blob<8, false>, Blob<(Cap < 16 ? 16 : Cap) + 8, false>,                   // copyable, move constructor not noexcept: inline and on the heap
	Pod<8>, Pod<(Cap < 16 ? 16 : Cap) + 8>, Pod<(Cap < 16 ? 16 : Cap) + 16>,  // trivially destructible: inline, and two different ones on the heap
	Nest,                                                                      // initializer_list constructor accepting itself
	Blob<8, true, true>, Blob<(Cap < 16 ? 16 : Cap), true, true>, Blob<(Cap < 16 ? 16 : Cap) + 1, true, true>, Blob<(Cap < 16 ? 16 : Cap) + 40, true, true> > // own operator new/delete: inline, at the capacity, one past it, far beyond
	makeTypeList(std::index_sequence<I...>);

template <int Cap> struct TypesOf { typedef decltype(makeTypeList<Cap>(std::make_index_sequence<Cap + 24>())) Type; };

// ------------------------------------------------------------------ construction forms
enum Form { F_LVALUE = 0, F_CONST_LVALUE, F_RVALUE, F_CONST_RVALUE, F_TEMP, F_FROM_HELD, F_FORMS };
static const char * kFormName[] = { "lvalue", "const_lvalue", "rvalue", "const_rvalue", "temporary", "from_held" };
static bool formCopies(int f) { return f == F_LVALUE || f == F_CONST_LVALUE || f == F_CONST_RVALUE || f == F_FROM_HELD; }

struct LedgerSnap
{
	long copied, moved, constructed, destroyed;
	void take() {
		copied = ledger().copied[K_PAYLOAD].load(); moved = ledger().moved[K_PAYLOAD].load();
		constructed = ledger().constructed[K_PAYLOAD].load(); destroyed = ledger().destroyed[K_PAYLOAD].load();
	}
};

static uint64_t gTraceXor = 0;

// ------------------------------------------------------------------ the world of one case
struct Expect { int t; int id; };
struct Step { char kind; int ev; int idx; bool ret; }; // kind: 'P' predicate, 'G' generic listener, 'T' typed listener; idx into scriptEvents

template <int Cap> struct World;

// what the typed code reads, handed to the untyped checks (keeps the per-type code small)
struct SrcInfo { long long fp; int state; long shares; };
struct ReadBack { const void * a[7]; long long f1, f2; long shares; int align; };
enum SinkKind { SK_CONSTRUCT = 0, SK_ENQUEUE, SK_DISPATCH };

template <int Cap>
struct OpsRow
{
	typedef eventpp::AnyData<Cap> AD;
	std::string name;
	int size, align, cls, variant;
	bool copyable;
	void (*feed)(World<Cap> &, int sink, int form, int id, const AD * from);
	void (*read)(const AD &, ReadBack &);
	void (*appendTyped)(World<Cap> &, int ev);
};

template <int Cap, typename T> struct TOps;

template <int Cap>
struct World
{
	typedef eventpp::AnyData<Cap> AD;
	typedef eventpp::EventQueue<int, void (const AD &)> Q;
	typedef typename TypesOf<Cap>::Type Types;
	enum { NT = Types::size, EFFCAP = Cap < 16 ? 16 : Cap };

	struct Holder { AD * ad; int t; int id; };

	Rng & rng;
	const std::vector<OpsRow<Cap> > & ops;
	std::vector<Holder> holders;
	std::unique_ptr<Q> q;
	std::vector<std::vector<char> > listeners; // per event (= type index): kinds in registration order
	std::deque<Expect> queued;
	std::vector<Expect> scriptEvents;
	std::vector<Step> script;
	size_t scriptPos;
	bool inScript;
	std::map<int, int> slack; // id -> events of that id the living queue has dispatched or cleared (it may or may not have released them)
	int nextId;
	int nestedBudget;
	Fnv trace;
	bool dead;
	const char * curOp;
	int curType;
	AD * lastBuilt;
	long exclCopied, exclMoved;
	bool sawInline, sawHeap, sawMove;

	World(Rng & r, const std::vector<OpsRow<Cap> > & o) : rng(r), ops(o), listeners((size_t)NT), scriptPos(0), inScript(false),
		nextId(1), nestedBudget(0), dead(false), curOp(""), curType(0), lastBuilt(nullptr), exclCopied(0), exclMoved(0), sawInline(false), sawHeap(false), sawMove(false) {}

	~World() {
		// nothing of the real objects may outlive the world
		q.reset();
		for(size_t i = 0; i < holders.size(); ++i) delete holders[i].ad;
	}

	void log(const std::string & s) { oplog(s); trace.add(s); }
	void fail(const std::string & key, const std::string & desc) {
		violation(key, desc);
		oplog("!! " + key + " :: " + desc);
		dead = true;
	}
	int newId() { return nextId++; }

	static bool isInline(const AD & ad) {
		const char * a = (const char *)ad.getAddress();
		const char * b = (const char *)&ad;
		return a >= b && a < b + sizeof(AD);
	}
	const char * sizeClass(int t) const {
		if(ops[t].cls != TC_BLOB) return kClassName[ops[t].cls];
		if(ops[t].variant) return ops[t].size <= EFFCAP ? "blob-with-throwing-move-inline" : "blob-with-throwing-move-on-heap";
		return ops[t].size < EFFCAP ? "blob-below-capacity" : ops[t].size == EFFCAP ? "blob-at-capacity" : ops[t].size == EFFCAP + 1 ? "blob-capacity-plus-1" : "blob-above-capacity";
	}

	// number of model entities (holders, queued events) that hold a copy of `id`; meaningful outside queue processing
	int entities(int id) const {
		int n = 0;
		for(size_t i = 0; i < holders.size(); ++i) if(holders[i].id == id) ++n;
		for(size_t i = 0; i < queued.size(); ++i) if(queued[i].id == id) ++n;
		return n;
	}

	// the exact number of owners of a shared object is known to the model only outside queue processing and as long as
	// the living queue has not been handed an event of that id (WHEN a processed event is released is not C17's business)
	bool ownersKnown(int id) const { return ! inScript && slack.find(id) == slack.end(); }

	// ---------- isType over every instantiated type
	template <typename ...Ts>
	static void isTypeAll(const AD & ad, std::vector<char> & out, TL<Ts...>) {
		const bool r[] = { ad.template isType<Ts>()... };
		out.assign(r, r + sizeof...(Ts));
	}
	void checkIsType(const AD & ad, int t, const char * where) {
		std::vector<char> r;
		isTypeAll(ad, r, Types());
		count("istype.queries", (uint64_t)NT);
		if(! r[(size_t)t]) { fail(S("isType:false-for-stored-type:", sizeClass(t)), S(where, ": isType<", ops[t].name, "> is false for an AnyData holding a ", ops[t].name)); return; }
		for(int k = 0; k < NT; ++k) {
			if(k != t && r[(size_t)k]) {
				fail(S("isType:true-for-other-type:", sizeClass(t)), S(where, ": isType<", ops[k].name, "> is true for an AnyData holding a ", ops[t].name));
				return;
			}
		}
	}
	// full read-back of an AnyData that must hold (t, id)
	void checkHeld(const AD & ad, int t, int id, const char * where) {
		verify(t, ad, id, where);
		if(! dead) checkIsType(ad, t, where);
	}
	// read back through every accessor (twice) and compare
	void verify(int t, const AD & ad, int id, const char * where) {
		if(dead) return;
		count("reads");
		ReadBack rb;
		ops[t].read(ad, rb);
		const std::string cls = sizeClass(t);
		const std::string & name = ops[t].name;
		if(rb.a[0] == nullptr) { fail(S(where, ":address-null:", cls), S(name, " id=", id, ": getAddress() is null")); return; }
		for(int k = 1; k < 7; ++k) {
			if(rb.a[k] != rb.a[0]) {
				static const char * acc[] = { "getAddress()", "get<T>()", "conversion to const T &", "conversion to T &", "conversion to const T *", "conversion to T *", "second getAddress()" };
				fail(S(where, ":address-differs-between-accessors:", cls), S(name, " id=", id, ": ", acc[k], " and getAddress() do not give the same address"));
				return;
			}
		}
		if(((uintptr_t)rb.a[0] % (uintptr_t)rb.align) != 0) { fail(S(where, ":address-misaligned:", cls), S(name, " id=", id, " is held at an address not aligned to ", rb.align)); return; }
		if(rb.f1 != id) { fail(S(where, ":value:", cls), S(name, ": read back ", rb.f1, ", stored id=", id)); return; }
		if(rb.f2 != id) { fail(S(where, ":value-second-read:", cls), S(name, ": second read gives ", rb.f2, ", stored id=", id)); return; }
		if(rb.shares >= 0 && ownersKnown(id)) {
			count("use_count_checks");
			const long want = entities(id);
			if(rb.shares != want) { fail(S(where, ":use-count:", cls), S(name, " id=", id, ": use_count ", rb.shares, ", the model counts ", want, " owners")); return; }
		}
	}

	// ---------- after the library consumed a source object (called by TOps::feed)
	// ledger counters net of what nested harness operations (enqueue from inside a listener) did themselves
	LedgerSnap netSnap() const { LedgerSnap s; s.take(); s.copied -= exclCopied; s.moved -= exclMoved; return s; }
	LedgerSnap beforeUse() const { return netSnap(); }
	void afterFeed(int form, int id, const SrcInfo & si, const LedgerSnap & s0) {
		const int t = curType;
		const long long srcFp = si.fp; const int srcState = si.state; const long srcShares = si.shares;
		const LedgerSnap s1 = netSnap();
		const long copies = s1.copied - s0.copied, moves = s1.moved - s0.moved;
		count("ledger.object_copies", (uint64_t)copies);
		count("ledger.object_moves", (uint64_t)moves);
		const std::string op = std::string(curOp) + ":" + kFormName[form];
		const int cls = ops[t].cls;
		if(formCopies(form)) {
			if(srcFp != id) { fail(S(op, ":source-changed:", kClassName[cls]), S("the source ", ops[t].name, " id=", id, " reads ", srcFp, " after being passed as ", kFormName[form])); return; }
			if(cls == TC_BLOB && copies < 1) { fail(S(op, ":no-copy-in-ledger"), S(ops[t].name, " id=", id, " passed as ", kFormName[form], ": ledger shows ", copies, " copies, ", moves, " moves")); return; }
			if(srcShares >= 0 && ownersKnown(id)) {
				count("use_count_checks");
				const long want = (long)entities(id) + (form == F_FROM_HELD ? 0 : 1);
				if(srcShares != want) { fail(S(op, ":use-count"), S(ops[t].name, " id=", id, ": use_count ", srcShares, " after the copy, the model counts ", want, " owners")); return; }
			}
		}
		else {
			if(copies != 0) { fail(S(op, ":copied-instead-of-moved:", kClassName[cls]), S(ops[t].name, " id=", id, " passed as ", kFormName[form], ": ledger shows ", copies, " copies, ", moves, " moves")); return; }
			if(cls == TC_BLOB && moves < 1) { fail(S(op, ":no-move-in-ledger"), S(ops[t].name, " id=", id, " passed as ", kFormName[form], ": ledger shows no move")); return; }
			if(form == F_RVALUE && srcState == 0) { fail(S(op, ":source-not-moved-from:", kClassName[cls]), S("the source ", ops[t].name, " id=", id, " is still intact after being passed as rvalue")); return; }
		}
	}

	void noteHeld(const AD & ad, int t) {
		const bool in = isInline(ad);
		if(in) { sawInline = true; count("held.inline"); } else { sawHeap = true; count("held.heap"); }
		if(ops[t].cls == TC_BLOB) {
			if(ops[t].size == EFFCAP) count(in ? "size.eq_capacity.inline" : "size.eq_capacity.heap");
			if(ops[t].size == EFFCAP + 1) count(in ? "size.eq_capacity_plus_1.inline" : "size.eq_capacity_plus_1.heap");
			if(ops[t].size == 1) count("size.1");
		}
		count((std::string("type.") + kClassName[ops[t].cls]).c_str());
	}

	// ---------- operations
	int pickType(bool needCopyable) {
		for(;;) {
			int t;
			const uint32_t c = rng.below(100);
			if(c < 40) {
				static const int delta[] = { -2, -1, 0, 1, 2, 8 };
				int n = EFFCAP + delta[rng.below(6)];
				if(rng.chance(1, 6)) n = 1 + (int)rng.below(3);
				if(rng.chance(1, 8)) n = 15 + (int)rng.below(3);
				t = n - 1; // Blob<n> has index n-1
			}
			else if(c < 65) t = (Cap + 24) + (int)rng.below((uint32_t)(NT - (Cap + 24))); // the non-Blob types
			else t = (int)rng.below((uint32_t)NT);
			if(t < 0 || t >= NT || ! ops[t].feed) continue;
			if(needCopyable && ! ops[t].copyable) continue;
			return t;
		}
	}
	int pickForm(int t, bool haveFrom) {
		if(! ops[t].copyable) return rng.chance(1, 2) ? F_RVALUE : F_TEMP;
		for(;;) {
			const int f = (int)rng.below(F_FORMS);
			if(f == F_FROM_HELD && ! haveFrom) continue;
			return f;
		}
	}
	int pickHolderOfType(int t) {
		std::vector<int> c;
		for(size_t i = 0; i < holders.size(); ++i) if(holders[i].t == t) c.push_back((int)i);
		return c.empty() ? -1 : c[rng.below((uint32_t)c.size())];
	}

	// construct a new holder of (t, form); from = index of a holder of the same type for F_FROM_HELD
	void doNew(int t, int form, int fromIdx) {
		const int id = form == F_FROM_HELD ? holders[(size_t)fromIdx].id : newId();
		const AD * from = form == F_FROM_HELD ? holders[(size_t)fromIdx].ad : nullptr;
		curOp = "construct"; curType = t;
		log(S("new h", (long long)holders.size(), " ", ops[t].name, " id=", id, " form=", kFormName[form], (from ? S(" of h", fromIdx) : std::string(""))));
		count((std::string("construct.") + kFormName[form]).c_str());
		lastBuilt = nullptr;
		ops[t].feed(*this, SK_CONSTRUCT, form, id, from); // adds the holder before the source is inspected
		if(dead || ! lastBuilt) return;
		const Holder & h = holders.back();
		noteHeld(*h.ad, t);
		log(S("  -> ", (isInline(*h.ad) ? "inline" : "heap")));
		checkHeld(*h.ad, t, id, "construct");
	}
	// called by the Use functor of construct, while the source is still alive
	void adopt(AD * ad, int id) {
		Holder h; h.ad = ad; h.t = curType; h.id = id;
		holders.push_back(h);
		lastBuilt = ad;
	}

	void doChain(int hi, int len) {
		Holder & h = holders[(size_t)hi];
		const int t = h.t, id = h.id;
		log(S("chain h", hi, " ", ops[t].name, " id=", id, " len=", len));
		countMax("max_chain", (uint64_t)len);
		std::vector<AD *> husks;
		const bool deferred = rng.chance(1, 2);
		LedgerSnap s0; s0.take();
		for(int k = 0; k < len && ! dead; ++k) {
			AD * next;
			if(rng.chance(1, 4)) {
				// through an automatic object
				AD onStack(std::move(*h.ad));
				verify(t, onStack, id, "chain(stack)");
				next = new AD(std::move(onStack));
				count("moves.anydata", 2);
			}
			else {
				next = new AD(std::move(*h.ad));
				count("moves.anydata");
			}
			sawMove = true;
			if(deferred) husks.push_back(h.ad); else delete h.ad;
			h.ad = next;
			if(dead) break;
			if(k == len - 1 || rng.chance(1, 3)) checkHeld(*h.ad, t, id, "chain");
			else verify(t, *h.ad, id, "chain");
		}
		LedgerSnap s1; s1.take();
		if(! dead && s1.copied != s0.copied)
			fail(S("move:copied-instead-of-moved:", sizeClass(t)), S("moving an AnyData holding ", ops[t].name, " id=", id, " ", len, " time(s): ledger shows ", s1.copied - s0.copied, " copies"));
		count("ledger.object_moves", (uint64_t)(s1.moved - s0.moved));
		// the moved-from AnyData objects die in random order
		while(! husks.empty()) {
			const size_t k = rng.below((uint32_t)husks.size());
			delete husks[k];
			husks.erase(husks.begin() + (long)k);
		}
		if(! dead) verify(t, *h.ad, id, "chain(after husks died)");
	}

	void doDrop(int hi) {
		Holder h = holders[(size_t)hi];
		log(S("drop h", hi, " ", ops[h.t].name, " id=", h.id));
		holders.erase(holders.begin() + hi);
		delete h.ad;
		count("holders_destroyed");
	}

	// ---------- queue
	void needQueue() {
		if(q) return;
		q.reset(new Q());
		for(size_t i = 0; i < listeners.size(); ++i) listeners[i].clear();
		slack.clear();
		log("queue created");
	}
	struct GenericL { World * w; int ev; void operator() (const AD & ad) const { w->onGeneric(ev, ad); } };
	__attribute__((noinline)) void appendCallback(int ev, const typename Q::Callback & cb) { q->appendListener(ev, cb); }
	void needListeners(int t) {
		std::vector<char> & l = listeners[(size_t)t];
		if(l.empty()) { GenericL g; g.w = this; g.ev = t; q->appendListener(t, g); l.push_back('G'); }
		if(l.size() < 3 && rng.chance(1, 3)) {
			if(rng.chance(2, 3)) { ops[t].appendTyped(*this, t); l.push_back('T'); log(S("  listener taking const ", ops[t].name, " & appended for event ", t)); }
			else { GenericL g; g.w = this; g.ev = t; q->appendListener(t, g); l.push_back('G'); }
		}
	}
	void pushListenerSteps(int idx) {
		const Expect & e = scriptEvents[(size_t)idx];
		const std::vector<char> & l = listeners[(size_t)e.t];
		for(size_t k = 0; k < l.size(); ++k) { Step s; s.kind = l[k]; s.ev = e.t; s.idx = idx; s.ret = false; script.push_back(s); }
	}
	void beginScript() { script.clear(); scriptEvents.clear(); scriptPos = 0; inScript = true; nestedBudget = 3; }
	void endScript(const char * op) {
		inScript = false;
		if(! dead && scriptPos != script.size()) {
			const Step & s = script[scriptPos];
			fail(S(op, ":missed-call"), S(op, " returned without the expected ", (s.kind == 'P' ? "predicate" : "listener"), " call for ", ops[scriptEvents[(size_t)s.idx].t].name, " id=", scriptEvents[(size_t)s.idx].id));
		}
	}
	// next expected call; nullptr after a failure
	const Step * nextStep(char kind, int ev, const char * what) {
		if(dead) return nullptr;
		if(! inScript || scriptPos >= script.size()) { fail(S(what, ":unexpected-call"), S(what, " called for event ", ev, " while the model expects no call")); return nullptr; }
		const Step & s = script[scriptPos];
		if(s.kind != kind || (kind != 'P' && s.ev != ev)) {
			fail(S(what, ":out-of-order-call"), S(what, " called for event ", ev, ", the model expects a '", std::string(1, s.kind), "' call for event ", s.ev));
			return nullptr;
		}
		++scriptPos;
		return &s;
	}
	void onGeneric(int ev, const AD & ad) {
		const Step * s = nextStep('G', ev, "listener");
		if(! s) return;
		const Expect e = scriptEvents[(size_t)s->idx];
		log(S("  listener(AnyData) event=", ev, " ", ops[e.t].name, " id=", e.id, (isInline(ad) ? " inline" : " heap")));
		count("listener.generic_calls");
		if(isInline(ad)) sawInline = true; else sawHeap = true;
		checkHeld(ad, e.t, e.id, "listener");
		// re-entrancy: enqueue a copy of the very object this event holds
		if(! dead && nestedBudget > 0 && ops[e.t].copyable && rng.chance(1, 6)) {
			--nestedBudget;
			count("nested_enqueue");
			doEnqueue(e.t, F_FROM_HELD, &ad, e.id);
		}
	}
	void onTyped(int ev, long long fp) {
		const Step * s = nextStep('T', ev, "typed-listener");
		if(! s) return;
		const Expect e = scriptEvents[(size_t)s->idx];
		log(S("  listener(const ", ops[e.t].name, " &) event=", ev, " sees ", fp));
		count("listener.typed_calls");
		if(fp != e.id) fail(S("listener:converted-value:", sizeClass(e.t)), S("listener taking const ", ops[e.t].name, " & sees ", fp, ", the event holds id=", e.id));
	}
	bool onPredicate(const AD & ad) {
		const Step * s = nextStep('P', -1, "predicate");
		if(! s) return false;
		const Expect e = scriptEvents[(size_t)s->idx];
		log(S("  predicate ", ops[e.t].name, " id=", e.id, " -> ", s->ret));
		count("predicate_calls");
		const bool ret = s->ret;
		checkHeld(ad, e.t, e.id, "predicate");
		return ret;
	}

	void doEnqueue(int t, int form, const AD * from, int fromId) {
		needQueue();
		const bool nested = inScript;
		if(! nested) needListeners(t);
		else if(listeners[(size_t)t].empty()) return;
		const int id = form == F_FROM_HELD ? fromId : newId();
		const char * savedOp = curOp; const int savedType = curType;
		curOp = "enqueue"; curType = t;
		log(S(nested ? "  nested " : "", "enqueue event=", t, " ", ops[t].name, " id=", id, " form=", kFormName[form]));
		count("queue.enqueue");
		count((std::string("enqueue.") + kFormName[form]).c_str());
		LedgerSnap raw0; raw0.take();
		ops[t].feed(*this, SK_ENQUEUE, form, id, from); // pushes the model event before the source is inspected
		if(nested) { LedgerSnap raw1; raw1.take(); exclCopied += raw1.copied - raw0.copied; exclMoved += raw1.moved - raw0.moved; }
		curOp = savedOp; curType = savedType;
	}
	void enqueued(int id) { Expect e; e.t = curType; e.id = id; queued.push_back(e); }

	void doDispatch(int t, int form, int fromIdx) {
		needQueue();
		needListeners(t);
		const int id = form == F_FROM_HELD ? holders[(size_t)fromIdx].id : newId();
		const AD * from = form == F_FROM_HELD ? holders[(size_t)fromIdx].ad : nullptr;
		curOp = "dispatch"; curType = t;
		log(S("dispatch event=", t, " ", ops[t].name, " id=", id, " form=", kFormName[form]));
		count("queue.dispatch_direct");
		beginScript();
		Expect e; e.t = t; e.id = id; scriptEvents.push_back(e);
		pushListenerSteps(0);
		ops[t].feed(*this, SK_DISPATCH, form, id, from);
		endScript("dispatch");
		scriptEvents.clear();
	}

	void released(const Expect & e) { ++slack[e.id]; }

	void doProcess() {
		if(! q) return;
		log(S("process (", (long long)queued.size(), " queued)"));
		count("queue.process");
		beginScript();
		scriptEvents.assign(queued.begin(), queued.end());
		queued.clear();
		for(size_t i = 0; i < scriptEvents.size(); ++i) pushListenerSteps((int)i);
		const bool expect = ! scriptEvents.empty();
		const bool r = q->process();
		endScript("process");
		for(size_t i = 0; i < scriptEvents.size(); ++i) released(scriptEvents[i]);
		scriptEvents.clear();
		if(! dead && r != expect) fail("process:result", S("process returned ", r));
	}
	void doProcessOne() {
		if(! q) return;
		log(S("processOne (", (long long)queued.size(), " queued)"));
		count("queue.processOne");
		beginScript();
		if(! queued.empty()) { scriptEvents.push_back(queued.front()); queued.pop_front(); pushListenerSteps(0); }
		const bool expect = ! scriptEvents.empty();
		const bool r = q->processOne();
		endScript("processOne");
		for(size_t i = 0; i < scriptEvents.size(); ++i) released(scriptEvents[i]);
		scriptEvents.clear();
		if(! dead && r != expect) fail("processOne:result", S("processOne returned ", r));
	}
	struct Pred { World * w; bool operator() (const AD & ad) const { return w->onPredicate(ad); } };
	void doProcessIf(bool until) {
		if(! q) return;
		const char * op = until ? "processUntil" : "processIf";
		log(S(op, " (", (long long)queued.size(), " queued)"));
		count(until ? "queue.processUntil" : "queue.processIf");
		beginScript();
		scriptEvents.assign(queued.begin(), queued.end());
		queued.clear();
		std::vector<char> kept(scriptEvents.size(), 0);
		const size_t stopAt = until ? rng.below((uint32_t)scriptEvents.size() + 2) : 0;
		for(size_t i = 0; i < scriptEvents.size(); ++i) {
			Step s; s.kind = 'P'; s.ev = scriptEvents[i].t; s.idx = (int)i;
			if(until) {
				s.ret = i == stopAt;
				script.push_back(s);
				if(s.ret) { for(size_t k = i; k < scriptEvents.size(); ++k) kept[k] = 1; break; }
				pushListenerSteps((int)i);
			}
			else {
				s.ret = rng.chance(1, 2);
				script.push_back(s);
				if(s.ret) pushListenerSteps((int)i); else kept[i] = 1;
			}
		}
		Pred p; p.w = this;
		if(until) q->processUntil(p); else q->processIf(p);
		endScript(op);
		// events not processed stay queued, in order, in front of those enqueued meanwhile
		std::deque<Expect> nq;
		for(size_t i = 0; i < scriptEvents.size(); ++i) { if(kept[i]) { nq.push_back(scriptEvents[i]); count("queue.events_kept_by_predicate"); } else released(scriptEvents[i]); }
		for(size_t i = 0; i < queued.size(); ++i) nq.push_back(queued[i]);
		queued.swap(nq);
		scriptEvents.clear();
	}
	void doClear() {
		if(! q) return;
		log(S("clearEvents (", (long long)queued.size(), " queued)"));
		count("queue.clearEvents");
		count("queue.events_cleared", queued.size());
		for(size_t i = 0; i < queued.size(); ++i) released(queued[i]);
		queued.clear();
		q->clearEvents();
	}
	void doDestroyQueue() {
		if(! q) return;
		log(S("queue destroyed (", (long long)queued.size(), " pending)"));
		count("queue.destroyed");
		if(! queued.empty()) { count("queue.destroyed_with_pending"); count("queue.events_pending_at_destruction", queued.size()); }
		queued.clear();
		slack.clear();
		q.reset();
	}

	int ledgerKind(int t) const { const int c = ops[t].cls; return c == TC_BLOB ? 0 : (c == TC_INT || c == TC_STRING || c == TC_POD || c == TC_NEST) ? 2 : 1; }
	// ---------- quiescent ledger check: every id is alive exactly as often as the model holds it
	void quiescent() {
		if(dead) return;
		count("quiescent_checks");
		std::map<int, int> ent, kind; // kind: 0 every holder has its own tracked object, 1 the holders share one tracked object, 2 nothing tracked
		for(size_t i = 0; i < holders.size(); ++i) { ++ent[holders[i].id]; kind[holders[i].id] = ledgerKind(holders[i].t); }
		for(size_t i = 0; i < queued.size(); ++i) { ++ent[queued[i].id]; kind[queued[i].id] = ledgerKind(queued[i].t); }
		long total = 0, slackTotal = 0;
		for(int id = 1; id < nextId; ++id) {
			const int e = ent.count(id) ? ent[id] : 0;
			const int live = ledger().liveOf(K_PAYLOAD, id);
			const int lo = e == 0 ? 0 : kind[id] == 2 ? 0 : kind[id] == 1 ? 1 : e;
			std::map<int, int>::const_iterator sl = slack.find(id);
			const int hi = lo + (sl == slack.end() ? 0 : sl->second);
			total += live;
			slackTotal += hi - lo;
			if(live < lo) { fail("lifetime:held-object-destroyed-early", S("object id=", id, ": ", live, " live instance(s), ", e, " AnyData object(s) still hold it")); return; }
			if(live > hi) { fail("lifetime:held-object-not-destroyed", S("object id=", id, ": ", live, " live instance(s), only ", e, " AnyData object(s) hold it")); return; }
			if(sl != slack.end() && live == lo) count("queue.event_released_when_processed");
		}
		if(ledger().liveCount(K_PAYLOAD) > total + 0 || ledger().liveCount(K_PAYLOAD) < total)
			fail("lifetime:ledger-total", S("ledger counts ", ledger().liveCount(K_PAYLOAD), " live objects, the ids sum to ", total));
		(void)slackTotal;
	}

	// ---------- random scenario
	void stepRandom() {
		const uint32_t c = rng.below(100);
		if(c < 24 || holders.empty()) {
			const int t = pickType(false);
			const int fromIdx = pickHolderOfType(t);
			const int form = pickForm(t, fromIdx >= 0);
			doNew(t, form, fromIdx);
		}
		else if(c < 30) {
			// a copy of what some holder holds
			const int hi = (int)rng.below((uint32_t)holders.size());
			if(ops[holders[(size_t)hi].t].copyable) doNew(holders[(size_t)hi].t, F_FROM_HELD, hi);
		}
		else if(c < 46) {
			const int hi = (int)rng.below((uint32_t)holders.size());
			const int len = rng.range(1, 20);
			doChain(hi, len);
		}
		else if(c < 52) {
			const int hi = (int)rng.below((uint32_t)holders.size());
			log(S("reread h", hi));
			checkHeld(*holders[(size_t)hi].ad, holders[(size_t)hi].t, holders[(size_t)hi].id, "reread");
		}
		else if(c < 60) doDrop((int)rng.below((uint32_t)holders.size()));
		else if(c < 76) {
			const int t = pickType(false);
			const int fromIdx = pickHolderOfType(t);
			const int form = pickForm(t, fromIdx >= 0);
			doEnqueue(t, form, fromIdx >= 0 ? holders[(size_t)fromIdx].ad : nullptr, fromIdx >= 0 ? holders[(size_t)fromIdx].id : 0);
		}
		else if(c < 82) {
			const int t = pickType(false);
			const int fromIdx = pickHolderOfType(t);
			const int form = pickForm(t, fromIdx >= 0);
			doDispatch(t, form, fromIdx);
		}
		else if(c < 88) doProcess();
		else if(c < 91) doProcessOne();
		else if(c < 94) doProcessIf(false);
		else if(c < 96) doProcessIf(true);
		else if(c < 98) doClear();
		else doDestroyQueue();
	}

	void runRandom(int steps) {
		for(int i = 0; i < steps && ! dead; ++i) { stepRandom(); quiescent(); }
		finish();
	}

	// ---------- exhaustive sweep: every type x every construction form
	void runExhaustive() {
		int done = 0;
		for(int t = 0; t < NT && ! dead; ++t) {
			if(! ops[t].feed) continue;
			for(int form = 0; form < F_FORMS && ! dead; ++form) {
				if(! ops[t].copyable && form != F_RVALUE && form != F_TEMP) continue;
				int fromIdx = -1;
				if(form == F_FROM_HELD) { fromIdx = pickHolderOfType(t); if(fromIdx < 0) continue; }
				doNew(t, form, fromIdx);
				if(dead) break;
				const int hi = (int)holders.size() - 1;
				doChain(hi, rng.range(1, 4));
				if(dead) break;
				doEnqueue(t, form, fromIdx >= 0 ? holders[(size_t)fromIdx].ad : nullptr, fromIdx >= 0 ? holders[(size_t)fromIdx].id : 0);
				if(dead) break;
				if(form == F_RVALUE || form == F_CONST_LVALUE) doDispatch(t, form, -1);
				// keep one holder per type for the from_held form, drop the others
				if(form != F_LVALUE && form != F_RVALUE) doDrop(hi);
				quiescent();
			}
			// drop what is left of this type, run the queue now and then
			for(int hi = (int)holders.size() - 1; hi >= 0; --hi) if(holders[(size_t)hi].t == t && rng.chance(3, 4)) doDrop(hi);
			if(++done % 8 == 0 && ! dead) {
				const uint32_t c = rng.below(6);
				if(c == 0) { doProcessOne(); doProcess(); }
				else if(c == 1) { doProcessIf(false); doProcess(); }
				else if(c == 2) { doProcessIf(true); doProcess(); }
				else if(c == 3) { doProcessOne(); doClear(); }
				else if(c == 4) doDestroyQueue();
				else doProcess();
				quiescent();
			}
		}
		finish();
	}

	void finish() {
		if(dead) return;
		// half of the cases run the queue dry first, the others destroy it with its events pending
		if(q && rng.chance(1, 2)) { doProcess(); quiescent(); }
		doDestroyQueue();
		quiescent();
		while(! holders.empty() && ! dead) doDrop((int)rng.below((uint32_t)holders.size()));
		quiescent();
	}
};

// ------------------------------------------------------------------ typed operations (kept minimal: one set per stored type)
template <int Cap, typename T>
struct TOps
{
	typedef World<Cap> W;
	typedef typename W::AD AD;
	typedef Tr<T> R;

	// the library call that consumes the object, in the value category X
	// (to keep the generated code small the queue is fed three value categories - T &, const T &, T && - and
	// direct dispatch two - const T &, T &&; AnyData is constructed from all four)
	template <typename X>
	static void sink(W & w, int sk, int id, X && x)
	{
		typedef typename std::remove_reference<X>::type XV;
		const bool isConstRvalue = std::is_rvalue_reference<X &&>::value && std::is_const<XV>::value;
		const bool isPlainLvalue = std::is_lvalue_reference<X>::value && ! std::is_const<XV>::value;
		if(sk == SK_CONSTRUCT) w.adopt(new AD(std::forward<X>(x)), id);
		else if(sk == SK_ENQUEUE) {
			if constexpr (! isConstRvalue) { w.q->enqueue(w.curType, std::forward<X>(x)); w.enqueued(id); }
		}
		else {
			if constexpr (! isConstRvalue && ! isPlainLvalue) w.q->dispatch(w.curType, std::forward<X>(x));
		}
	}
	static void inspect(const T & src, SrcInfo & si) { si.fp = R::fp(src); si.state = R::srcState(src); si.shares = R::shares(src); }

	// hands the source object over in the requested value category, then reports the state of the source
	// (const sources are the same object seen through a const reference; a temporary is an rvalue whose source nobody looks at)
	static void feed(W & w, int sk, int form, int id, const AD * from)
	{
		SrcInfo si; si.fp = 0; si.state = -1; si.shares = -1;
		if constexpr (R::copyable) {
			if(form == F_FROM_HELD) {
				const T & src = from->template get<T>();
				const LedgerSnap s0 = w.beforeUse();
				sink(w, sk, id, src);
				inspect(src, si);
				w.afterFeed(form, id, si, s0);
				return;
			}
			if(form == F_LVALUE || form == F_CONST_LVALUE || form == F_CONST_RVALUE) {
				T src(R::make(id));
				const T & csrc = src;
				const LedgerSnap s0 = w.beforeUse();
				if(form == F_LVALUE && sk != SK_DISPATCH) sink(w, sk, id, src);
				else if(form == F_CONST_RVALUE && sk == SK_CONSTRUCT) sink(w, sk, id, std::move(csrc));
				else sink(w, sk, id, csrc); // the queue is fed const rvalues as const lvalues, dispatch plain lvalues as const lvalues
				inspect(src, si);
				w.afterFeed(form, id, si, s0);
				return;
			}
		}
		(void)from;
		T src(R::make(id));
		const LedgerSnap s0 = w.beforeUse();
		sink(w, sk, id, std::move(src));
		if(form == F_RVALUE) si.state = R::srcState(src);
		w.afterFeed(form == F_RVALUE ? F_RVALUE : F_TEMP, id, si, s0);
	}

	// every accessor, getAddress and get twice
	static void read(const AD & ad, ReadBack & rb)
	{
		rb.a[0] = ad.getAddress();
		const T & r1 = ad.template get<T>();
		const T & r2 = ad;          // operator T & () with T = const T
		T & r3 = ad;                // operator T & ()
		const T * const p4 = ad;    // operator T * () with T = const T
		T * const p5 = ad;          // operator T * ()
		rb.a[1] = &r1; rb.a[2] = &r2; rb.a[3] = &r3; rb.a[4] = p4; rb.a[5] = p5;
		rb.a[6] = ad.getAddress();
		rb.align = (int)alignof(T);
		rb.f1 = rb.f2 = -9; rb.shares = -1;
		for(int k = 1; k < 7; ++k) if(rb.a[k] != rb.a[0]) return; // do not read through addresses that disagree
		if(rb.a[0] == nullptr || ((uintptr_t)rb.a[0] % alignof(T)) != 0) return;
		rb.f1 = R::fp(r1);
		const T & r7 = ad.template get<T>();
		rb.f2 = R::fp(r7);
		rb.shares = R::shares(r1);
	}

	struct TypedL { W * w; int ev; void operator() (const T & v) const { w->onTyped(ev, R::fp(v)); } };
	static void appendTyped(W & w, int ev) { TypedL l; l.w = &w; l.ev = ev; const typename W::Q::Callback cb(l); w.appendCallback(ev, cb); }

	static OpsRow<Cap> row() {
		OpsRow<Cap> r;
		r.size = (int)sizeof(T); r.align = (int)alignof(T); r.cls = R::cls; r.copyable = R::copyable; r.variant = VariantOf<T>::value;
		r.feed = &feed; r.read = &read; r.appendTyped = &appendTyped;
		return r;
	}
};

template <int Cap, typename T, bool Enabled> struct RowOf { static OpsRow<Cap> get() { return TOps<Cap, T>::row(); } };
template <int Cap, typename T> struct RowOf<Cap, T, false>
{
	static OpsRow<Cap> get() {
		OpsRow<Cap> r;
		r.size = (int)sizeof(T); r.align = (int)alignof(T); r.cls = Tr<T>::cls; r.copyable = Tr<T>::copyable; r.variant = VariantOf<T>::value;
		r.feed = nullptr; r.read = nullptr; r.appendTyped = nullptr; // not a stored type of this binary
		return r;
	}
};

template <int Cap, typename ...Ts, std::size_t ...I>
static std::vector<OpsRow<Cap> > makeTable(TL<Ts...>, std::index_sequence<I...>)
{
	std::vector<OpsRow<Cap> > v;
	v.reserve(sizeof...(Ts));
	const int dummy[] = { (v.push_back(RowOf<Cap, Ts, (I % VF_TYPE_PARTS) == VF_TYPE_PART>::get()), 0)... };
	(void)dummy;
	for(size_t i = 0; i < v.size(); ++i) v[i].name = typeName(v[i].cls, v[i].size, v[i].variant);
	return v;
}

template <int Cap>
static void runCap(uint64_t caseNo, Rng & rng)
{
	static const std::vector<OpsRow<Cap> > table = makeTable<Cap>(typename TypesOf<Cap>::Type(), std::make_index_sequence<TypesOf<Cap>::Type::size>());
	ledger().resetCase();
	if(! blobMap().empty()) blobMap().clear(); // leftovers of a case that ended in a violation
	if(! ownBlocks().empty()) ownBlocks().clear();
	const bool exhaustive = ctx().mode == "exhaustive";
	uint64_t h;
	bool nontrivial;
	{
		World<Cap> w(rng, table);
		oplog("capacity " + num(Cap) + " (" + num((long long)table.size()) + " stored types) mode=" + (exhaustive ? "exhaustive" : "random"));
		if(exhaustive) w.runExhaustive();
		else w.runRandom((int)ctx().optInt("steps", rng.range(10, 40)));
		h = w.trace.h;
		nontrivial = w.sawInline && w.sawHeap && w.sawMove;
	}
	// everything destroyed: nothing may be left, nothing may have died twice
	if(! caseHasViolation()) {
		if(ledger().liveCount(K_PAYLOAD) != 0 || ! blobMap().empty())
			violation("lifetime:payload-leaked-after-destruction", num(ledger().liveCount(K_PAYLOAD)) + " held object(s) alive after every AnyData and the queue were destroyed");
		else if(! ownBlocks().empty())
			violation("allocation:block-from-the-type's-own-operator-new-never-given-back-to-its-operator-delete", num((long long)ownBlocks().size()) + " block(s) obtained from a held type's own operator new were not released through its operator delete");
	}
	count((std::string("cap.") + num(Cap)).c_str());
	Fnv f; f.addu(h); f.addu((uint64_t)Cap);
	if(nontrivial) markNontrivial(f.h);
	else count("cases_trivial");
	gTraceXor ^= mix(h, caseNo);
	if(wantSample() && nontrivial) addSample("{\"case\":" + unum(caseNo) + ",\"history\":" + oplogJson(ctx().oplog, 60) + "}");
}

template <bool Enabled, int Cap> static typename std::enable_if<Enabled>::type runCapIf(uint64_t caseNo, Rng & rng) { runCap<Cap>(caseNo, rng); }
template <bool Enabled, int Cap> static typename std::enable_if<! Enabled>::type runCapIf(uint64_t, Rng &) { --ctx().casesRun; }

static void runCase(uint64_t caseNo, Rng & rng)
{
	static const int caps[4] = { 16, 24, 64, 8 }; // AnyData<8>: a requested capacity below the library's minimum (16): it must behave exactly like AnyData<16>
	const long long only = ctx().optInt("cap", -1);
	const int cap = only > 0 ? (int)only : caps[caseNo % 4];
	switch(cap) {
	case 16: runCapIf<(VF_CAP_MASK & 1) != 0, 16>(caseNo, rng); break;
	case 24: runCapIf<(VF_CAP_MASK & 2) != 0, 24>(caseNo, rng); break;
	case 64: runCapIf<(VF_CAP_MASK & 4) != 0, 64>(caseNo, rng); break;
	case 8: runCapIf<(VF_CAP_MASK & 8) != 0, 8>(caseNo, rng); break;
	default: --ctx().casesRun; break;
	}
}

int main(int argc, char ** argv)
{
	return runMain(argc, argv, runCase, []() {
		ctx().counters["trace_xor_lo"] = gTraceXor & 0xffffffffu;
		ctx().counters["trace_xor_hi"] = gTraceXor >> 32;
		ctx().counters["payload.constructed"] = (uint64_t)ledger().constructed[K_PAYLOAD].load();
		ctx().counters["payload.copied"] = (uint64_t)ledger().copied[K_PAYLOAD].load();
		ctx().counters["payload.moved"] = (uint64_t)ledger().moved[K_PAYLOAD].load();
		ctx().counters["payload.destroyed"] = (uint64_t)ledger().destroyed[K_PAYLOAD].load();
	});
}
