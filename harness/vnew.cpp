// vnew.cpp - replaced global operator new / delete (every form): the k-th allocation made by LIBRARY code can be made to fail.
// Linked only into the fault-enumeration driver.  Harness allocations are exempt through vf::HarnessScope (depth flag).
#define VF_CUSTOM_HOOKS // the hooks are defined by the driver translation unit
#include "vledger.h"
#include <cstdlib>
#include <cstddef>
#include <new>

static void * vfAlloc(std::size_t n, std::size_t align, bool nothrow)
{
	if(vf::faultTick(vf::F_ALLOC)) {
		if(nothrow) return nullptr;
		throw std::bad_alloc();
	}
	if(n == 0) n = 1;
	void * p = nullptr;
	if(align <= alignof(std::max_align_t)) p = std::malloc(n);
	else { if(posix_memalign(&p, align, n) != 0) p = nullptr; }
	if(! p) { if(nothrow) return nullptr; throw std::bad_alloc(); }
	return p;
}

void * operator new(std::size_t n) { return vfAlloc(n, 0, false); }
void * operator new[](std::size_t n) { return vfAlloc(n, 0, false); }
void * operator new(std::size_t n, const std::nothrow_t &) noexcept { return vfAlloc(n, 0, true); }
void * operator new[](std::size_t n, const std::nothrow_t &) noexcept { return vfAlloc(n, 0, true); }
void operator delete(void * p) noexcept { std::free(p); }
void operator delete[](void * p) noexcept { std::free(p); }
void operator delete(void * p, std::size_t) noexcept { std::free(p); }
void operator delete[](void * p, std::size_t) noexcept { std::free(p); }
void operator delete(void * p, const std::nothrow_t &) noexcept { std::free(p); }
void operator delete[](void * p, const std::nothrow_t &) noexcept { std::free(p); }
#if __cplusplus >= 201703L
void * operator new(std::size_t n, std::align_val_t a) { return vfAlloc(n, (std::size_t)a, false); }
void * operator new[](std::size_t n, std::align_val_t a) { return vfAlloc(n, (std::size_t)a, false); }
void * operator new(std::size_t n, std::align_val_t a, const std::nothrow_t &) noexcept { return vfAlloc(n, (std::size_t)a, true); }
void * operator new[](std::size_t n, std::align_val_t a, const std::nothrow_t &) noexcept { return vfAlloc(n, (std::size_t)a, true); }
void operator delete(void * p, std::align_val_t) noexcept { std::free(p); }
void operator delete[](void * p, std::align_val_t) noexcept { std::free(p); }
void operator delete(void * p, std::size_t, std::align_val_t) noexcept { std::free(p); }
void operator delete[](void * p, std::size_t, std::align_val_t) noexcept { std::free(p); }
void operator delete(void * p, std::align_val_t, const std::nothrow_t &) noexcept { std::free(p); }
void operator delete[](void * p, std::align_val_t, const std::nothrow_t &) noexcept { std::free(p); }
#endif
