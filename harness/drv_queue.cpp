// drv_queue.cpp - online monitor of EventQueue against the sequential model M-queue + M-disp (DESIGN §4).  C++11.
//
// The model always knows the NEXT callback the library may make (a listener of
// the event being dispatched, a predicate call, or the return of the processing
// call); every real callback is compared with that expectation, then the
// generator may issue further operations from inside the callback.
//
// modes: c05 (FIFO / exactly-once, nested ops), c13 (ordered queue lists), c11 (emptiness from inside listeners),
//        c10 (copy/move of queues on pre-filled storage), c08 (lifetime: long histories, destruction with events pending)
#include "vcommon.h"
#include "vledger.h"
#include "vaccess.h"
#include "model_list.h"

#include <eventpp/eventqueue.h>
#include <eventpp/utilities/orderedqueuelist.h>

#include <deque>
#include <chrono>
#include <memory>

using namespace vf;
typedef eventpp_verif::Access Access;

// ------------------------------------------------------------------ configurations
struct EvObj
{
	int type;
	TPayload p;
	int val;
	EvObj() : type(0), p(), val(0) {}
	EvObj(int t, int eid, int v) : type(t), p(eid), val(v) {}
};
static long long evObjFp(long long type, long long eid, long long val) { return type * 1000003LL + eid * 1009LL + val; }
inline long long fpOf(const EvObj & e) { return evObjFp(e.type, e.p.observe(), e.val); }

struct CmpMod4Desc
{
	template <typename T> bool operator() (const T & a, const T & b) const { return (a.event % 4) > (b.event % 4); }
};

struct PolSingle { typedef eventpp::SingleThreading Threading; };
struct PolSpin { typedef eventpp::GeneralThreading<eventpp::SpinLock> Threading; };
struct PolOrdered { template <typename Item> using QueueList = eventpp::OrderedQueueList<Item>; };
// the QueueList policy here is a template with a defaulted second parameter (the library instantiates it with the item type only)
struct PolOrderedMod { typedef eventpp::SingleThreading Threading; template <typename Item, typename Compare = CmpMod4Desc> using QueueList = eventpp::OrderedQueueList<Item, Compare>; };
struct PolExclude { typedef eventpp::ArgumentPassingExcludeEvent ArgumentPassingMode; template <typename K, typename V> using Map = std::map<K, V>; typedef TCallback Callback; };
struct PolGetEvent { static int getEvent(const EvObj & e) { return e.type; } typedef eventpp::SingleThreading Threading; };

static int KI(int k) { return 10 + k * 3; }
static std::string KS(int k) { return "key-" + num(k) + std::string((size_t)k * 7, 'k'); }

struct CfgCommon
{
	enum { hasWait = 1, canPeek = 1, ordered = 0 };
	// model comparator on model keys (ordered configs): true if a must be dispatched before b
	static bool before(int, int) { return false; }
	// comparators that look at the event's ARGUMENTS instead of its key (byArg = 1): model order by event id
	enum { byArg = 0 };
	static bool beforeArg(int, int) { return false; }
};
template <typename Cfg> inline bool modelBefore(int ka, int ea, int kb, int eb) { return Cfg::byArg ? Cfg::beforeArg(ea, eb) : Cfg::before(ka, kb); }

struct QC0 : CfgCommon
{
	typedef eventpp::EventQueue<int, void(int, const TPayload &)> Q;
	static const char * name() { return "EventQueue<int,void(int,const TPayload&)> default policies"; }
	static void enqueue(Q & q, int k, int eid, int, uint32_t form) {
		if(form % 3 == 0) { TPayload p(eid); int kk = KI(k); q.enqueue(kk, p); }
		else if(form % 3 == 1) q.enqueue(KI(k), TPayload(eid));
		else { const TPayload p(eid); const int kk = KI(k); q.enqueue(kk, p); }
	}
	static void expect(ArgPack & p, int k, int eid, int) { p.push(KI(k)); p.push(eid); }
	static void dispatch(Q & q, int k, int eid, int) { TPayload p(eid); q.dispatch(KI(k), p); }
	static void queued(const Q::QueuedEvent & e, ArgPack & p) { if(e.event != std::get<0>(e.arguments)) p.push(-99); p.push(std::get<0>(e.arguments)); p.push(fpOf(std::get<1>(e.arguments))); }
	static int key(int k) { return KI(k); }
};
struct QC1 : CfgCommon
{
	enum { hasWait = 0 };
	typedef eventpp::EventQueue<std::string, void(const std::string &, TPayload, int), PolSingle> Q;
	static const char * name() { return "EventQueue<std::string,void(const std::string&,TPayload,int)> SingleThreading"; }
	static void enqueue(Q & q, int k, int eid, int val, uint32_t form) {
		if(form % 3 == 0) { TPayload p(eid); std::string kk = KS(k); q.enqueue(kk, p, val); }
		else if(form % 3 == 1) q.enqueue(KS(k), TPayload(eid), val);
		else { const TPayload p(eid); const std::string kk = KS(k); q.enqueue(kk, p, val); }
	}
	static void expect(ArgPack & p, int k, int eid, int val) { p.push(fpOf(KS(k))); p.push(eid); p.push(val); }
	static void dispatch(Q & q, int k, int eid, int val) { TPayload p(eid); q.dispatch(KS(k), p, val); }
	static void queued(const Q::QueuedEvent & e, ArgPack & p) { if(e.event != std::get<0>(e.arguments)) p.push(-99); p.push(fpOf(std::get<0>(e.arguments))); p.push(fpOf(std::get<1>(e.arguments))); p.push(std::get<2>(e.arguments)); }
	static std::string key(int k) { return KS(k); }
};
struct QC2 : CfgCommon
{
	enum { canPeek = 0, hasWait = 0 }; // std::condition_variable cannot wait on a SpinLock: wait/waitFor do not compile for this policy
	typedef eventpp::EventQueue<int, void(int, const TMoveOnly &), PolSpin> Q;
	static const char * name() { return "EventQueue<int,void(int,const TMoveOnly&)> SpinLock, move-only payload"; }
	static void enqueue(Q & q, int k, int eid, int, uint32_t form) {
		if(form % 2 == 0) q.enqueue(KI(k), TMoveOnly(eid));
		else { TMoveOnly p(eid); q.enqueue(KI(k), std::move(p)); }
	}
	static void expect(ArgPack & p, int k, int eid, int) { p.push(KI(k)); p.push(eid); }
	static void dispatch(Q & q, int k, int eid, int) { TMoveOnly p(eid); q.dispatch(KI(k), p); }
	static void queued(const Q::QueuedEvent & e, ArgPack & p) { if(e.event != std::get<0>(e.arguments)) p.push(-99); p.push(std::get<0>(e.arguments)); p.push(fpOf(std::get<1>(e.arguments))); }
	static int key(int k) { return KI(k); }
};
struct QC3 : QC0
{
	enum { ordered = 1 };
	typedef eventpp::EventQueue<int, void(int, const TPayload &), PolOrdered> Q;
	static const char * name() { return "EventQueue<int,void(int,const TPayload&)> OrderedQueueList (ascending)"; }
	static bool before(int a, int b) { return KI(a) < KI(b); }
	static void enqueue(Q & q, int k, int eid, int, uint32_t form) {
		if(form % 2 == 0) { TPayload p(eid); q.enqueue(KI(k), p); }
		else q.enqueue(KI(k), TPayload(eid));
	}
	static void dispatch(Q & q, int k, int eid, int) { TPayload p(eid); q.dispatch(KI(k), p); }
	static void queued(const Q::QueuedEvent & e, ArgPack & p) { if(e.event != std::get<0>(e.arguments)) p.push(-99); p.push(std::get<0>(e.arguments)); p.push(fpOf(std::get<1>(e.arguments))); }
};
struct QC4 : QC0
{
	enum { ordered = 1, hasWait = 0 };
	typedef eventpp::EventQueue<int, void(int, const TPayload &), PolOrderedMod> Q;
	static const char * name() { return "EventQueue<int,void(int,const TPayload&)> OrderedQueueList (key%4 descending, many ties) SingleThreading"; }
	static bool before(int a, int b) { return (KI(a) % 4) > (KI(b) % 4); }
	static void enqueue(Q & q, int k, int eid, int, uint32_t form) {
		if(form % 2 == 0) { TPayload p(eid); q.enqueue(KI(k), p); }
		else q.enqueue(KI(k), TPayload(eid));
	}
	static void dispatch(Q & q, int k, int eid, int) { TPayload p(eid); q.dispatch(KI(k), p); }
	static void queued(const Q::QueuedEvent & e, ArgPack & p) { if(e.event != std::get<0>(e.arguments)) p.push(-99); p.push(std::get<0>(e.arguments)); p.push(fpOf(std::get<1>(e.arguments))); }
};
struct QC5 : CfgCommon
{
	typedef eventpp::EventQueue<int, void(const TPayload &, int), PolExclude> Q;
	static const char * name() { return "EventQueue<int,void(const TPayload&,int)> ExcludeEvent, std::map, custom Callback"; }
	static void enqueue(Q & q, int k, int eid, int val, uint32_t form) {
		if(form % 2 == 0) { TPayload p(eid); q.enqueue(KI(k), p, val); }
		else q.enqueue(KI(k), TPayload(eid), val);
	}
	static void expect(ArgPack & p, int, int eid, int val) { p.push(eid); p.push(val); }
	static void dispatch(Q & q, int k, int eid, int val) { TPayload p(eid); q.dispatch(KI(k), p, val); }
	static void queued(const Q::QueuedEvent & e, ArgPack & p) { p.push(e.event); p.push(fpOf(std::get<0>(e.arguments))); p.push(std::get<1>(e.arguments)); }
	static int key(int k) { return KI(k); }
};
struct QC6 : CfgCommon
{
	enum { hasWait = 0 };
	typedef eventpp::EventQueue<int, void(const EvObj &), PolGetEvent> Q;
	static const char * name() { return "EventQueue<int,void(const EvObj&)> getEvent policy, SingleThreading"; }
	static void enqueue(Q & q, int k, int eid, int val, uint32_t form) {
		if(form % 2 == 0) { EvObj e(KI(k), eid, val); q.enqueue(e); }
		else q.enqueue(EvObj(KI(k), eid, val));
	}
	static void expect(ArgPack & p, int k, int eid, int val) { p.push(evObjFp(KI(k), eid, val)); }
	static void dispatch(Q & q, int k, int eid, int val) { EvObj e(KI(k), eid, val); q.dispatch(e); }
	static void queued(const Q::QueuedEvent & e, ArgPack & p) { if(e.event != std::get<0>(e.arguments).type) p.push(-99); p.push(fpOf(std::get<0>(e.arguments))); }
	static int key(int k) { return KI(k); }
};
// exclude-event form with a getEvent policy that is not the identity on the first argument
struct PolGetEventMaskQ { static int getEvent(int id, const TPayload &, int) { return id & 0xff; } typedef eventpp::ArgumentPassingExcludeEvent ArgumentPassingMode; typedef eventpp::SingleThreading Threading; };
static int KM(int k) { return 1 + k * 3; }
struct QC7 : CfgCommon
{
	enum { hasWait = 0 };
	typedef eventpp::EventQueue<int, void(const TPayload &, int), PolGetEventMaskQ> Q;
	static const char * name() { return "EventQueue<int,void(const TPayload&,int)> exclude-event form, getEvent policy masks the id"; }
	static void enqueue(Q & q, int k, int eid, int val, uint32_t form) {
		const int raw = KM(k) | ((1 + (eid % 3)) << 8);
		if(form % 2 == 0) { TPayload p(eid); int kk = raw; q.enqueue(kk, p, val); }
		else q.enqueue(int(raw), TPayload(eid), int(val));
	}
	static void expect(ArgPack & p, int, int eid, int val) { p.push(eid); p.push(val); }
	static void dispatch(Q & q, int k, int eid, int val) { TPayload p(eid); q.dispatch(KM(k) | 0x500, p, val); }
	static void queued(const Q::QueuedEvent & e, ArgPack & p) { p.push(e.event); p.push(fpOf(std::get<0>(e.arguments))); p.push(std::get<1>(e.arguments)); }
	static int key(int k) { return KM(k); }
};
// getEvent policy taking its (movable) argument BY VALUE, events enqueued from temporaries
struct PolGetEventByValueQ { static std::string getEvent(std::string name, const TPayload &) { return name; } };
struct QC8 : CfgCommon
{
	typedef eventpp::EventQueue<std::string, void(std::string, TPayload), PolGetEventByValueQ> Q;
	static const char * name() { return "EventQueue<std::string,void(std::string,TPayload)> getEvent takes the key by value, temporaries enqueued"; }
	static void enqueue(Q & q, int k, int eid, int, uint32_t form) {
		if(form % 3 == 0) { std::string kk = KS(k); TPayload p(eid); q.enqueue(kk, p); }
		else if(form % 3 == 1) q.enqueue(KS(k), TPayload(eid));
		else { std::string kk = KS(k); q.enqueue(std::move(kk), TPayload(eid)); }
	}
	static void expect(ArgPack & p, int k, int eid, int) { p.push(fpOf(KS(k))); p.push(eid); }
	static void dispatch(Q & q, int k, int eid, int) { TPayload p(eid); q.dispatch(KS(k), p); }
	static void queued(const Q::QueuedEvent & e, ArgPack & p) { if(e.event != std::get<0>(e.arguments)) p.push(-99); p.push(fpOf(std::get<0>(e.arguments))); p.push(fpOf(std::get<1>(e.arguments))); }
	static std::string key(int k) { return KS(k); }
};
// the payload type asks for 16-byte alignment (queue slots are raw storage: the library must place them suitably)
struct QC9 : CfgCommon
{
	typedef eventpp::EventQueue<int, void(int, const TPayloadA16 &)> Q;
	static const char * name() { return "EventQueue<int,void(int,const TPayloadA16&)> default policies, argument type with alignof 16"; }
	static void enqueue(Q & q, int k, int eid, int, uint32_t form) {
		if(form % 3 == 0) { TPayloadA16 p(eid); int kk = KI(k); q.enqueue(kk, p); }
		else if(form % 3 == 1) q.enqueue(KI(k), TPayloadA16(eid));
		else { const TPayloadA16 p(eid); const int kk = KI(k); q.enqueue(kk, p); }
	}
	static void expect(ArgPack & p, int k, int eid, int) { p.push(KI(k)); p.push(eid); }
	static void dispatch(Q & q, int k, int eid, int) { TPayloadA16 p(eid); q.dispatch(KI(k), p); }
	static void queued(const Q::QueuedEvent & e, ArgPack & p) { if(e.event != std::get<0>(e.arguments)) p.push(-99); p.push(std::get<0>(e.arguments)); p.push(fpOf(std::get<1>(e.arguments))); }
	static int key(int k) { return KI(k); }
};
// the comparator of the ordered list reads the event's ARGUMENTS (a priority carried by the payload), not its key: events of one
// key have different priorities, events of different keys may have the same
struct CmpByPayloadPrio
{
	static int prio(int eid) { return eid % 3; }
	template <typename T> bool operator() (const T & a, const T & b) const { return prio(std::get<1>(a.arguments).id()) > prio(std::get<1>(b.arguments).id()); }
};
struct PolOrderedByArg { template <typename Item> using QueueList = eventpp::OrderedQueueList<Item, CmpByPayloadPrio>; };
struct QC10 : QC0
{
	enum { ordered = 1, byArg = 1 };
	typedef eventpp::EventQueue<int, void(int, const TPayload &), PolOrderedByArg> Q;
	static const char * name() { return "EventQueue<int,void(int,const TPayload&)> OrderedQueueList, comparator on the payload argument (priority = id % 3, descending)"; }
	static bool beforeArg(int ea, int eb) { return CmpByPayloadPrio::prio(ea) > CmpByPayloadPrio::prio(eb); }
	static void enqueue(Q & q, int k, int eid, int, uint32_t form) {
		if(form % 2 == 0) { TPayload p(eid); q.enqueue(KI(k), p); }
		else q.enqueue(KI(k), TPayload(eid));
	}
	static void dispatch(Q & q, int k, int eid, int) { TPayload p(eid); q.dispatch(KI(k), p); }
	static void queued(const Q::QueuedEvent & e, ArgPack & p) { if(e.event != std::get<0>(e.arguments)) p.push(-99); p.push(std::get<0>(e.arguments)); p.push(fpOf(std::get<1>(e.arguments))); }
};
// what queued() must produce for an event
template <typename Cfg> inline void expectQueued(ArgPack & p, int k, int eid, int val) { Cfg::expect(p, k, eid, val); }
template <> inline void expectQueued<QC5>(ArgPack & p, int k, int eid, int val) { p.push(KI(k)); p.push(eid); p.push(val); }
template <> inline void expectQueued<QC7>(ArgPack & p, int k, int eid, int val) { p.push(KM(k)); p.push(eid); p.push(val); }

// ------------------------------------------------------------------ model
enum EvState { ES_PENDING, ES_INBATCH, ES_DISPATCHED, ES_TAKEN, ES_CLEARED, ES_DESTROYED, ES_DIRECT };
static const char * kEvState[] = { "pending", "in-batch", "dispatched", "taken", "cleared", "destroyed-with-queue", "direct" };
struct Ev { int k; int val; int state; int q; };

enum PKind { PK_PROCESS, PK_ONE, PK_IF, PK_UNTIL, PK_DIRECT, PK_TAKEN };
static const char * kPKind[] = { "process", "processOne", "processIf", "processUntil", "dispatch", "dispatch(QueuedEvent)" };
enum Phase { PH_START, PH_PRED_PENDING, PH_DISPATCH, PH_DONE };
enum ExKind { EX_LISTENER, EX_PRED, EX_RETURN };

struct PFrame
{
	int q, kind;
	std::vector<int> batch;
	size_t idx;
	int phase;
	ListFrame lf;
	bool active; // took a batch: the queue must not be reported empty while this frame exists
	int dispatched;
	std::vector<int> declined;
	bool predArgs;
	std::vector<int> dispatchedOrder;
	PFrame() : q(0), kind(0), idx(0), phase(PH_START), active(false), dispatched(0), predArgs(true) {}
};

struct QMode
{
	int pAct, maxDepth, minOps, maxOps;
	bool structural;
	int nq;
	int wEmpty; // extra weight of emptyQueue/waitFor observations
};
static QMode qmodeOf(const std::string & m)
{
	QMode r; r.pAct = 30; r.maxDepth = 2; r.minOps = 50; r.maxOps = 200; r.structural = false; r.nq = 1; r.wEmpty = 0;
	if(m == "c11") { r.pAct = 55; r.wEmpty = 25; r.minOps = 40; r.maxOps = 120; }
	else if(m == "c10") { r.structural = true; r.nq = 3; r.pAct = 15; r.minOps = 40; r.maxOps = 120; }
	else if(m == "c08") { r.structural = true; r.nq = 2; r.pAct = 35; r.minOps = 100; r.maxOps = 300; }
	else if(m == "c13") { r.pAct = 35; }
	else if(m == "c20") { r.structural = true; r.nq = 2; r.pAct = 30; r.minOps = 40; r.maxOps = 120; }
	return r;
}
static const unsigned char kPrefill[4] = { 0x00, 0xFF, 0xA5, 0x5C };

template <typename Cfg>
struct World : CallbackSink
{
	typedef typename Cfg::Q Q;
	typedef typename Q::Handle Handle;
	typedef typename Q::QueuedEvent QueuedEvent;
	enum { MAXQ = 3, NKEYS = 5 };

	struct alignas(16) Slot { unsigned char buf[sizeof(Q)]; };
	Slot slots[MAXQ];
	bool alive[MAXQ];
	struct QM { ListModel lm; std::deque<int> pending; int active; std::vector<Handle> rh; int disabled; QM() : active(0), disabled(0) {} };
	typedef typename Q::DisableQueueNotify Dqn;
	std::vector<std::unique_ptr<Dqn> > dqns[MAXQ]; // DisableQueueNotify objects alive on each queue (destroyed in any order)
	QM qm[MAXQ];
	int nq;
	QMode mode;
	Rng & rng;
	std::vector<Ev> evs;
	std::vector<PFrame> frames;
	int nextCb, budget;
	Fnv trace;
	bool dead;
	bool sawRequeue, sawNested, sawProcess;

	World(const QMode & m, Rng & r) : nq(1), mode(m), rng(r), nextCb(0), budget(0), dead(false), sawRequeue(false), sawNested(false), sawProcess(false) {
		for(int i = 0; i < MAXQ; ++i) alive[i] = false;
		frames.reserve(16);
	}
	~World() { for(int i = 0; i < MAXQ; ++i) destroyQ(i); }

	Q & Qat(int i) { return *reinterpret_cast<Q *>(slots[i].buf); }
	void prefill(int i, unsigned pat) {
		static const bool noPrefill = ctx().optInt("noprefill", 0) != 0; // memcheck runs: leave the storage undefined
		if(noPrefill) { if(pat >= 4) rng.next(); return; }
		if(pat < 4) memset(slots[i].buf, kPrefill[pat], sizeof(Q));
		else { Rng fill(rng.next()); for(size_t k = 0; k < sizeof(Q); ++k) slots[i].buf[k] = (unsigned char)fill.below(256); } // one draw: the object size must not influence the program
	}
	void destroyQ(int i) { if(alive[i]) { dqns[i].clear(); Qat(i).~Q(); alive[i] = false; } }

	std::string pre() const { return "[" + num((long long)frames.size()) + "] "; }
	void log(const std::string & s) { oplog(pre() + s); trace.add(s); }
	void fail(const std::string & key, const std::string & desc) {
		violation(key, desc);
		oplog(pre() + "!! " + key + " :: " + desc);
		dead = true;
	}
	std::string evStr(int eid) const {
		if(eid < 0 || eid >= (int)evs.size()) return "e?";
		return "e" + num(eid) + "(k" + num(evs[eid].k) + "," + kEvState[evs[eid].state] + ")";
	}
	ArgPack expectOf(int eid) const { ArgPack p; Cfg::expect(p, evs[eid].k, eid, evs[eid].val); return p; }
	// which event would produce these listener arguments (diagnostics only)
	int findEventByArgs(const ArgPack & a) const {
		for(int e = (int)evs.size() - 1; e >= 0; --e) {
			ArgPack p = expectOf(e);
			bool same = p.n == a.n;
			for(int i = 0; same && i < p.n; ++i) same = p.fp[i] == a.fp[i];
			if(same) return e;
		}
		return -1;
	}

	// ---------- pending list (FIFO or comparator order, stable)
	void insertPending(QM & m, int eid) {
		if(! Cfg::ordered) { m.pending.push_back(eid); return; }
		std::deque<int>::iterator it = m.pending.begin();
		while(it != m.pending.end() && ! modelBefore<Cfg>(evs[eid].k, eid, evs[*it].k, *it)) ++it; // after every element that is not greater
		m.pending.insert(it, eid);
	}
	void putBack(QM & m, const std::vector<int> & declined) {
		if(declined.empty()) return;
		std::vector<int> all(declined.begin(), declined.end());
		all.insert(all.end(), m.pending.begin(), m.pending.end());
		if(Cfg::ordered) {
			struct Less { const std::vector<Ev> * evs; bool operator() (int a, int b) const { return modelBefore<Cfg>((*evs)[a].k, a, (*evs)[b].k, b); } };
			Less l; l.evs = &evs;
			std::stable_sort(all.begin(), all.end(), l);
		}
		m.pending.assign(all.begin(), all.end());
		for(size_t i = 0; i < declined.size(); ++i) evs[declined[i]].state = ES_PENDING;
	}
	bool modelEmpty(int q) const { return qm[q].pending.empty() && qm[q].active == 0; }

	// ---------- expectation engine
	struct Expect { int kind; int uid; int eid; };
	Expect advance(PFrame & f) {
		Expect ex; ex.kind = EX_RETURN; ex.uid = -1; ex.eid = -1;
		QM & m = qm[f.q];
		for(;;) {
			if(f.phase == PH_DONE) return ex;
			if(f.idx >= f.batch.size()) { f.phase = PH_DONE; return ex; }
			const int eid = f.batch[f.idx];
			if(f.phase == PH_START) {
				if(f.kind == PK_IF || f.kind == PK_UNTIL) { ex.kind = EX_PRED; ex.eid = eid; return ex; }
				beginDispatch(f, eid);
			}
			if(f.phase == PH_PRED_PENDING) { ex.kind = EX_PRED; ex.eid = eid; return ex; } // not reached (verdict applied synchronously)
			if(f.phase == PH_DISPATCH) {
				const int uid = m.lm.peekNext(f.lf);
				if(uid >= 0) { ex.kind = EX_LISTENER; ex.uid = uid; ex.eid = eid; return ex; }
				// dispatch of this event complete
				++f.idx;
				f.phase = PH_START;
			}
		}
	}
	void beginDispatch(PFrame & f, int eid) {
		f.lf = qm[f.q].lm.begin(evs[eid].k);
		f.phase = PH_DISPATCH;
		++f.dispatched;
		f.dispatchedOrder.push_back(eid);
		if(evs[eid].state == ES_INBATCH) evs[eid].state = ES_DISPATCHED;
		count("events_dispatched");
	}

	std::string expectStr(const PFrame & f, const Expect & ex) const {
		if(ex.kind == EX_RETURN) return "return of " + std::string(kPKind[f.kind]);
		if(ex.kind == EX_PRED) return "predicate call for " + evStr(ex.eid);
		return "listener cb" + num(qm[f.q].lm.nodes[ex.uid].cbid) + " for " + evStr(ex.eid);
	}

	// a listener was really called
	void onCall(int cbid, const ArgPack & args, MutInts &) override {
		if(dead) return;
		if(frames.empty()) { fail("listener-called-outside-any-dispatch", "cb" + num(cbid) + args.str()); return; }
		PFrame & f = frames.back();
		Expect ex = advance(f);
		const int got = findEventByArgs(args);
		if(ex.kind != EX_LISTENER) {
			std::string k = "dispatch:unexpected-listener-call:expected-" + std::string(ex.kind == EX_PRED ? "predicate" : "return") + ":event-" + (got >= 0 ? kEvState[evs[got].state] : "unknown");
			fail(k, "cb" + num(cbid) + args.str() + " called for " + evStr(got) + " inside " + kPKind[f.kind] + "; model expected " + expectStr(f, ex));
			return;
		}
		ArgPack want = expectOf(ex.eid);
		bool same = want.n == args.n;
		for(int i = 0; same && i < want.n; ++i) same = want.fp[i] == args.fp[i];
		if(! same) {
			if(got >= 0 && got != ex.eid) fail(std::string("dispatch:wrong-event:got-") + kEvState[evs[got].state], "listener called for " + evStr(got) + ", model expected " + evStr(ex.eid));
			else fail("dispatch:arguments", "listener received " + args.str() + ", model says " + want.str() + " for " + evStr(ex.eid));
			return;
		}
		ListModel & lm = qm[f.q].lm;
		if(lm.nodes[ex.uid].cbid != cbid) {
			fail("dispatch:" + lm.classify(f.lf, cbid), "cb" + num(cbid) + " called for " + evStr(ex.eid) + "; model expected cb" + num(lm.nodes[ex.uid].cbid));
			return;
		}
		lm.consume(f.lf);
		log("call cb" + num(cbid) + " " + evStr(ex.eid) + args.str());
		count("listener_calls");
		nestedActions();
	}

	// the predicate was really called; returns the verdict
	bool onPred(const ArgPack * args) {
		if(dead) return false;
		if(frames.empty()) { fail("predicate-called-outside-processing", "predicate called while no processing call is in progress"); return false; }
		Expect ex = advance(frames.back());
		if(ex.kind != EX_PRED) {
			fail("processIf:unexpected-predicate-call", "predicate called" + (args ? args->str() : std::string("()")) + "; model expected " + expectStr(frames.back(), ex));
			return false;
		}
		if(args) {
			ArgPack want = expectOf(ex.eid);
			bool same = want.n == args->n;
			for(int i = 0; same && i < want.n; ++i) same = want.fp[i] == args->fp[i];
			if(! same) {
				const int got = findEventByArgs(*args);
				fail(got >= 0 && got != ex.eid ? "processIf:predicate-wrong-event" : "processIf:predicate-arguments",
					"predicate received " + args->str() + " (" + evStr(got) + "), model says " + want.str() + " for " + evStr(ex.eid));
				return false;
			}
		}
		const bool verdict = rng.chance(1, 2);
		log("pred " + evStr(ex.eid) + " -> " + num(verdict));
		count("predicate_calls");
		nestedActions();
		if(dead) return false;
		PFrame & f = frames.back(); // re-fetch: nested actions may have reallocated
		const int eid = f.batch[f.idx];
		if(f.kind == PK_IF) {
			if(verdict) beginDispatch(f, eid);
			else { f.declined.push_back(eid); ++f.idx; f.phase = PH_START; }
		}
		else { // until: true stops
			if(verdict) { for(size_t i = f.idx; i < f.batch.size(); ++i) f.declined.push_back(f.batch[i]); f.idx = f.batch.size(); f.phase = PH_DONE; }
			else beginDispatch(f, eid);
		}
		return verdict;
	}

	struct PredArgs
	{
		World * w;
		template <typename A0, typename ...A>
		// behaves like a predicate that takes its parameters by value: whatever arrives as an rvalue is consumed (moved from) after it was
		// looked at.  Harmless when the library hands the predicate its own copy, visible at the dispatch / peek / take of that event if
		// the library handed out the queued object itself.
		bool operator() (A0 && a0, A && ...a) const { ArgPack p; packArgs(p, a0, a...); const bool r = w->onPred(&p); consumeRvalues(std::forward<A0>(a0), std::forward<A>(a)...); return r; }
	};
	struct PredNoArgs
	{
		World * w;
		bool operator() () const { return w->onPred(nullptr); }
	};

	void nestedActions() {
		if(mode.pAct == 0 || (int)frames.size() > mode.maxDepth || budget <= 0) return;
		if(! rng.chance((uint32_t)mode.pAct, 100)) return;
		int n = 1 + (int)rng.below(3);
		sawNested = true;
		for(int i = 0; i < n && budget > 0 && ! dead; ++i) { --budget; count("nested_actions"); step(); }
	}

	// ---------- processing calls
	void takeBatch(PFrame & f, bool all) {
		QM & m = qm[f.q];
		if(m.pending.empty()) return;
		f.active = true;
		++m.active;
		if(all) { f.batch.assign(m.pending.begin(), m.pending.end()); m.pending.clear(); }
		else { f.batch.push_back(m.pending.front()); m.pending.pop_front(); }
		for(size_t i = 0; i < f.batch.size(); ++i) evs[f.batch[i]].state = ES_INBATCH;
	}
	// after the real call returned
	void finishFrame(bool realResult, bool hasResult) {
		if(dead) { frames.pop_back(); return; }
		{
			PFrame & f0 = frames.back();
			Expect ex = advance(f0);
			if(ex.kind != EX_RETURN) {
				fail(std::string(kPKind[f0.kind]) + ":returned-early:" + (ex.kind == EX_PRED ? "predicate-not-called" : "listener-not-called"),
					std::string(kPKind[f0.kind]) + " returned although the model still expected " + expectStr(f0, ex));
				frames.pop_back();
				return;
			}
		}
		PFrame f = frames.back();
		frames.pop_back();
		QM & m = qm[f.q];
		if(! f.declined.empty()) { sawRequeue = true; count("events_requeued", f.declined.size()); }
		putBack(m, f.declined);
		if(f.active) --m.active;
		if(hasResult) {
			const bool want = f.dispatched > 0;
			if(realResult != want) { fail(std::string(kPKind[f.kind]) + ":result", std::string(kPKind[f.kind]) + " returned " + num(realResult) + ", model says " + num(want)); return; }
		}
		// C13: independent check of the order inside this call (comparator order, ties in enqueue order)
		if(Cfg::ordered && (f.kind == PK_PROCESS || f.kind == PK_IF || f.kind == PK_UNTIL)) {
			for(size_t i = 1; i < f.dispatchedOrder.size(); ++i) {
				const int a = f.dispatchedOrder[i - 1], b = f.dispatchedOrder[i];
				if(modelBefore<Cfg>(evs[b].k, b, evs[a].k, a) || (! modelBefore<Cfg>(evs[a].k, a, evs[b].k, b) && b < a)) {
					fail("ordered:dispatch-order-within-call", evStr(a) + " dispatched before " + evStr(b));
					return;
				}
			}
		}
		log(std::string(kPKind[f.kind]) + " Q" + num(f.q) + " done -> " + num(realResult) + " dispatched=" + num(f.dispatched) + " requeued=" + num((long long)f.declined.size()));
	}

	void doProcess(int q, int kind) {
		PFrame f; f.q = q; f.kind = kind;
		takeBatch(f, kind != PK_ONE);
		f.predArgs = rng.chance(2, 3);
		log(std::string(kPKind[kind]) + " Q" + num(q) + " batch=" + num((long long)f.batch.size()) + ((kind == PK_IF || kind == PK_UNTIL) ? (f.predArgs ? " pred(args)" : " pred()") : ""));
		const bool predArgs = f.predArgs;
		if(! f.batch.empty()) sawProcess = true;
		frames.push_back(f);
		if(frames.size() > 1) count("nested_processing_calls");
		countMax("max_depth", frames.size());
		count((std::string("op.") + kPKind[kind]).c_str());
		bool r = false;
		Q & rq = Qat(q);
		switch(kind) {
		case PK_PROCESS: r = rq.process(); break;
		case PK_ONE: r = rq.processOne(); break;
		case PK_IF: if(predArgs) { PredArgs p; p.w = this; r = rq.processIf(p); } else { PredNoArgs p; p.w = this; r = rq.processIf(p); } break;
		default: if(predArgs) { PredArgs p; p.w = this; r = rq.processUntil(p); } else { PredNoArgs p; p.w = this; r = rq.processUntil(p); } break;
		}
		finishFrame(r, true);
	}

	void doDirectDispatch(int q) {
		Ev e; e.k = (int)rng.below(NKEYS); e.val = (int)rng.below(1000); e.state = ES_DIRECT; e.q = q;
		evs.push_back(e);
		const int eid = (int)evs.size() - 1;
		PFrame f; f.q = q; f.kind = PK_DIRECT; f.batch.push_back(eid);
		log("dispatch Q" + num(q) + " " + evStr(eid));
		frames.push_back(f);
		count("op.dispatch");
		Cfg::dispatch(Qat(q), e.k, eid, e.val);
		finishFrame(true, false);
	}

	void doEnqueue(int q) {
		if(evs.size() > 3000) return;
		Ev e; e.k = (int)rng.below(NKEYS); e.val = (int)rng.below(1000); e.state = ES_PENDING; e.q = q;
		evs.push_back(e);
		const int eid = (int)evs.size() - 1;
		insertPending(qm[q], eid);
		const uint32_t form = rng.below(6);
		log("enqueue Q" + num(q) + " " + evStr(eid) + " form=" + num(form));
		count("op.enqueue");
		if(! frames.empty()) count("enqueue_during_processing");
		Cfg::enqueue(Qat(q), e.k, eid, e.val, form);
		if(ledger().liveOf(K_PAYLOAD, eid) != 1 && ! dead) fail("enqueue:payload-instances", num(ledger().liveOf(K_PAYLOAD, eid)) + " live instances of the payload of " + evStr(eid) + " after enqueue returned (expected the queue's own copy only)");
	}

	template <bool P = Cfg::canPeek>
	typename std::enable_if<P>::type doPeek(int q) {
		QM & m = qm[q];
		const bool want = ! m.pending.empty();
		bool got;
		ArgPack a, w;
		{
			QueuedEvent qe;
			got = Qat(q).peekEvent(&qe);
			if(got) Cfg::queued(qe, a);
		}
		log("peekEvent Q" + num(q) + " -> " + num(got) + (got ? a.str() : std::string()));
		count("op.peekEvent");
		if(got != want) { fail("peekEvent:result", "peekEvent returned " + num(got) + ", model says " + num(want)); return; }
		if(got) {
			const int eid = m.pending.front();
			expectQueued<Cfg>(w, evs[eid].k, eid, evs[eid].val);
			bool same = a.n == w.n;
			for(int i = 0; same && i < a.n; ++i) same = a.fp[i] == w.fp[i];
			if(! same) fail("peekEvent:content", "peekEvent delivered " + a.str() + ", model says " + w.str() + " = " + evStr(eid));
		}
	}
	template <bool P = Cfg::canPeek>
	typename std::enable_if<! P>::type doPeek(int) {}

	void doTake(int q) {
		QM & m = qm[q];
		const bool want = ! m.pending.empty();
		int eid = -1;
		if(want) { eid = m.pending.front(); m.pending.pop_front(); evs[eid].state = ES_TAKEN; }
		QueuedEvent qe;
		const bool got = Qat(q).takeEvent(&qe);
		ArgPack a, w;
		if(got) Cfg::queued(qe, a);
		log("takeEvent Q" + num(q) + " -> " + num(got) + (got ? a.str() : std::string()));
		count("op.takeEvent");
		if(got != want) { fail("takeEvent:result", "takeEvent returned " + num(got) + ", model says " + num(want)); return; }
		if(! got) return;
		count("events_taken");
		expectQueued<Cfg>(w, evs[eid].k, eid, evs[eid].val);
		bool same = a.n == w.n;
		for(int i = 0; same && i < a.n; ++i) same = a.fp[i] == w.fp[i];
		if(! same) { fail("takeEvent:content", "takeEvent delivered " + a.str() + ", model says " + w.str() + " = " + evStr(eid)); return; }
		if(ledger().liveOf(K_PAYLOAD, eid) != 1) { fail("takeEvent:payload-instances", num(ledger().liveOf(K_PAYLOAD, eid)) + " live instances of the taken payload (expected only the caller's)"); return; }
		if(rng.chance(1, 2) && (int)frames.size() <= mode.maxDepth) {
			PFrame f; f.q = q; f.kind = PK_TAKEN; f.batch.push_back(eid);
			log("dispatch(QueuedEvent) Q" + num(q) + " " + evStr(eid));
			frames.push_back(f);
			count("op.dispatch_taken");
			Qat(q).dispatch(qe);
			finishFrame(true, false);
		}
	}

	void doClear(int q) {
		QM & m = qm[q];
		std::vector<int> cleared(m.pending.begin(), m.pending.end());
		m.pending.clear();
		for(size_t i = 0; i < cleared.size(); ++i) evs[cleared[i]].state = ES_CLEARED;
		Qat(q).clearEvents();
		log("clearEvents Q" + num(q) + " discarded=" + num((long long)cleared.size()));
		count("op.clearEvents");
		count("events_cleared", cleared.size());
		for(size_t i = 0; i < cleared.size() && ! dead; ++i)
			if(ledger().liveOf(K_PAYLOAD, cleared[i]) != 0) fail("clearEvents:payload-not-released", "payload of " + evStr(cleared[i]) + " still alive after clearEvents returned");
	}

	void doEmpty(int q) {
		const bool want = modelEmpty(q);
		const bool got = Qat(q).emptyQueue();
		log("emptyQueue Q" + num(q) + " -> " + num(got));
		count("op.emptyQueue");
		if(qm[q].active > 0) count("emptyQueue_observed_during_processing");
		if(got != want) fail(std::string("emptyQueue:result:") + (qm[q].active > 0 ? "during-processing" : "idle"), "emptyQueue returned " + num(got) + ", model says " + num(want) + " (pending=" + num((long long)qm[q].pending.size()) + ", processing calls in progress=" + num(qm[q].active) + ")");
	}
	template <bool W = (Cfg::hasWait != 0)>
	typename std::enable_if<W>::type doWaitFor0(int q) {
		const bool want = ! modelEmpty(q) && qm[q].disabled == 0; // released only with a non-empty queue AND notification enabled
		const bool got = Qat(q).waitFor(std::chrono::milliseconds(0));
		log("waitFor(0) Q" + num(q) + " -> " + num(got));
		count("op.waitFor0");
		if(got != want) fail(std::string("waitFor0:result:") + (qm[q].active > 0 ? "during-processing" : "idle"), "waitFor(0) returned " + num(got) + ", model says " + num(want));
	}
	template <bool W = (Cfg::hasWait != 0)>
	typename std::enable_if<! W>::type doWaitFor0(int q) { doEmpty(q); }

	// DisableQueueNotify objects only defer notification: every other operation must behave exactly as without them
	void doDqn(int q) {
		QM & m = qm[q];
		if(! dqns[q].empty() && (dqns[q].size() >= 3 || rng.chance(1, 2))) {
			const size_t i = rng.below((uint32_t)dqns[q].size());
			dqns[q].erase(dqns[q].begin() + (long)i);
			--m.disabled;
			log("~DisableQueueNotify Q" + num(q) + " (alive now: " + num(m.disabled) + ")");
		}
		else {
			dqns[q].push_back(std::unique_ptr<Dqn>(new Dqn(&Qat(q))));
			++m.disabled;
			log("DisableQueueNotify Q" + num(q) + " (alive now: " + num(m.disabled) + ")");
		}
		count("op.DisableQueueNotify");
	}
	void dropDqns(int q) { dqns[q].clear(); qm[q].disabled = 0; }

	// ---------- listeners
	int pickListener(int q, int k) {
		QM & m = qm[q];
		const std::vector<int> & o = m.lm.listOf(k);
		uint32_t c = rng.below(10);
		if(c < 6 && ! o.empty()) return o[rng.below((uint32_t)o.size())];
		if(c < 8 && ! frames.empty() && frames.back().q == q && frames.back().lf.curUid >= 0) return frames.back().lf.curUid;
		if(c < 9 && ! m.lm.nodes.empty()) return (int)rng.below((uint32_t)m.lm.nodes.size());
		return -1;
	}
	void doAddListener(int q) {
		QM & m = qm[q];
		if(m.lm.nodes.size() > 150) return;
		const int k = (int)rng.below(NKEYS);
		const int cbid = nextCb++;
		TCallback cb(cbid);
		const uint32_t w = rng.below(3);
		int before = -1;
		Handle h;
		if(w == 0) h = Qat(q).appendListener(Cfg::key(k), cb);
		else if(w == 1) h = Qat(q).prependListener(Cfg::key(k), cb);
		else {
			before = pickListener(q, k);
			if(before >= 0 && m.lm.isLive(before) && m.lm.nodes[before].key != k) before = -1; // foreign live handle: precondition
			h = Qat(q).insertListener(Cfg::key(k), cb, before >= 0 ? m.rh[before] : Handle());
		}
		const int uid = m.lm.add(k, cbid, (int)w, before);
		m.rh.resize(m.lm.nodes.size());
		m.rh[uid] = h;
		log(std::string(w == 0 ? "appendListener" : w == 1 ? "prependListener" : "insertListener") + " Q" + num(q) + " k" + num(k) + " cb" + num(cbid) + (w == 2 ? " before u" + num(before) : std::string()) + " -> u" + num(uid));
		count("op.addListener");
	}
	void doRemoveListener(int q) {
		QM & m = qm[q];
		const int k = (int)rng.below(NKEYS);
		int uid = pickListener(q, k);
		if(uid < 0) return;
		const int kk = m.lm.nodes[uid].key; // always use the node's own key (removing through another event is a precondition violation)
		const bool want = m.lm.remove(uid);
		const bool got = Qat(q).removeListener(Cfg::key(kk), m.rh[uid]);
		log("removeListener Q" + num(q) + " k" + num(kk) + " u" + num(uid) + " -> " + num(got));
		count("op.removeListener");
		if(got != want) fail("removeListener:result", "removeListener returned " + num(got) + ", model says " + num(want));
	}

	// ---------- C10: copy / move of whole queues (top level only)
	struct Harvest { World * w; int q; int k; size_t i; bool bad;
		void operator() (const Handle & h, const typename Q::Callback & cb) {
			QM & m = w->qm[q];
			const std::vector<int> & o = m.lm.listOf(k);
			if(i >= o.size() || m.lm.nodes[o[i]].cbid != cbIdOf(cb)) { bad = true; ++i; return; }
			m.rh[o[i]] = h; ++i;
		}
	};
	void harvest(int q, const char * opname) {
		QM & m = qm[q];
		m.rh.assign(m.lm.nodes.size(), Handle());
		for(int k = 0; k < NKEYS; ++k) {
			Harvest hv; hv.w = this; hv.q = q; hv.k = k; hv.i = 0; hv.bad = false;
			Qat(q).forEach(Cfg::key(k), std::ref(hv));
			if(hv.bad || hv.i != m.lm.listOf(k).size()) { fail(std::string(opname) + ":listeners", std::string(opname) + ": resulting queue does not hold the expected listeners in order for key " + num(k)); return; }
		}
	}
	void dropPending(int q, int state) {
		QM & m = qm[q];
		std::vector<int> gone(m.pending.begin(), m.pending.end());
		m.pending.clear();
		for(size_t i = 0; i < gone.size(); ++i) evs[gone[i]].state = state;
		if(! gone.empty()) count("queues_destroyed_with_pending_events");
	}
	void checkReleased(int q, const std::vector<int> & eids, const char * what) {
		(void)q;
		for(size_t i = 0; i < eids.size() && ! dead; ++i)
			if(ledger().liveOf(K_PAYLOAD, eids[i]) != 0) fail(std::string(what) + ":payload-not-released", "payload of " + evStr(eids[i]) + " still alive after " + what);
	}
	void recreate(int q, unsigned pat) {
		dropDqns(q);
		std::vector<int> gone(qm[q].pending.begin(), qm[q].pending.end());
		dropPending(q, ES_DESTROYED);
		destroyQ(q);
		checkReleased(q, gone, "queue-destruction");
		qm[q].lm = ListModel(); // forget the old uids: after a move they name nodes that now live in another queue
		qm[q].rh.clear();
		prefill(q, pat);
		new (slots[q].buf) Q();
		alive[q] = true;
	}
	// a freshly obtained queue must behave like a new one with those listeners
	void functionalCheck(int q) {
		doEmpty(q); if(dead) return;
		doWaitFor0(q); if(dead) return;
		doEnqueue(q); if(dead) return;
		doEmpty(q); if(dead) return;
		doWaitFor0(q); if(dead) return;
		doProcess(q, rng.chance(1, 2) ? PK_PROCESS : PK_ONE); if(dead) return;
		doEmpty(q);
	}
	void doStructural() {
		if(nq < 2 || ! frames.empty()) return;
		const int a = (int)rng.below((uint32_t)nq);
		int b = (int)rng.below((uint32_t)nq);
		const uint32_t kind = rng.below(6);
		const unsigned pat = rng.below(5);
		if(kind != 1 && kind != 5 && a == b) b = (a + 1) % nq;
		static const char * names[] = { "copy_ctor", "copy_assign", "move_ctor", "move_assign", "recreate", "copy_assign" };
		const std::string what = std::string(names[kind]) + " Q" + num(a) + " <- Q" + num(b);
		count((std::string("structural.") + names[kind]).c_str());
		// the destination has no DisableQueueNotify objects of its own; in half of the operations the SOURCE keeps its live ones: they
		// belong to the source object only, the copy / the moved-to queue starts with notification enabled (its waitFor is checked below)
		dropDqns(a);
		if(a == b || ! rng.chance(1, 2)) dropDqns(b); else if(! dqns[b].empty()) count("structural.source_with_live_DisableQueueNotify");
		switch(kind) {
		case 0: { // copy construct over a
			std::vector<int> gone(qm[a].pending.begin(), qm[a].pending.end());
			dropPending(a, ES_DESTROYED);
			destroyQ(a);
			checkReleased(a, gone, "queue-destruction");
			prefill(a, pat);
			new (slots[a].buf) Q(Qat(b)); alive[a] = true;
			qm[a].lm.cloneFrom(qm[b].lm);
			log(what + " prefill=" + num(pat));
			harvest(a, "copy_ctor");
			if(! dead) functionalCheck(a);
			break; }
		case 1: case 5: // copy assign (also self); the statement says nothing about events pending in the destination: only generated when it has none
			if(! qm[a].pending.empty()) { Qat(a).clearEvents(); dropPending(a, ES_CLEARED); }
			Qat(a) = Qat(b);
			if(a != b) qm[a].lm.cloneFrom(qm[b].lm); else count("structural.self");
			log(what);
			harvest(a, "copy_assign");
			if(! dead) functionalCheck(a);
			break;
		case 2: { // move construct over a
			std::vector<int> gone(qm[a].pending.begin(), qm[a].pending.end());
			dropPending(a, ES_DESTROYED);
			destroyQ(a);
			checkReleased(a, gone, "queue-destruction");
			prefill(a, pat);
			new (slots[a].buf) Q(std::move(Qat(b))); alive[a] = true;
			qm[a].lm = qm[b].lm; qm[a].rh = qm[b].rh;
			log(what + " prefill=" + num(pat));
			// the source is only promised to be valid: destroy and re-create it at once to return to a known state
			recreate(b, rng.below(5));
			if(! dead) functionalCheck(a);
			break; }
		case 3: // move assign
			if(! qm[a].pending.empty()) { Qat(a).clearEvents(); dropPending(a, ES_CLEARED); }
			Qat(a) = std::move(Qat(b));
			qm[a].lm = qm[b].lm; qm[a].rh = qm[b].rh;
			log(what);
			recreate(b, rng.below(5));
			if(! dead) functionalCheck(a);
			break;
		default:
			recreate(a, pat);
			log("recreate Q" + num(a) + " prefill=" + num(pat));
			if(! dead) functionalCheck(a);
			break;
		}
	}

	// ---------- one generated step
	void step() {
		if(dead) return;
		const bool nested = ! frames.empty();
		int q = nested && rng.chance(4, 5) ? frames.back().q : (int)rng.below((uint32_t)nq);
		uint32_t c = rng.below(100 + (uint32_t)mode.wEmpty);
		if(c >= 100) { if(rng.chance(1, 2)) doEmpty(q); else doWaitFor0(q); return; }
		if(mode.structural && ! nested && c >= 92) { doStructural(); return; }
		const bool canNest = (int)frames.size() <= mode.maxDepth;
		if(c < 30) doEnqueue(q);
		else if(c < 38) { if(canNest) doProcess(q, PK_PROCESS); else doEmpty(q); }
		else if(c < 45) { if(canNest) doProcess(q, PK_ONE); else doEmpty(q); }
		else if(c < 53) { if(canNest) doProcess(q, PK_IF); else doEnqueue(q); }
		else if(c < 59) { if(canNest) doProcess(q, PK_UNTIL); else doEnqueue(q); }
		else if(c < 63) doPeek(q);
		else if(c < 69) doTake(q);
		else if(c < 71) doClear(q);
		else if(c < 75) doEmpty(q);
		else if(c < 76) { if(! nested) doDqn(q); else doEmpty(q); }
		else if(c < 78) doWaitFor0(q);
		else if(c < 88) doAddListener(q);
		else if(c < 94) doRemoveListener(q);
		else { if(canNest) doDirectDispatch(q); else doEmpty(q); }
	}

	// ---------- quiescent checks
	void quiescent() {
		if(dead) return;
		count("quiescent_checks");
		long wantPayloads = 0, wantCb = 0;
		for(int q = 0; q < nq; ++q) {
			QM & m = qm[q];
			Q & rq = Qat(q);
			wantPayloads += (long)m.pending.size();
			wantCb += (long)m.lm.liveCount();
			const size_t qs = Access::queueSize(rq);
			if(qs != m.pending.size()) { fail("structure:queue-length", "Q" + num(q) + " holds " + num((long long)qs) + " slots in its pending list, model says " + num((long long)m.pending.size())); return; }
			std::string err = Access::checkSlots(rq);
			if(! err.empty()) { fail("structure:" + err, "Q" + num(q) + ": " + err); return; }
			if(Access::emptyCounter(rq) != 0) { fail("structure:processing-counter-not-zero-at-quiescence", "Q" + num(q) + " counter=" + num(Access::emptyCounter(rq))); return; }
			if(Access::notifyCounter(rq) != m.disabled) { fail("structure:notify-counter-not-zero-at-quiescence", "Q" + num(q) + " counter=" + num(Access::notifyCounter(rq)) + ", DisableQueueNotify objects alive: " + num(m.disabled)); return; }
			countMax("max_free_slots", Access::freeSize(rq));
			countMax("max_pending", m.pending.size());
		}
		if(ledger().liveCount(K_PAYLOAD) != wantPayloads) {
			for(size_t e = 0; e < evs.size(); ++e) {
				const int want = evs[e].state == ES_PENDING ? 1 : 0;
				const int got = ledger().liveOf(K_PAYLOAD, (int)e);
				if(got != want) { fail(got > want ? "lifetime:payload-not-released" : "lifetime:payload-released-early", "payload of " + evStr((int)e) + ": " + num(got) + " live instance(s), model says " + num(want)); return; }
			}
			fail("lifetime:payload-count", "live payload instances " + num(ledger().liveCount(K_PAYLOAD)) + ", model says " + num(wantPayloads));
			return;
		}
		if(ledger().liveCount(K_CB) != wantCb) fail("lifetime:listener-count", "live listener callback instances " + num(ledger().liveCount(K_CB)) + ", model says " + num(wantCb));
	}

	void run(int nqWanted, int nops) {
		nq = nqWanted;
		for(int i = 0; i < nq; ++i) { prefill(i, rng.below(5)); new (slots[i].buf) Q(); alive[i] = true; }
		callbackSink() = this;
		// a few listeners to begin with
		for(int i = 0; i < 6; ++i) doAddListener((int)rng.below((uint32_t)nq));
		for(int i = 0; i < nops && ! dead; ++i) {
			budget = 30;
			step();
			if(! frames.empty() && ! dead) { fail("harness:frames-left", "frame stack not empty at top level"); break; }
			quiescent();
		}
		for(int q = 0; q < nq; ++q) dropDqns(q);
		// drain: everything still pending must come out exactly once, in order
		for(int q = 0; q < nq && ! dead; ++q) {
			if(rng.chance(1, 3)) continue; // leave events pending: destruction must release them
			for(int guard = 0; guard < 50 && ! dead && ! qm[q].pending.empty(); ++guard) { budget = 0; doProcess(q, PK_PROCESS); }
			if(! dead) { doEmpty(q); quiescent(); }
		}
		callbackSink() = nullptr;
		// destroy the queues; whatever was pending must be released
		if(! dead) {
			for(int q = 0; q < nq; ++q) { dropPending(q, ES_DESTROYED); destroyQ(q); qm[q].lm.clearAll(); }
			if(ledger().liveCount(K_PAYLOAD) != 0) violation("lifetime:payload-leaked-after-queue-destruction", num(ledger().liveCount(K_PAYLOAD)) + " payload instance(s) alive after the queues were destroyed");
			if(ledger().liveCount(K_CB) != 0) violation("lifetime:listener-leaked-after-queue-destruction", num(ledger().liveCount(K_CB)) + " listener instance(s) alive after the queues were destroyed");
		}
	}
};

// ------------------------------------------------------------------ case runner
static uint64_t gTraceXor = 0;

template <typename Cfg>
static uint64_t runCfg(const QMode & mode, Rng & rng, uint64_t caseNo, int cfgIndex)
{
	ledger().resetCase();
	const int nops = rng.range(mode.minOps, mode.maxOps);
	const int nq = mode.nq > 1 ? rng.range(2, mode.nq) : 1;
	uint64_t h;
	bool nontrivial;
	{
		World<Cfg> w(mode, rng);
		oplog("config " + num(cfgIndex) + ": " + Cfg::name() + " queues=" + num(nq) + " ops=" + num(nops));
		w.run(nq, nops);
		h = w.trace.h;
		nontrivial = w.sawProcess && (w.sawRequeue || w.sawNested);
		count("events_created", w.evs.size());
	}
	count("ops", (uint64_t)nops);
	count((std::string("config.") + num(cfgIndex)).c_str());
	Fnv f; f.addu(h); f.addu((uint64_t)cfgIndex);
	if(nontrivial) markNontrivial(f.h);
	gTraceXor ^= mix(h, caseNo);
	if(wantSample() && nontrivial) addSample("{\"case\":" + unum(caseNo) + ",\"history\":" + oplogJson(ctx().oplog, 70) + "}");
	return h;
}

template <bool Enabled, typename Cfg>
static typename std::enable_if<Enabled>::type runCfgIf(const QMode & mode, Rng & rng, uint64_t caseNo, int cfgIndex) { runCfg<Cfg>(mode, rng, caseNo, cfgIndex); }
template <bool Enabled, typename Cfg>
static typename std::enable_if<! Enabled>::type runCfgIf(const QMode &, Rng &, uint64_t, int) {}
static void skipCase() { --ctx().casesRun; }

enum { NCFG = 11 };
#ifndef VF_CFG_MASK
#define VF_CFG_MASK 0xf7f
#endif
// C20: the same program under a family that differs only in policies.  hasWait = 0 for every member so that the
// generated operations are the same (waitFor does not compile for the single-threaded and SpinLock policies).
#if (VF_CFG_MASK >> 7) & 1
template <typename Policies>
struct FamQ : QC9
{
	enum { hasWait = 0 };
	typedef eventpp::EventQueue<int, void(int, const TPayloadA16 &), Policies> Q;
	static const char * name() { return "EventQueue<int,void(int,const TPayloadA16&)> policy family member (argument type with alignof 16)"; }
	static void enqueue(Q & q, int k, int eid, int, uint32_t form) {
		if(form % 3 == 0) { TPayloadA16 p(eid); int kk = KI(k); q.enqueue(kk, p); }
		else if(form % 3 == 1) q.enqueue(KI(k), TPayloadA16(eid));
		else { const TPayloadA16 p(eid); const int kk = KI(k); q.enqueue(kk, p); }
	}
	static void dispatch(Q & q, int k, int eid, int) { TPayloadA16 p(eid); q.dispatch(KI(k), p); }
	static void queued(const typename Q::QueuedEvent & e, ArgPack & p) { if(e.event != std::get<0>(e.arguments)) p.push(-99); p.push(std::get<0>(e.arguments)); p.push(fpOf(std::get<1>(e.arguments))); }
};
template <typename K, typename V> using FPlainMap = std::map<K, V>;
struct FPolMapCb { template <typename K, typename V> using Map = FPlainMap<K, V>; typedef TCallback Callback; };
struct FPolInclude { typedef eventpp::ArgumentPassingIncludeEvent ArgumentPassingMode; typedef eventpp::SingleThreading Threading; };
static void runFamily(const QMode & mode, uint64_t caseNo)
{
	const uint64_t seed = ctx().curSeed;
	uint64_t h[5];
	{ Rng r(seed); h[0] = runCfg<FamQ<eventpp::DefaultPolicies> >(mode, r, caseNo, 100); }
	{ Rng r(seed); h[1] = runCfg<FamQ<PolSingle> >(mode, r, caseNo, 101); }
	{ Rng r(seed); h[2] = runCfg<FamQ<PolSpin> >(mode, r, caseNo, 102); }
	{ Rng r(seed); h[3] = runCfg<FamQ<FPolMapCb> >(mode, r, caseNo, 103); }
	{ Rng r(seed); h[4] = runCfg<FamQ<FPolInclude> >(mode, r, caseNo, 104); }
	static const char * names[] = { "default(std::mutex,unordered_map,std::function,auto-detect)", "SingleThreading", "SpinLock", "std::map+custom callback", "IncludeEvent+SingleThreading" };
	for(int i = 1; i < 5 && ! caseHasViolation(); ++i)
		if(h[i] != h[0]) violation(std::string("c20:trace-differs-between-policies:") + names[i], std::string("the same generated program produced a different observable trace under ") + names[i] + " than under " + names[0]);
	count("family_programs");
	count("family_runs", 5);
}
#else
static void runFamily(const QMode &, uint64_t) { --ctx().casesRun; }
#endif

static void runCase(uint64_t caseNo, Rng & rng)
{
	static QMode mode = qmodeOf(ctx().mode);
	if(ctx().mode == "c20") { runFamily(mode, caseNo); return; }
	long long only = ctx().optInt("cfg", -1);
	int cfg;
	if(only >= 0) cfg = (int)only;
	else if(ctx().mode == "c13") { static const int oc[] = { 3, 4, 10 }; cfg = oc[caseNo % 3]; }
	else cfg = (int)(caseNo % NCFG);
#define VF_CFG(n) case n: if((VF_CFG_MASK >> n) & 1) { runCfgIf<((VF_CFG_MASK >> n) & 1) != 0, QC##n>(mode, rng, caseNo, n); } else { skipCase(); } break;
	switch(cfg) {
	VF_CFG(0) VF_CFG(1) VF_CFG(2) VF_CFG(3) VF_CFG(4) VF_CFG(5) VF_CFG(6)
	case 7: if((VF_CFG_MASK >> 8) & 1) { runCfgIf<((VF_CFG_MASK >> 8) & 1) != 0, QC7>(mode, rng, caseNo, 7); } else { skipCase(); } break; // bit 7 is the C20 family
	case 8: if((VF_CFG_MASK >> 9) & 1) { runCfgIf<((VF_CFG_MASK >> 9) & 1) != 0, QC8>(mode, rng, caseNo, 8); } else { skipCase(); } break;
	case 10: if((VF_CFG_MASK >> 11) & 1) { runCfgIf<((VF_CFG_MASK >> 11) & 1) != 0, QC10>(mode, rng, caseNo, 10); } else { skipCase(); } break;
	case 9: if((VF_CFG_MASK >> 10) & 1) { runCfgIf<((VF_CFG_MASK >> 10) & 1) != 0, QC9>(mode, rng, caseNo, 9); } else { skipCase(); } break;
	default: skipCase(); break;
	}
}

int main(int argc, char ** argv)
{
	return runMain(argc, argv, runCase, []() {
		ctx().counters["trace_xor_lo"] = gTraceXor & 0xffffffffu;
		ctx().counters["trace_xor_hi"] = gTraceXor >> 32;
		ctx().counters["payload.constructed"] = (uint64_t)ledger().constructed[K_PAYLOAD].load();
		ctx().counters["payload.copied"] = (uint64_t)ledger().copied[K_PAYLOAD].load();
		ctx().counters["payload.moved"] = (uint64_t)ledger().moved[K_PAYLOAD].load();
		ctx().counters["payload.destroyed"] = (uint64_t)ledger().destroyed[K_PAYLOAD].load();
	});
}
