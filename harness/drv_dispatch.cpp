// drv_dispatch.cpp - online monitor of EventDispatcher against M-disp (DESIGN §4, C04).  C++11.
// Configurations = (Key type, Prototype, ArgumentPassing, getEvent, Map, Threading, Callback); dispatches in both
// argument-passing forms with lvalue / const lvalue / temporary arguments; listener changes per key; nested
// operations from inside listeners; copy/move/swap of whole dispatchers (C10 part).
// modes: c04 (default), c10 (structural heavy)
#include "vcommon.h"
#include "vledger.h"
#include "vaccess.h"
#include "model_list.h"

#include <eventpp/eventdispatcher.h>

using namespace vf;
typedef eventpp_verif::Access Access;

// ------------------------------------------------------------------ key types
static const char * kKeyText[] = { "evt", "Evt", "evt ", "evtx-a-much-longer-key-that-does-not-fit-the-small-string-buffer", "" };
enum { NKEYS = 5 };
static std::string KS(int k) { return kKeyText[k]; }
static int KI(int k) { static const int v[] = { 0, -1, 7, 1 << 30, 8 }; return v[k]; }

enum class Color { red = 3, green = 300, blue = -5, white = 0, black = 70000 };
static Color KC(int k) { static const Color v[] = { Color::red, Color::green, Color::blue, Color::white, Color::black }; return v[k]; }
inline long long fpOf(Color c) { return (long long)(int)c; }

// only operator< : goes to std::map
struct OrdKey
{
	Counted<K_KEY> c;
	std::string s;
	OrdKey() : c(-1) {}
	explicit OrdKey(int k) : c(k), s(KS(k)) {}
	OrdKey(const OrdKey & o) : c((faultPoint(F_KEY_COPY), o.c)), s(o.s) {}
	OrdKey(OrdKey && o) : c(std::move(o.c)), s(std::move(o.s)) {}
	OrdKey & operator = (const OrdKey & o) { faultPoint(F_KEY_COPY); c = o.c; s = o.s; return *this; }
	OrdKey & operator = (OrdKey && o) { c = std::move(o.c); s = std::move(o.s); return *this; }
	friend bool operator < (const OrdKey & a, const OrdKey & b) { faultPoint(F_KEY_CMP); return a.s < b.s; }
};
inline long long fpOf(const OrdKey & k) { return k.c.movedFrom ? -4000000 : fpOf(k.s); }

// hash + == : goes to std::unordered_map
struct HashKey
{
	Counted<K_KEY> c;
	std::string s;
	HashKey() : c(-1) {}
	explicit HashKey(int k) : c(k), s(KS(k)) {}
	HashKey(const HashKey & o) : c((faultPoint(F_KEY_COPY), o.c)), s(o.s) {}
	HashKey(HashKey && o) : c(std::move(o.c)), s(std::move(o.s)) {}
	HashKey & operator = (const HashKey & o) { faultPoint(F_KEY_COPY); c = o.c; s = o.s; return *this; }
	HashKey & operator = (HashKey && o) { c = std::move(o.c); s = std::move(o.s); return *this; }
	friend bool operator == (const HashKey & a, const HashKey & b) { faultPoint(F_KEY_CMP); return a.s == b.s; }
};
namespace std { template <> struct hash<HashKey> { size_t operator() (const HashKey & k) const { vf::faultPoint(vf::F_KEY_HASH); return std::hash<std::string>()(k.s) & 3; } }; } // few buckets: collisions
inline long long fpOf(const HashKey & k) { return k.c.movedFrom ? -4000000 : fpOf(k.s); }

struct EvObj
{
	int type;
	TPayload p;
	int val;
	EvObj(int t, int eid, int v) : type(t), p(eid), val(v) {}
};
static long long evObjFp(long long type, long long eid, long long val) { return type * 1000003LL + eid * 1009LL + val; }
inline long long fpOf(const EvObj & e) { return evObjFp(e.type, e.p.observe(), e.val); }

// an event object whose key is a movable member, passed BY VALUE
struct EvMov
{
	std::string name;
	TPayload p;
	EvMov(const std::string & n, int eid) : name(n), p(eid) {}
};
inline long long fpOf(const EvMov & e) { return fpOf(e.name) * 31 + e.p.observe(); }

// ------------------------------------------------------------------ policies
struct PolSingle { typedef eventpp::SingleThreading Threading; };
struct PolSpinCustomCb { typedef eventpp::GeneralThreading<eventpp::SpinLock> Threading; typedef TCallback Callback; };
struct PolExclude { typedef eventpp::ArgumentPassingExcludeEvent ArgumentPassingMode; };
struct PolInclude { typedef eventpp::ArgumentPassingIncludeEvent ArgumentPassingMode; };
struct PolGetEventObj { static int getEvent(const EvObj & e) { return e.type; } typedef eventpp::ArgumentPassingIncludeEvent ArgumentPassingMode; };
struct PolGetEventMov { static std::string getEvent(const EvMov & e) { return e.name; } };
template <typename K, typename V> using GreaterMap = std::map<K, V, std::greater<K> >;
struct PolUserMap { template <typename K, typename V> using Map = GreaterMap<K, V>; typedef eventpp::SingleThreading Threading; };

// ------------------------------------------------------------------ configurations
// form: 0 lvalues, 1 const lvalues, 2 temporaries
struct DC0
{
	typedef eventpp::EventDispatcher<int, void(int, const TPayload &)> D;
	static const char * name() { return "ED<int,void(int,const TPayload&)> default"; }
	static int key(int k) { return KI(k); }
	static void dispatch(D & d, int k, int eid, int, uint32_t form) {
		if(form == 0) { int kk = KI(k); TPayload p(eid); d.dispatch(kk, p); }
		else if(form == 1) { const int kk = KI(k); const TPayload p(eid); d.dispatch(kk, p); }
		else d.dispatch(KI(k), TPayload(eid));
	}
	static void expect(ArgPack & p, int k, int eid, int) { p.push(KI(k)); p.push(eid); }
};
struct DC1
{
	typedef eventpp::EventDispatcher<std::string, void(std::string, TPayload)> D;
	static const char * name() { return "ED<std::string,void(std::string,TPayload)> by-value movable key, include-event form"; }
	static std::string key(int k) { return KS(k); }
	static void dispatch(D & d, int k, int eid, int, uint32_t form) {
		if(form == 0) { std::string kk = KS(k); TPayload p(eid); d.dispatch(kk, p); }
		else if(form == 1) { const std::string kk = KS(k); const TPayload p(eid); d.dispatch(kk, p); }
		else d.dispatch(KS(k), TPayload(eid));
	}
	static void expect(ArgPack & p, int k, int eid, int) { p.push(fpOf(KS(k))); p.push(eid); }
};
struct DC2
{
	typedef eventpp::EventDispatcher<std::string, void(const std::string &, const TPayload &, int), PolSingle> D;
	static const char * name() { return "ED<std::string,void(const std::string&,const TPayload&,int)> SingleThreading"; }
	static std::string key(int k) { return KS(k); }
	static void dispatch(D & d, int k, int eid, int val, uint32_t form) {
		if(form == 0) { std::string kk = KS(k); TPayload p(eid); int v = val; d.dispatch(kk, p, v); }
		else if(form == 1) { const std::string kk = KS(k); const TPayload p(eid); const int v = val; d.dispatch(kk, p, v); }
		else d.dispatch(KS(k), TPayload(eid), int(val));
	}
	static void expect(ArgPack & p, int k, int eid, int val) { p.push(fpOf(KS(k))); p.push(eid); p.push(val); }
};
struct DC3
{
	typedef eventpp::EventDispatcher<Color, void(Color, int)> D;
	static const char * name() { return "ED<enum class,void(enum,int)>"; }
	static Color key(int k) { return KC(k); }
	static void dispatch(D & d, int k, int, int val, uint32_t form) {
		if(form == 0) { Color c = KC(k); int v = val; d.dispatch(c, v); }
		else if(form == 1) { const Color c = KC(k); const int v = val; d.dispatch(c, v); }
		else d.dispatch(KC(k), int(val));
	}
	static void expect(ArgPack & p, int k, int, int val) { p.push(fpOf(KC(k))); p.push(val); }
};
struct DC4
{
	typedef eventpp::EventDispatcher<OrdKey, void(const OrdKey &, TPayload)> D;
	static const char * name() { return "ED<OrdKey(only <),void(const OrdKey&,TPayload)> std::map"; }
	static OrdKey key(int k) { return OrdKey(k); }
	static void dispatch(D & d, int k, int eid, int, uint32_t form) {
		if(form == 0) { OrdKey kk(k); TPayload p(eid); d.dispatch(kk, p); }
		else if(form == 1) { const OrdKey kk(k); const TPayload p(eid); d.dispatch(kk, p); }
		else d.dispatch(OrdKey(k), TPayload(eid));
	}
	static void expect(ArgPack & p, int k, int eid, int) { p.push(fpOf(KS(k))); p.push(eid); }
};
struct DC5
{
	typedef eventpp::EventDispatcher<HashKey, void(HashKey, int)> D;
	static const char * name() { return "ED<HashKey(hash,==),void(HashKey,int)> unordered_map, by-value movable key"; }
	static HashKey key(int k) { return HashKey(k); }
	static void dispatch(D & d, int k, int, int val, uint32_t form) {
		if(form == 0) { HashKey kk(k); int v = val; d.dispatch(kk, v); }
		else if(form == 1) { const HashKey kk(k); const int v = val; d.dispatch(kk, v); }
		else d.dispatch(HashKey(k), int(val));
	}
	static void expect(ArgPack & p, int k, int, int val) { p.push(fpOf(KS(k))); p.push(val); }
};
struct DC6
{
	typedef eventpp::EventDispatcher<int, void(const TPayload &, int), PolExclude> D;
	static const char * name() { return "ED<int,void(const TPayload&,int)> ArgumentPassingExcludeEvent"; }
	static int key(int k) { return KI(k); }
	static void dispatch(D & d, int k, int eid, int val, uint32_t form) {
		if(form == 0) { int kk = KI(k); TPayload p(eid); int v = val; d.dispatch(kk, p, v); }
		else if(form == 1) { const int kk = KI(k); const TPayload p(eid); const int v = val; d.dispatch(kk, p, v); }
		else d.dispatch(KI(k), TPayload(eid), int(val));
	}
	static void expect(ArgPack & p, int, int eid, int val) { p.push(eid); p.push(val); }
};
struct DC7
{
	typedef eventpp::EventDispatcher<std::string, void(TPayload)> D; // auto-detect, called in the exclude-event form
	static const char * name() { return "ED<std::string,void(TPayload)> auto-detect, exclude-event call, by-value payload"; }
	static std::string key(int k) { return KS(k); }
	static void dispatch(D & d, int k, int eid, int, uint32_t form) {
		if(form == 0) { std::string kk = KS(k); TPayload p(eid); d.dispatch(kk, p); }
		else if(form == 1) { const std::string kk = KS(k); const TPayload p(eid); d.dispatch(kk, p); }
		else d.dispatch(KS(k), TPayload(eid));
	}
	static void expect(ArgPack & p, int, int eid, int) { p.push(eid); }
};
struct DC8
{
	typedef eventpp::EventDispatcher<int, void(const EvObj &), PolGetEventObj> D;
	static const char * name() { return "ED<int,void(const EvObj&)> getEvent reads a field, IncludeEvent"; }
	static int key(int k) { return KI(k); }
	static void dispatch(D & d, int k, int eid, int val, uint32_t form) {
		if(form == 0) { EvObj e(KI(k), eid, val); d.dispatch(e); }
		else if(form == 1) { const EvObj e(KI(k), eid, val); d.dispatch(e); }
		else d.dispatch(EvObj(KI(k), eid, val));
	}
	static void expect(ArgPack & p, int k, int eid, int val) { p.push(evObjFp(KI(k), eid, val)); }
};
struct DC9
{
	typedef eventpp::EventDispatcher<std::string, void(EvMov), PolGetEventMov> D;
	static const char * name() { return "ED<std::string,void(EvMov)> getEvent reads a by-value movable argument"; }
	static std::string key(int k) { return KS(k); }
	static void dispatch(D & d, int k, int eid, int, uint32_t form) {
		if(form == 0) { EvMov e(KS(k), eid); d.dispatch(e); }
		else if(form == 1) { const EvMov e(KS(k), eid); d.dispatch(e); }
		else d.dispatch(EvMov(KS(k), eid));
	}
	static void expect(ArgPack & p, int k, int eid, int) { p.push(fpOf(KS(k)) * 31 + eid); }
};
struct DC10
{
	typedef eventpp::EventDispatcher<int, void(int, TPayload &), PolUserMap> D;
	static const char * name() { return "ED<int,void(int,TPayload&)> user map (std::greater), SingleThreading, non-const reference"; }
	static int key(int k) { return KI(k); }
	static void dispatch(D & d, int k, int eid, int, uint32_t form) {
		TPayload p(eid);
		if(form == 0) { int kk = KI(k); d.dispatch(kk, p); }
		else if(form == 1) { const int kk = KI(k); d.dispatch(kk, p); }
		else d.dispatch(KI(k), p);
	}
	static void expect(ArgPack & p, int k, int eid, int) { p.push(KI(k)); p.push(eid); }
};
struct DC11
{
	typedef eventpp::EventDispatcher<std::string, void(std::string, int), PolSpinCustomCb> D;
	static const char * name() { return "ED<std::string,void(std::string,int)> SpinLock, custom Callback type"; }
	static std::string key(int k) { return KS(k); }
	static void dispatch(D & d, int k, int, int val, uint32_t form) {
		if(form == 0) { std::string kk = KS(k); int v = val; d.dispatch(kk, v); }
		else if(form == 1) { const std::string kk = KS(k); const int v = val; d.dispatch(kk, v); }
		else d.dispatch(KS(k), int(val));
	}
	static void expect(ArgPack & p, int k, int, int val) { p.push(fpOf(KS(k))); p.push(val); }
};

// exclude-event form with a getEvent policy that is NOT the identity on the first argument
struct PolGetEventMask { static int getEvent(int id, const TPayload &, int) { return id & 0xff; } typedef eventpp::ArgumentPassingExcludeEvent ArgumentPassingMode; };
static int KM(int k) { return 1 + k * 3; }
struct DC12
{
	typedef eventpp::EventDispatcher<int, void(const TPayload &, int), PolGetEventMask> D;
	static const char * name() { return "ED<int,void(const TPayload&,int)> exclude-event form, getEvent policy masks the id"; }
	static int key(int k) { return KM(k); }
	static void dispatch(D & d, int k, int eid, int val, uint32_t form) {
		const int raw = KM(k) | ((1 + (eid % 3)) << 8); // the policy must strip the upper bits
		if(form == 0) { int kk = raw; TPayload p(eid); int v = val; d.dispatch(kk, p, v); }
		else if(form == 1) { const int kk = raw; const TPayload p(eid); const int v = val; d.dispatch(kk, p, v); }
		else d.dispatch(int(raw), TPayload(eid), int(val));
	}
	static void expect(ArgPack & p, int, int eid, int val) { p.push(eid); p.push(val); }
};
// getEvent policy that takes its argument BY VALUE (a library that forwards into getEvent would let it consume the argument)
struct PolGetEventMovByValue { static std::string getEvent(EvMov e) { return e.name; } };
struct DC13
{
	typedef eventpp::EventDispatcher<std::string, void(EvMov), PolGetEventMovByValue> D;
	static const char * name() { return "ED<std::string,void(EvMov)> getEvent takes the by-value movable argument by value"; }
	static std::string key(int k) { return KS(k); }
	static void dispatch(D & d, int k, int eid, int, uint32_t form) {
		if(form == 0) { EvMov e(KS(k), eid); d.dispatch(e); }
		else if(form == 1) { const EvMov e(KS(k), eid); d.dispatch(e); }
		else d.dispatch(EvMov(KS(k), eid));
	}
	static void expect(ArgPack & p, int k, int eid, int) { p.push(fpOf(KS(k)) * 31 + eid); }
};

// exclude-event form, getEvent policy takes a by-value prototype argument BY VALUE (forwarding into it would consume the listeners' argument)
struct PolGetEventByValueExcl { static int getEvent(int id, TPayload, int) { return id; } typedef eventpp::ArgumentPassingExcludeEvent ArgumentPassingMode; };
struct DC14
{
	typedef eventpp::EventDispatcher<int, void(TPayload, int), PolGetEventByValueExcl> D;
	static const char * name() { return "ED<int,void(TPayload,int)> exclude-event form, getEvent takes the by-value payload by value"; }
	static int key(int k) { return KI(k); }
	static void dispatch(D & d, int k, int eid, int val, uint32_t form) {
		if(form == 0) { int kk = KI(k); TPayload p(eid); int v = val; d.dispatch(kk, p, v); }
		else if(form == 1) { const int kk = KI(k); const TPayload p(eid); const int v = val; d.dispatch(kk, p, v); }
		else d.dispatch(KI(k), TPayload(eid), int(val));
	}
	static void expect(ArgPack & p, int, int eid, int val) { p.push(eid); p.push(val); }
};

// exclude-event form, the getEvent policy derives the event from a LATER argument - one the prototype takes by value and that
// is movable: the event must be obtained before that argument is handed on (g++ evaluates call arguments right to left)
// (the first argument is a string too, so that a library that fails to find this policy and falls back to "the event is the first
// argument" still compiles and shows its mistake at run time)
struct PolGetEventLaterMov { static std::string getEvent(const std::string &, const EvMov & e, int) { return e.name; } typedef eventpp::ArgumentPassingExcludeEvent ArgumentPassingMode; };
struct DC16
{
	typedef eventpp::EventDispatcher<std::string, void(EvMov, int), PolGetEventLaterMov> D;
	static const char * name() { return "ED<std::string,void(EvMov,int)> exclude-event form, getEvent reads the by-value movable SECOND argument"; }
	static std::string key(int k) { return KS(k); }
	static void dispatch(D & d, int k, int eid, int val, uint32_t form) {
		if(form == 0) { std::string token("not-the-event"); EvMov e(KS(k), eid); int v = val; d.dispatch(token, e, v); }
		else if(form == 1) { const std::string token("not-the-event"); const EvMov e(KS(k), eid); const int v = val; d.dispatch(token, e, v); }
		else d.dispatch(std::string("not-the-event"), EvMov(KS(k), eid), int(val));
	}
	static void expect(ArgPack & p, int k, int eid, int val) { p.push(fpOf(KS(k)) * 31 + eid); p.push(val); }
};

// custom mixins (not the forwarding template eventpp::MixinFilter): ordinary member functions, one takes the by-value prototype
// arguments BY VALUE (must not consume what the listeners get), one takes them by non-const reference and changes one (must be
// called exactly once per dispatch, and the listeners must see the change)
static int gMixV[20200], gMixR[20200];
// each mixin has data members of its own (a mixin is a layer of the dispatcher object: it must be called on ITS layer)
template <typename Base> struct MixinByValue : Base {
	uint64_t magicV; mutable uint64_t callsV;
	MixinByValue() : magicV(0x1111aaaa2222bbbbULL), callsV(0) {}
	bool mixinBeforeDispatch(int, TPayload p, int) const {
		if(magicV != 0x1111aaaa2222bbbbULL) violation("dispatch:mixin-called-on-a-foreign-layer-of-the-object", "the by-value mixin does not find its own data member where its this pointer says");
		++callsV;
		const long long e = p.observe(); if(e >= 0 && e < 20200) ++gMixV[e]; return true;
	}
};
template <typename Base> struct MixinByRef : Base {
	uint64_t magicR; mutable uint64_t callsR;
	MixinByRef() : magicR(0x3333cccc4444ddddULL), callsR(0) {}
	bool mixinBeforeDispatch(int &, TPayload & p, int & v) const {
		if(magicR != 0x3333cccc4444ddddULL) violation("dispatch:mixin-called-on-a-foreign-layer-of-the-object", "the by-reference mixin does not find its own data member where its this pointer says");
		++callsR;
		const long long e = p.observe(); if(e >= 0 && e < 20200) ++gMixR[e]; v += 1000000; return true;
	}
};
struct PolCustomMixins { typedef eventpp::MixinList<MixinByValue, MixinByRef> Mixins; };
struct DC15
{
	typedef eventpp::EventDispatcher<int, void(int, TPayload, int), PolCustomMixins> D;
	static const char * name() { return "ED<int,void(int,TPayload,int)> two custom mixins: by-value parameters, by-reference parameters (changes the int)"; }
	static int key(int k) { return KI(k); }
	static void dispatch(D & d, int k, int eid, int val, uint32_t form) {
		gMixV[eid] = 0; gMixR[eid] = 0;
		const uint64_t cv0 = d.callsV, cr0 = d.callsR;
		if(form == 0) { int kk = KI(k); TPayload p(eid); int v = val; d.dispatch(kk, p, v); }
		else if(form == 1) { const int kk = KI(k); const TPayload p(eid); const int v = val; d.dispatch(kk, p, v); }
		else d.dispatch(KI(k), TPayload(eid), int(val));
		if(gMixV[eid] != 1) violation("dispatch:mixin-with-by-value-parameters:calls", "mixinBeforeDispatch(int, TPayload, int) was called " + num(gMixV[eid]) + " times with the dispatched payload by one dispatch");
		if(d.callsV == cv0 || d.callsR == cr0) violation("dispatch:mixin-state-not-updated-in-the-dispatcher-object", "a dispatch left the call counter member of a mixin of this dispatcher unchanged");
		if(gMixR[eid] != 1) violation("dispatch:mixin-with-reference-parameters:calls", "mixinBeforeDispatch(int &, TPayload &, int &) was called " + num(gMixR[eid]) + " times with the dispatched payload by one dispatch");
	}
	static void expect(ArgPack & p, int k, int eid, int val) { p.push(KI(k)); p.push(eid); p.push(val + 1000000); }
};

// ------------------------------------------------------------------ world
struct DMode { int pAct, maxDepth, minOps, maxOps; bool structural; int nd; };
static DMode dmodeOf(const std::string & m)
{
	DMode r; r.pAct = 30; r.maxDepth = 2; r.minOps = 30; r.maxOps = 120; r.structural = false; r.nd = 1;
	if(m == "c10" || m == "c20") { r.structural = true; r.nd = 3; r.pAct = 15; }
	return r;
}
static const unsigned char kPrefill[4] = { 0x00, 0xFF, 0xA5, 0x5C };

struct DFrame { int d; int k; int eid; int val; ListFrame lf; };

template <typename Cfg>
struct World : CallbackSink
{
	typedef typename Cfg::D D;
	typedef typename D::Handle Handle;
	enum { MAXD = 3 };
	struct alignas(16) Slot { unsigned char buf[sizeof(D)]; };
	Slot slots[MAXD];
	bool alive[MAXD];
	struct DM { ListModel lm; std::vector<Handle> rh; };
	DM dm[MAXD];
	int nd;
	DMode mode;
	Rng & rng;
	std::vector<DFrame> frames;
	int nextCb, nextEid, budget;
	Fnv trace;
	bool dead, sawRemove, sawDispatchWithListeners;

	World(const DMode & m, Rng & r) : nd(1), mode(m), rng(r), nextCb(0), nextEid(0), budget(0), dead(false), sawRemove(false), sawDispatchWithListeners(false) {
		for(int i = 0; i < MAXD; ++i) alive[i] = false;
		frames.reserve(16);
	}
	~World() { for(int i = 0; i < MAXD; ++i) destroyD(i); }
	D & Dat(int i) { return *reinterpret_cast<D *>(slots[i].buf); }
	void prefill(int i, unsigned pat) {
		static const bool noPrefill = ctx().optInt("noprefill", 0) != 0; // memcheck runs: leave the storage undefined
		if(noPrefill) { if(pat >= 4) rng.next(); return; }
		if(pat < 4) memset(slots[i].buf, kPrefill[pat], sizeof(D));
		else { Rng fill(rng.next()); for(size_t k = 0; k < sizeof(D); ++k) slots[i].buf[k] = (unsigned char)fill.below(256); } // one draw: the object size must not influence the program
	}
	void destroyD(int i) { if(alive[i]) { Dat(i).~D(); alive[i] = false; } }

	std::string pre() const { return "[" + num((long long)frames.size()) + "] "; }
	void log(const std::string & s) { oplog(pre() + s); trace.add(s); }
	void fail(const std::string & key, const std::string & desc) { violation(key, desc); oplog(pre() + "!! " + key + " :: " + desc); dead = true; }

	void onCall(int cbid, const ArgPack & args, MutInts &) override {
		if(dead) return;
		if(frames.empty()) { fail("listener-called-outside-any-dispatch", "cb" + num(cbid) + args.str()); return; }
		DFrame & f = frames.back();
		ListModel & lm = dm[f.d].lm;
		const int uid = lm.peekNext(f.lf);
		if(uid < 0 || lm.nodes[uid].cbid != cbid) {
			fail("dispatch:" + lm.classify(f.lf, cbid), "cb" + num(cbid) + " called by dispatch of key k" + num(f.k) + "; model expected " + (uid >= 0 ? "cb" + num(lm.nodes[uid].cbid) : std::string("no further listener")));
			return;
		}
		ArgPack want; Cfg::expect(want, f.k, f.eid, f.val);
		bool same = want.n == args.n;
		for(int i = 0; same && i < want.n; ++i) same = want.fp[i] == args.fp[i];
		if(! same) { fail("dispatch:arguments", "cb" + num(cbid) + " received " + args.str() + ", the caller supplied " + want.str()); return; }
		lm.consume(f.lf);
		log("call cb" + num(cbid) + args.str());
		count("listener_calls");
		if(mode.pAct == 0 || (int)frames.size() > mode.maxDepth || budget <= 0) return;
		if(! rng.chance((uint32_t)mode.pAct, 100)) return;
		int n = 1 + (int)rng.below(3);
		for(int i = 0; i < n && budget > 0 && ! dead; ++i) { --budget; count("nested_actions"); step(); }
	}

	void doDispatch(int d) {
		DFrame f; f.d = d; f.k = (int)rng.below(NKEYS); f.eid = 100 + (nextEid++ % 20000); f.val = (int)rng.below(100000);
		f.lf = dm[d].lm.begin(f.k);
		const uint32_t form = rng.below(3);
		log("dispatch D" + num(d) + " k" + num(f.k) + " eid=" + num(f.eid) + " val=" + num(f.val) + (form == 0 ? " lvalues" : form == 1 ? " const-lvalues" : " temporaries") + " listeners=" + num((long long)f.lf.snap.size()));
		count(form == 0 ? "dispatch.lvalue" : form == 1 ? "dispatch.const_lvalue" : "dispatch.temporary");
		if(f.lf.snap.size() >= 2) { sawDispatchWithListeners = true; count("dispatch.with_2plus_listeners"); }
		const int k = f.k, eid = f.eid, val = f.val;
		frames.push_back(f);
		countMax("max_depth", frames.size());
		Cfg::dispatch(Dat(d), k, eid, val, form);
		if(! dead) {
			DFrame & g = frames.back();
			const int uid = dm[d].lm.peekNext(g.lf);
			if(uid >= 0) fail("dispatch:listener-not-called", "dispatch of k" + num(k) + " returned without calling cb" + num(dm[d].lm.nodes[uid].cbid));
		}
		frames.pop_back();
		if(! dead && ledger().liveOf(K_PAYLOAD, eid) != 0 && frames.empty()) fail("dispatch:payload-kept", "a copy of the dispatched payload is still alive after dispatch returned");
		log("dispatch done");
	}

	int pickListener(int d, int k) {
		DM & m = dm[d];
		const std::vector<int> & o = m.lm.listOf(k);
		uint32_t c = rng.below(10);
		if(c < 6 && ! o.empty()) return o[rng.below((uint32_t)o.size())];
		if(c < 8 && ! frames.empty() && frames.back().d == d && frames.back().lf.curUid >= 0) return frames.back().lf.curUid;
		if(c < 9 && ! m.lm.nodes.empty()) return (int)rng.below((uint32_t)m.lm.nodes.size());
		return -1;
	}
	void doAdd(int d) {
		DM & m = dm[d];
		if(m.lm.nodes.size() > 120) return;
		const int k = (int)rng.below(NKEYS);
		const int cbid = nextCb++;
		TCallback cb(cbid);
		const uint32_t w = rng.below(3);
		int before = -1;
		Handle h;
		if(w == 0) h = Dat(d).appendListener(Cfg::key(k), cb);
		else if(w == 1) h = Dat(d).prependListener(Cfg::key(k), cb);
		else {
			before = pickListener(d, k);
			if(before >= 0 && m.lm.isLive(before) && m.lm.nodes[before].key != k) before = -1;
			h = Dat(d).insertListener(Cfg::key(k), cb, before >= 0 ? m.rh[before] : Handle());
		}
		const int uid = m.lm.add(k, cbid, (int)w, before);
		m.rh.resize(m.lm.nodes.size());
		m.rh[uid] = h;
		log(std::string(w == 0 ? "appendListener" : w == 1 ? "prependListener" : "insertListener") + " D" + num(d) + " k" + num(k) + " cb" + num(cbid) + (w == 2 ? " before u" + num(before) : std::string()) + " -> u" + num(uid));
		count("op.addListener");
		if(! h) fail("addListener:dead-handle", "listener registration returned an expired handle");
	}
	void doRemove(int d) {
		DM & m = dm[d];
		int uid = pickListener(d, (int)rng.below(NKEYS));
		if(uid < 0) return;
		const int kk = m.lm.nodes[uid].key;
		const bool want = m.lm.remove(uid);
		if(want) sawRemove = true;
		const bool got = Dat(d).removeListener(Cfg::key(kk), m.rh[uid]);
		log("removeListener D" + num(d) + " k" + num(kk) + " u" + num(uid) + " -> " + num(got));
		count("op.removeListener");
		if(got != want) fail("removeListener:result", "removeListener returned " + num(got) + ", model says " + num(want));
	}
	void doQuery(int d) {
		DM & m = dm[d];
		const int k = (int)rng.below(NKEYS);
		if(rng.chance(1, 2)) {
			const bool want = ! m.lm.listOf(k).empty();
			const bool got = Dat(d).hasAnyListener(Cfg::key(k));
			log("hasAnyListener D" + num(d) + " k" + num(k) + " -> " + num(got));
			count("op.hasAnyListener");
			if(got != want) fail("hasAnyListener:result", "hasAnyListener returned " + num(got) + ", model says " + num(want));
		}
		else {
			int uid = pickListener(d, k);
			if(uid < 0) return;
			const bool want = m.lm.isLive(uid) && m.lm.nodes[uid].key == k;
			const bool got = Dat(d).ownsHandle(Cfg::key(k), m.rh[uid]);
			log("ownsHandle D" + num(d) + " k" + num(k) + " u" + num(uid) + " -> " + num(got));
			count("op.ownsHandle");
			if(got != want) fail("ownsHandle:result", "ownsHandle returned " + num(got) + ", model says " + num(want));
		}
	}
	struct Enum { World * w; int d; int k; size_t i; bool bad; int stopAfter; bool stopped;
		bool operator() (const Handle & h, const typename D::Callback & cb) {
			DM & m = w->dm[d];
			const std::vector<int> & o = m.lm.listOf(k);
			if(i >= o.size() || m.lm.nodes[o[i]].cbid != cbIdOf(cb)) { bad = true; ++i; return true; }
			auto a = h.lock(); auto b = m.rh[o[i]].lock();
			if(m.rh[o[i]].expired()) m.rh[o[i]] = h; // harvest (after a copy)
			else if(a != b) bad = true;
			++i;
			if(stopAfter > 0 && (int)i == stopAfter) { stopped = true; return false; }
			return true;
		}
	};
	struct EnumVoid { Enum * e; void operator() (const Handle & h, const typename D::Callback & cb) { (*e)(h, cb); } };
	void doEnum(int d, int k, bool withIf, const char * why) {
		DM & m = dm[d];
		Enum e; e.w = this; e.d = d; e.k = k; e.i = 0; e.bad = false; e.stopped = false;
		e.stopAfter = withIf && rng.chance(1, 2) ? 1 + (int)rng.below((uint32_t)m.lm.listOf(k).size() + 1) : 0;
		bool r = true;
		if(withIf) r = Dat(d).forEachIf(Cfg::key(k), std::ref(e));
		else { EnumVoid ev; ev.e = &e; Dat(d).forEach(Cfg::key(k), ev); }
		log(std::string(withIf ? "forEachIf" : "forEach") + " D" + num(d) + " k" + num(k) + " visited=" + num((long long)e.i) + " -> " + num(r));
		count("op.forEach");
		const size_t wantVisits = e.stopped ? (size_t)e.stopAfter : m.lm.listOf(k).size();
		if(e.bad || e.i != wantVisits) { fail(std::string(why) + ":content", std::string(why) + ": enumeration of k" + num(k) + " does not show the expected listeners in order"); return; }
		if(withIf && r != ! e.stopped) fail("forEachIf:result", "forEachIf returned " + num(r));
	}

	// C10: whole-dispatcher copy / move / swap (top level only)
	void recreate(int d, unsigned pat) {
		destroyD(d);
		dm[d].lm = ListModel(); dm[d].rh.clear();
		prefill(d, pat);
		new (slots[d].buf) D(); alive[d] = true;
	}
	void harvestAll(int d, const char * why) {
		dm[d].rh.assign(dm[d].lm.nodes.size(), Handle());
		for(int k = 0; k < NKEYS && ! dead; ++k) doEnum(d, k, false, why);
	}
	void doStructural() {
		if(nd < 2 || ! frames.empty()) return;
		const int a = (int)rng.below((uint32_t)nd);
		int b = (int)rng.below((uint32_t)nd);
		const uint32_t kind = rng.below(6);
		const unsigned pat = rng.below(5);
		if(kind != 1 && kind != 4 && a == b) b = (a + 1) % nd;
		static const char * names[] = { "copy_ctor", "copy_assign", "move_ctor", "move_assign", "swap", "recreate" };
		const std::string what = std::string(names[kind]) + " D" + num(a) + " <- D" + num(b);
		count((std::string("structural.") + names[kind]).c_str());
		if(a == b) count("structural.self");
		switch(kind) {
		case 0:
			destroyD(a); prefill(a, pat);
			new (slots[a].buf) D(Dat(b)); alive[a] = true;
			dm[a].lm.cloneFrom(dm[b].lm);
			log(what + " prefill=" + num(pat));
			harvestAll(a, "copy_ctor");
			break;
		case 1:
			Dat(a) = Dat(b);
			if(a != b) { dm[a].lm.cloneFrom(dm[b].lm); log(what); harvestAll(a, "copy_assign"); }
			else { log(what + " (self)"); for(int k = 0; k < NKEYS && ! dead; ++k) doEnum(a, k, false, "self_copy_assign"); }
			break;
		case 2:
			destroyD(a); prefill(a, pat);
			new (slots[a].buf) D(std::move(Dat(b))); alive[a] = true;
			dm[a].lm = dm[b].lm; dm[a].rh = dm[b].rh;
			log(what + " prefill=" + num(pat));
			recreate(b, rng.below(5));
			for(int k = 0; k < NKEYS && ! dead; ++k) doEnum(a, k, false, "move_ctor");
			break;
		case 3:
			Dat(a) = std::move(Dat(b));
			dm[a].lm = dm[b].lm; dm[a].rh = dm[b].rh;
			log(what);
			recreate(b, rng.below(5));
			for(int k = 0; k < NKEYS && ! dead; ++k) doEnum(a, k, false, "move_assign");
			break;
		case 4:
			if(rng.chance(1, 2)) { using std::swap; swap(Dat(a), Dat(b)); } else Dat(a).swap(Dat(b));
			if(a != b) { std::swap(dm[a].lm, dm[b].lm); std::swap(dm[a].rh, dm[b].rh); }
			log(what);
			for(int k = 0; k < NKEYS && ! dead; ++k) { doEnum(a, k, false, "swap"); if(! dead) doEnum(b, k, false, "swap"); }
			break;
		default:
			recreate(a, pat);
			log("recreate D" + num(a) + " prefill=" + num(pat));
			break;
		}
	}

	void step() {
		if(dead) return;
		const bool nested = ! frames.empty();
		const int d = nested && rng.chance(4, 5) ? frames.back().d : (int)rng.below((uint32_t)nd);
		const uint32_t c = rng.below(100);
		if(mode.structural && ! nested && c >= 88) { doStructural(); return; }
		if(c < 30) doAdd(d);
		else if(c < 45) doRemove(d);
		else if(c < 53) doQuery(d);
		else if(c < 60 && ! nested) { const int ek = (int)rng.below(NKEYS); const bool eif = rng.chance(1, 2); doEnum(d, ek, eif, "forEach"); } // two draws: never as arguments of one call (unspecified order)
		else if((int)frames.size() <= mode.maxDepth) doDispatch(d);
		else doQuery(d);
	}

	void quiescent() {
		if(dead) return;
		count("quiescent_checks");
		long wantCb = 0;
		for(int d = 0; d < nd; ++d) wantCb += (long)dm[d].lm.liveCount();
		if(ledger().liveCount(K_CB) != wantCb) { fail("lifetime:listener-count", "live listener instances " + num(ledger().liveCount(K_CB)) + ", model says " + num(wantCb)); return; }
		if(ledger().liveCount(K_PAYLOAD) != 0) fail("lifetime:payload-kept", "payload instances alive outside any dispatch");
	}

	void run(int ndWanted, int nops) {
		nd = ndWanted;
		for(int i = 0; i < nd; ++i) { prefill(i, rng.below(5)); new (slots[i].buf) D(); alive[i] = true; }
		callbackSink() = this;
		for(int i = 0; i < 5; ++i) doAdd((int)rng.below((uint32_t)nd));
		for(int i = 0; i < nops && ! dead; ++i) {
			budget = 25;
			step();
			quiescent();
		}
		for(int d = 0; d < nd && ! dead; ++d) for(int k = 0; k < NKEYS && ! dead; ++k) { budget = 0; doEnum(d, k, false, "final"); }
		callbackSink() = nullptr;
		if(! dead) {
			for(int d = 0; d < nd; ++d) destroyD(d);
			if(ledger().liveCount(K_CB) != 0) violation("lifetime:listener-leaked-after-destruction", num(ledger().liveCount(K_CB)) + " listener instance(s) alive after the dispatchers were destroyed");
			if(ledger().liveCount(K_KEY) != 0) violation("lifetime:key-leaked-after-destruction", num(ledger().liveCount(K_KEY)) + " key instance(s) alive after the dispatchers were destroyed");
		}
	}
};

static uint64_t gTraceXor = 0;
template <typename Cfg>
static uint64_t runCfg(const DMode & mode, Rng & rng, uint64_t caseNo, int cfgIndex)
{
	ledger().resetCase();
	const int nops = rng.range(mode.minOps, mode.maxOps);
	const int nd = mode.nd > 1 ? rng.range(2, mode.nd) : 1;
	uint64_t h; bool nontrivial;
	{
		World<Cfg> w(mode, rng);
		oplog("config " + num(cfgIndex) + ": " + Cfg::name() + " dispatchers=" + num(nd) + " ops=" + num(nops));
		w.run(nd, nops);
		h = w.trace.h;
		nontrivial = w.sawRemove && w.sawDispatchWithListeners;
	}
	count("ops", (uint64_t)nops);
	count((std::string("config.") + num(cfgIndex)).c_str());
	Fnv f; f.addu(h); f.addu((uint64_t)cfgIndex);
	if(nontrivial) markNontrivial(f.h);
	gTraceXor ^= mix(h, caseNo);
	if(wantSample() && nontrivial) addSample("{\"case\":" + unum(caseNo) + ",\"history\":" + oplogJson(ctx().oplog, 60) + "}");
	return h;
}
template <bool Enabled, typename Cfg>
static typename std::enable_if<Enabled>::type runCfgIf(const DMode & mode, Rng & rng, uint64_t caseNo, int cfgIndex) { runCfg<Cfg>(mode, rng, caseNo, cfgIndex); }
template <bool Enabled, typename Cfg>
static typename std::enable_if<! Enabled>::type runCfgIf(const DMode &, Rng &, uint64_t, int) {}
static void skipCase() { --ctx().casesRun; }

enum { NCFG = 17 }; // configuration n is enabled by mask bit n (n < 15) or n + 1 (bit 15 is the C20 family)
#ifndef VF_CFG_MASK
#define VF_CFG_MASK 0x37fff
#endif
// C20: the same program under a family that differs only in policies (threading, map kind, callback storage, argument passing mode)
#if (VF_CFG_MASK >> 15) & 1
template <typename Policies, int N>
struct FamCfg
{
	typedef eventpp::EventDispatcher<int, void(int, const TPayload &), Policies> D;
	static const char * name() { return "ED<int,void(int,const TPayload&)> policy family member"; }
	static int key(int k) { return KI(k); }
	static void dispatch(D & d, int k, int eid, int, uint32_t form) {
		if(form == 0) { int kk = KI(k); TPayload p(eid); d.dispatch(kk, p); }
		else if(form == 1) { const int kk = KI(k); const TPayload p(eid); d.dispatch(kk, p); }
		else d.dispatch(KI(k), TPayload(eid));
	}
	static void expect(ArgPack & p, int k, int eid, int) { p.push(KI(k)); p.push(eid); }
};
template <typename K, typename V> using PlainMap = std::map<K, V>;
struct FPolMap { template <typename K, typename V> using Map = PlainMap<K, V>; };
struct FPolGreaterSingle { template <typename K, typename V> using Map = GreaterMap<K, V>; typedef eventpp::SingleThreading Threading; };
struct FPolIncludeSpin { typedef eventpp::ArgumentPassingIncludeEvent ArgumentPassingMode; typedef eventpp::GeneralThreading<eventpp::SpinLock> Threading; };
struct FPolCustomCb { typedef TCallback Callback; };
// second family: by-value movable key in the prototype (the shape on which unspecified evaluation order shows)
template <typename Policies, int N>
struct FamCfgS
{
	typedef eventpp::EventDispatcher<std::string, void(std::string, TPayload), Policies> D;
	static const char * name() { return "ED<std::string,void(std::string,TPayload)> policy family member"; }
	static std::string key(int k) { return KS(k); }
	static void dispatch(D & d, int k, int eid, int, uint32_t form) {
		if(form == 0) { std::string kk = KS(k); TPayload p(eid); d.dispatch(kk, p); }
		else if(form == 1) { const std::string kk = KS(k); const TPayload p(eid); d.dispatch(kk, p); }
		else d.dispatch(KS(k), TPayload(eid));
	}
	static void expect(ArgPack & p, int k, int eid, int) { p.push(fpOf(KS(k))); p.push(eid); }
};
static void runFamilyS(const DMode & mode, uint64_t caseNo)
{
	const uint64_t seed = ctx().curSeed ^ 0x5bd1e995;
	uint64_t h[4];
	{ Rng r(seed); h[0] = runCfg<FamCfgS<eventpp::DefaultPolicies, 0> >(mode, r, caseNo, 110); }
	{ Rng r(seed); h[1] = runCfg<FamCfgS<FPolGreaterSingle, 1> >(mode, r, caseNo, 111); }
	{ Rng r(seed); h[2] = runCfg<FamCfgS<FPolIncludeSpin, 2> >(mode, r, caseNo, 112); }
	{ Rng r(seed); h[3] = runCfg<FamCfgS<FPolCustomCb, 3> >(mode, r, caseNo, 113); }
	static const char * names[] = { "default", "user map(std::greater)+SingleThreading", "IncludeEvent+SpinLock", "custom callback" };
	for(int i = 1; i < 4 && ! caseHasViolation(); ++i)
		if(h[i] != h[0]) violation(std::string("c20:trace-differs-between-policies:string-key:") + names[i], std::string("the same generated program produced a different observable trace under ") + names[i] + " than under " + names[0]);
	gTraceXor ^= mix(h[0], caseNo); // four identical contributions cancel
	count("family_runs", 4);
}
static void runFamily(const DMode & mode, uint64_t caseNo)
{
	if(caseNo % 3 == 2) { runFamilyS(mode, caseNo); count("family_programs"); return; }
	const uint64_t seed = ctx().curSeed;
	uint64_t h[6];
	{ Rng r(seed); h[0] = runCfg<FamCfg<eventpp::DefaultPolicies, 0> >(mode, r, caseNo, 100); }
	{ Rng r(seed); h[1] = runCfg<FamCfg<PolSingle, 1> >(mode, r, caseNo, 101); }
	{ Rng r(seed); h[2] = runCfg<FamCfg<FPolMap, 2> >(mode, r, caseNo, 102); }
	{ Rng r(seed); h[3] = runCfg<FamCfg<FPolGreaterSingle, 3> >(mode, r, caseNo, 103); }
	{ Rng r(seed); h[4] = runCfg<FamCfg<FPolIncludeSpin, 4> >(mode, r, caseNo, 104); }
	{ Rng r(seed); h[5] = runCfg<FamCfg<FPolCustomCb, 5> >(mode, r, caseNo, 105); }
	static const char * names[] = { "default(unordered_map,std::mutex,std::function,auto-detect)", "SingleThreading", "std::map", "user map(std::greater)+SingleThreading", "IncludeEvent+SpinLock", "custom callback" };
	for(int i = 1; i < 6 && ! caseHasViolation(); ++i)
		if(h[i] != h[0]) violation(std::string("c20:trace-differs-between-policies:") + names[i], std::string("the same generated program produced a different observable trace under ") + names[i] + " than under " + names[0]);
	gTraceXor ^= mix(h[0], caseNo); // six identical contributions cancel: add a seventh so the per-build accumulator is meaningful
	count("family_programs");
	count("family_runs", 6);
}
#else
static void runFamily(const DMode &, uint64_t) { --ctx().casesRun; }
#endif
static void runCase(uint64_t caseNo, Rng & rng)
{
	static DMode mode = dmodeOf(ctx().mode);
	if(ctx().mode == "c20") { runFamily(mode, caseNo); return; }
	long long only = ctx().optInt("cfg", -1);
	const int cfg = only >= 0 ? (int)only : (int)(caseNo % NCFG);
#define VF_CFG(n) case n: if((VF_CFG_MASK >> n) & 1) { runCfgIf<((VF_CFG_MASK >> n) & 1) != 0, DC##n>(mode, rng, caseNo, n); } else { skipCase(); } break;
	switch(cfg) {
	VF_CFG(0) VF_CFG(1) VF_CFG(2) VF_CFG(3) VF_CFG(4) VF_CFG(5) VF_CFG(6) VF_CFG(7) VF_CFG(8) VF_CFG(9) VF_CFG(10) VF_CFG(11) VF_CFG(12) VF_CFG(13) VF_CFG(14)
	case 15: if((VF_CFG_MASK >> 16) & 1) { runCfgIf<((VF_CFG_MASK >> 16) & 1) != 0, DC15>(mode, rng, caseNo, 15); } else { skipCase(); } break;
	case 16: if((VF_CFG_MASK >> 17) & 1) { runCfgIf<((VF_CFG_MASK >> 17) & 1) != 0, DC16>(mode, rng, caseNo, 16); } else { skipCase(); } break;
	default: skipCase(); break;
	}
}
int main(int argc, char ** argv)
{
	return runMain(argc, argv, runCase, []() {
		ctx().counters["trace_xor_lo"] = gTraceXor & 0xffffffffu;
		ctx().counters["trace_xor_hi"] = gTraceXor >> 32;
	});
}
