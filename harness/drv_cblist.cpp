// drv_cblist.cpp - online monitor of CallbackList / EventDispatcher listener lists
// against the sequential snapshot model M-list (DESIGN §4).  C++11.
//
// One control flow: the generator consults the model to choose the next
// operation (top level or from inside a callback / enumeration function of the
// real library), applies it to the real object and to the model, and compares
// every result at once.  Invocations are monitored by frames: each frame holds
// the snapshot the property promises and checks every callback the library
// calls against it.
//
// modes (--mode): c01 (no re-entrancy), c02 (re-entrant programs), c19 (wrap),
//                 c10 (copy/move/swap heavy), c08 (lifetime heavy), all
#include "vcommon.h"
#include "vledger.h"
#include "vaccess.h"

#include <eventpp/callbacklist.h>
#include <eventpp/eventdispatcher.h>
#include <eventpp/utilities/eventutil.h>

#include <algorithm>

using namespace vf;
typedef eventpp_verif::Access Access;

// ------------------------------------------------------------------ model
struct MNode { int cbid; bool live; int owner; uint64_t born; };
struct MList { std::vector<int> order; };

enum FrameKind { FK_INVOKE, FK_FOREACH, FK_FOREACHIF };
struct Frame
{
	int li, kind;
	std::vector<int> snap;
	size_t pos;
	bool wrapped;
	std::vector<int> extraCalled;
	uint64_t startTick;
	ArgPack expect;
	int mutIndex;   // index in expect of the running int& argument, or -1
	int stopAfter;  // forEachIf: return false at this visit (1-based), 0 = never
	int visited;
	int curUid;
	bool stopped;
	Frame() : li(0), kind(FK_INVOKE), pos(0), wrapped(false), startTick(0), mutIndex(-1), stopAfter(0), visited(0), curUid(-1), stopped(false) {}
};

struct Mode
{
	int pAct;        // % of callback calls that run nested actions
	int maxDepth;
	bool structural; // copy/move/swap/recreate of list objects
	bool wrap;       // SETCOUNTER ops
	int minOps, maxOps;
	int maxNodes;
	int nlMax;
};

static Mode modeOf(const std::string & m)
{
	Mode r;
	r.pAct = 0; r.maxDepth = 0; r.structural = false; r.wrap = false; r.minOps = 5; r.maxOps = 60; r.maxNodes = 120; r.nlMax = 2;
	if(m == "c02") { r.pAct = 40; r.maxDepth = 3; }
	else if(m == "c19") { r.pAct = 30; r.maxDepth = 2; r.wrap = true; r.structural = true; r.minOps = 30; r.maxOps = 70; r.nlMax = 2; }
	else if(m == "c10") { r.pAct = 15; r.maxDepth = 2; r.structural = true; r.nlMax = 4; r.wrap = true; }
	else if(m == "c08") { r.pAct = 45; r.maxDepth = 3; r.structural = true; r.minOps = 40; r.maxOps = 120; r.maxNodes = 250; r.nlMax = 3; }
	else if(m == "all" || m == "c20") { r.pAct = 30; r.maxDepth = 3; r.structural = true; r.wrap = true; r.nlMax = 3; }
	return r;
}

static const unsigned char kPrefill[4] = { 0x00, 0xFF, 0xA5, 0x5C };

// ------------------------------------------------------------------ prototypes
struct ProtoInt
{
	typedef void Sig(int);
	static const char * name() { return "void(int)"; }
	template <typename L> static void invoke(const L & l, uint32_t a, Frame & f, int * runOut) {
		int v = (int)(a % 1000);
		f.expect.push(v);
		(void)runOut;
		l(v);
	}
};
struct ProtoStrInt
{
	typedef void Sig(const std::string &, int);
	static const char * name() { return "void(const std::string&,int)"; }
	template <typename L> static void invoke(const L & l, uint32_t a, Frame & f, int * runOut) {
		std::string s = "s" + num(a % 97) + std::string(a % 40, 'x');
		int v = (int)(a % 1000);
		f.expect.push(fpOf(s)); f.expect.push(v);
		(void)runOut;
		l(s, v);
	}
};
struct ProtoPayRefIntRef
{
	typedef void Sig(TPayload &, int &);
	static const char * name() { return "void(TPayload&,int&)"; }
	template <typename L> static void invoke(const L & l, uint32_t a, Frame & f, int * runOut) {
		TPayload p(20000 + (int)(a % 500));
		int run = (int)(a % 100);
		f.expect.push(p.id()); f.expect.push(run);
		f.mutIndex = 1;
		l(p, run);
		*runOut = run;
	}
};
struct ProtoIntPayVal
{
	typedef void Sig(int, TPayload);
	static const char * name() { return "void(int,TPayload)"; }
	template <typename L> static void invoke(const L & l, uint32_t a, Frame & f, int * runOut) {
		TPayload p(20000 + (int)(a % 500));
		int v = (int)(a % 1000);
		f.expect.push(v); f.expect.push(p.id());
		(void)runOut;
		l(v, p);
	}
};

struct ProtoStrValInt
{
	typedef void Sig(std::string, int);
	static const char * name() { return "void(std::string,int) by value"; }
	template <typename L> static void invoke(const L & l, uint32_t a, Frame & f, int * runOut) {
		std::string s = "v" + num(a % 89) + std::string(20 + a % 30, 'y'); // long enough to live on the heap: a move empties it
		int v = (int)(a % 1000);
		f.expect.push(fpOf(s)); f.expect.push(v);
		(void)runOut;
		if(a & 0x20000) l(s, v); else l(std::string(s), int(v));
	}
};

// ------------------------------------------------------------------ policies
// a canContinueInvoking policy that takes the (by-value, movable) arguments BY VALUE and always continues: the arguments must be
// handed to it as lvalues after EVERY callback, every later callback still needs them
struct PolCanContinueByValue { static bool canContinueInvoking(std::string s, int) { return s.size() < 100000; } typedef eventpp::SingleThreading Threading; };
struct PolSingle { typedef eventpp::SingleThreading Threading; };
struct PolSpin { typedef eventpp::GeneralThreading<eventpp::SpinLock> Threading; };
struct PolCustomCb { typedef TCallback Callback; typedef eventpp::SingleThreading Threading; };
struct PolCustomCbMulti { typedef TCallback Callback; };
template <typename K, typename V> using UserMap = std::map<K, V, std::greater<K> >;
struct PolUserMap { template <typename K, typename V> using Map = UserMap<K, V>; typedef TCallback Callback; };
struct PolSingleOrdered { typedef eventpp::SingleThreading Threading; template <typename K, typename V> using Map = std::map<K, V>; };

// ------------------------------------------------------------------ configurations
// A Cfg exposes `nl` lists behind one Store.
template <typename Proto, typename Policies, bool HasEq>
struct CLCfg
{
	typedef eventpp::CallbackList<typename Proto::Sig, Policies> L;
	typedef typename L::Handle Handle;
	typedef typename L::Callback Callback;
	static const bool structural = true;
	static const bool hasEq = HasEq;
	static std::string name() { return std::string("CallbackList<") + Proto::name() + ">"; }

	struct Store
	{
		enum { MAXL = 4 };
		struct alignas(16) Slot { unsigned char buf[sizeof(L)]; };
		Slot slots[MAXL];
		bool alive[MAXL];
		int nl;
		Store() : nl(0) { for(int i = 0; i < MAXL; ++i) alive[i] = false; }
		~Store() { for(int i = 0; i < MAXL; ++i) destroy(i); }
		L & at(int i) { return *reinterpret_cast<L *>(slots[i].buf); }
		void prefill(int i, unsigned pat, Rng & rng) {
			static const bool noPrefill = ctx().optInt("noprefill", 0) != 0; // memcheck runs: leave the storage undefined
			if(noPrefill) { if(pat >= 4) rng.next(); return; }
			if(pat < 4) memset(slots[i].buf, kPrefill[pat], sizeof(L));
			else { Rng fill(rng.next()); for(size_t k = 0; k < sizeof(L); ++k) slots[i].buf[k] = (unsigned char)fill.below(256); } // one draw: the object size must not influence the program
		}
		void destroy(int i) { if(alive[i]) { at(i).~L(); alive[i] = false; } }
		void init(int n, Rng & rng) { nl = n; for(int i = 0; i < n; ++i) { prefill(i, rng.below(5), rng); new (slots[i].buf) L(); alive[i] = true; } }
	};
	static L & list(Store & s, int li) { return s.at(li); }
	static Handle append(Store & s, int li, const TCallback & cb) { return s.at(li).append(cb); }
	static Handle prepend(Store & s, int li, const TCallback & cb) { return s.at(li).prepend(cb); }
	static Handle insert(Store & s, int li, const TCallback & cb, const Handle & h) { return s.at(li).insert(cb, h); }
	static bool remove(Store & s, int li, const Handle & h) { return s.at(li).remove(h); }
	static bool owns(Store & s, int li, const Handle & h) { return s.at(li).ownsHandle(h); }
	static bool empty(Store & s, int li) {
		const L & l = s.at(li);
		const bool e = l.empty();
		const bool b = (bool)l;
		if(b == e) violation("empty:operator-bool-disagrees", "empty() and operator bool disagree");
		return e;
	}
	static void invoke(Store & s, int li, uint32_t a, Frame & f, int * runOut) { Proto::invoke(s.at(li), a, f, runOut); }
	template <typename F> static void forEach(Store & s, int li, F && f) { s.at(li).forEach(f); }
	template <typename F> static bool forEachIf(Store & s, int li, F && f) { return s.at(li).forEachIf(f); }
	static L * peek(Store & s, int li) { return &s.at(li); }
	template <bool E = HasEq> static typename std::enable_if<E, bool>::type hasListener(Store & s, int li, const TCallback & cb) { return eventpp::hasListener(s.at(li), cb); }
	template <bool E = HasEq> static typename std::enable_if<! E, bool>::type hasListener(Store &, int, const TCallback &) { return false; }
	template <bool E = HasEq> static typename std::enable_if<E, bool>::type removeListener(Store & s, int li, const TCallback & cb) { return eventpp::removeListener(s.at(li), cb); }
	template <bool E = HasEq> static typename std::enable_if<! E, bool>::type removeListener(Store &, int, const TCallback &) { return false; }
	template <bool E = HasEq> static typename std::enable_if<E, bool>::type hasAny(Store & s, int li) { return eventpp::hasAnyListener(s.at(li)); }
	template <bool E = HasEq> static typename std::enable_if<! E, bool>::type hasAny(Store & s, int li) { return ! s.at(li).empty(); }
};

// lists = the per-key listener lists of ONE dispatcher; key = 100 + li
template <typename Policies, bool HasEq>
struct EDCfg
{
	typedef eventpp::EventDispatcher<int, void(int, int), Policies> D;
	typedef typename D::Handle Handle;
	typedef typename D::Callback Callback;
	typedef eventpp::CallbackList<void(int, int), Policies> L;
	static const bool structural = false;
	static const bool hasEq = HasEq;
	static std::string name() { return "EventDispatcher<int,void(int,int)>"; }
	struct Store
	{
		D d;
		int nl;
		Store() : nl(0) {}
		void init(int n, Rng &) { nl = n; }
		void destroy(int) {}
		void prefill(int, unsigned, Rng &) {}
	};
	static int key(int li) { return 100 + li * 7; }
	static Handle append(Store & s, int li, const TCallback & cb) { return s.d.appendListener(key(li), cb); }
	static Handle prepend(Store & s, int li, const TCallback & cb) { return s.d.prependListener(key(li), cb); }
	static Handle insert(Store & s, int li, const TCallback & cb, const Handle & h) { return s.d.insertListener(key(li), cb, h); }
	static bool remove(Store & s, int li, const Handle & h) { return s.d.removeListener(key(li), h); }
	static bool owns(Store & s, int li, const Handle & h) { return s.d.ownsHandle(key(li), h); }
	static bool empty(Store & s, int li) { return ! s.d.hasAnyListener(key(li)); }
	static void invoke(Store & s, int li, uint32_t a, Frame & f, int * runOut) {
		int v = (int)(a % 1000);
		f.expect.push(key(li)); f.expect.push(v);
		(void)runOut;
		if(a & 0x10000) s.d.dispatch(key(li), v);
		else { const int k = key(li); s.d.dispatch(k, v); }
	}
	template <typename F> static void forEach(Store & s, int li, F && f) { s.d.forEach(key(li), f); }
	template <typename F> static bool forEachIf(Store & s, int li, F && f) { return s.d.forEachIf(key(li), f); }
	static L * peek(Store & s, int li) { return Access::findList(s.d, key(li)); }
	template <bool E = HasEq> static typename std::enable_if<E, bool>::type hasListener(Store & s, int li, const TCallback & cb) { return eventpp::hasListener(s.d, key(li), cb); }
	template <bool E = HasEq> static typename std::enable_if<! E, bool>::type hasListener(Store &, int, const TCallback &) { return false; }
	template <bool E = HasEq> static typename std::enable_if<E, bool>::type removeListener(Store & s, int li, const TCallback & cb) { return eventpp::removeListener(s.d, key(li), cb); }
	template <bool E = HasEq> static typename std::enable_if<! E, bool>::type removeListener(Store &, int, const TCallback &) { return false; }
	template <bool E = HasEq> static typename std::enable_if<E, bool>::type hasAny(Store & s, int li) { return eventpp::hasAnyListener(s.d, key(li)); }
	template <bool E = HasEq> static typename std::enable_if<! E, bool>::type hasAny(Store & s, int li) { return s.d.hasAnyListener(key(li)); }
};

// ------------------------------------------------------------------ the world (real object + model + monitor)
enum OpKind {
	OP_APPEND, OP_PREPEND, OP_INSERT, OP_REMOVE, OP_OWNS, OP_EMPTY, OP_INVOKE, OP_FOREACH, OP_FOREACHIF,
	OP_HAS, OP_REMOVE_L, OP_HASANY,
	OP_COPY_CTOR, OP_COPY_ASSIGN, OP_MOVE_CTOR, OP_MOVE_ASSIGN, OP_SWAP, OP_RECREATE, OP_SETCOUNTER, OP_KINDS
};
static const char * kOpName[] = { "append", "prepend", "insert", "remove", "owns", "empty", "invoke", "forEach", "forEachIf",
	"hasListener", "removeListener", "hasAnyListener",
	"copy_ctor", "copy_assign", "move_ctor", "move_assign", "swap", "recreate", "setcounter", "?" };

template <typename Cfg>
struct World : CallbackSink
{
	typedef typename Cfg::Handle Handle;
	typename Cfg::Store store;
	Mode mode;
	Rng & rng;
	int nl;
	std::vector<MNode> nodes;
	std::vector<Handle> rh; // real handle of every model node (by uid)
	std::vector<MList> lists;
	std::vector<int> invDepth;
	std::vector<Frame> frames;
	std::vector<int> recentlyRemoved;
	int nextCb;
	int budget;
	uint64_t tick;
	Fnv trace;
	bool sawRemove, sawInvoke;
	bool dead; // stop generating after a violation that desynchronises model and object
	int copyHookLi, copyHookUid; // while an insert(before=uid) is inside the library: the callback's copy constructor may remove `before`

	World(const Mode & m, Rng & r) : mode(m), rng(r), nl(1), nextCb(0), budget(0), tick(0), sawRemove(false), sawInvoke(false), dead(false), copyHookLi(-1), copyHookUid(-1) { frames.reserve(16); }

	std::string pre() const { return "[" + num((long long)frames.size()) + "] "; }
	void log(const std::string & s) { oplog(pre() + s); trace.add(s); }

	void fail(const std::string & key, const std::string & desc) {
		violation(key, desc);
		oplog(pre() + "!! " + key + " :: " + desc);
		dead = true;
	}

	// ---------- handle selection
	std::string hstate(int li, int uid) const {
		if(uid < 0) return "empty";
		const MNode & n = nodes[uid];
		if(! n.live) return rh[uid].expired() ? "removed-expired" : "removed-still-referenced";
		return n.owner == li ? "live" : "live-foreign";
	}
	int pickLive(int li) { const std::vector<int> & o = lists[li].order; return o.empty() ? -1 : o[rng.below((uint32_t)o.size())]; }
	// uid to use as a handle for an operation on list li; -1 = default-constructed handle
	int pickHandle(int li, bool allowForeign) {
		for(int tries = 0; tries < 4; ++tries) {
			uint32_t c = rng.below(100);
			int uid = -2;
			if(c < 38) uid = pickLive(li);
			else if(c < 58) { if(! recentlyRemoved.empty()) uid = recentlyRemoved[recentlyRemoved.size() - 1 - rng.below((uint32_t)std::min<size_t>(recentlyRemoved.size(), 6))]; }
			else if(c < 78) { // the running callback of some frame, its successor or predecessor in the snapshot
				if(! frames.empty()) {
					const Frame & f = frames[rng.below((uint32_t)frames.size())];
					uint32_t w = rng.below(4);
					if(w == 0 || w == 3) uid = f.curUid;
					else if(w == 1) { if(f.pos < f.snap.size()) uid = f.snap[f.pos]; }
					else { if(f.pos >= 2) uid = f.snap[f.pos - 2]; }
				}
			}
			else if(c < 84) uid = -1;
			else if(c < 92) { if(! nodes.empty()) uid = (int)rng.below((uint32_t)nodes.size()); }
			else { if(allowForeign && nl > 1) uid = pickLive((li + 1 + (int)rng.below((uint32_t)(nl - 1))) % nl); }
			if(uid == -2) continue;
			if(uid >= 0 && ! allowForeign && nodes[uid].live && nodes[uid].owner != li) continue; // precondition of insert/remove
			return uid;
		}
		return -1;
	}
	Handle handleOf(int uid) const { return uid < 0 ? Handle() : rh[uid]; }

	// ---------- wrap observation (C19): the relaxation applies to frames in progress when the counter really wrapped
	unsigned counterOf(int li) { typename Cfg::L * l = Cfg::peek(store, li); return l ? Access::counter(*l) : 0; }
	void afterAdd(int li, unsigned before) {
		typename Cfg::L * l = Cfg::peek(store, li);
		if(! l) return;
		unsigned after = Access::counter(*l);
		if(after < before) {
			count("wrap.observed");
			bool any = false;
			for(size_t i = 0; i < frames.size(); ++i) if(frames[i].li == li) { frames[i].wrapped = true; any = true; }
			if(any) count("wrap.with_invocation_in_progress");
			if(! frames.empty()) count("wrap.inside_callback");
			log("  (generation counter of L" + num(li) + " wrapped)");
		}
	}

	// user code runs inside insert(): the callback is copied after `before` was locked and before the list mutex is taken.
	// Removing `before` from there is an ordinary (re-entrant) list operation; insert must then append at the back.
	void onCopy(int) override {
		if(copyHookUid < 0 || dead) return;
		const int li = copyHookLi, uid = copyHookUid;
		copyHookUid = -1; // once
		const bool expect = nodes[uid].live && nodes[uid].owner == li;
		const bool got = Cfg::remove(store, li, rh[uid]);
		if(expect) { mRemove(uid); sawRemove = true; }
		log("  (callback copy constructor inside insert) remove L" + num(li) + " u" + num(uid) + " -> " + num(got));
		count("remove_from_copy_constructor_inside_insert");
		if(got != expect) fail("remove:result:from-copy-constructor-inside-insert", "remove returned " + num(got) + ", model says " + num(expect));
	}

	int newNode(int li, int cbid) {
		MNode n; n.cbid = cbid; n.live = true; n.owner = li; n.born = ++tick;
		nodes.push_back(n);
		return (int)nodes.size() - 1;
	}
	void mRemove(int uid) {
		MNode & n = nodes[uid];
		std::vector<int> & o = lists[n.owner].order;
		o.erase(std::find(o.begin(), o.end(), uid));
		n.live = false;
		recentlyRemoved.push_back(uid);
	}

	// ---------- operations
	void doAdd(OpKind k, int li) {
		int cbid = nextCb++;
		// configurations with a comparable Callback: now and then add a callback EQUAL to one already in the list
		// (the eventutil helpers speak of "the first equal callback")
		// (not in the modes that wrap the generation counter: a relaxed frame identifies callbacks by id only and could not tell the twins apart)
		if(Cfg::hasEq && ! mode.wrap && ! lists[li].order.empty() && rng.chance(1, 6)) { cbid = nodes[pickLive(li)].cbid; count("duplicate_callbacks_added"); }
		TCallback cb(cbid);
		int before = -1;
		if(k == OP_INSERT) before = pickHandle(li, false);
		const unsigned c0 = counterOf(li);
		Handle h;
		std::string what = std::string(kOpName[k]) + " L" + num(li) + " cb" + num(cbid);
		if(k == OP_APPEND) h = Cfg::append(store, li, cb);
		else if(k == OP_PREPEND) h = Cfg::prepend(store, li, cb);
		else {
			what += " before u" + num(before) + "(" + hstate(li, before) + ")";
			if(before >= 0 && ! nodes[before].live) count("stale_handle_ops");
			if(before >= 0 && ! nodes[before].live && ! frames.empty()) count("stale_handle_ops_in_callback");
			// only for CallbackList itself: a dispatcher holds its listenerMutex while the callback is copied, re-entering it from there is not promised
			if(Cfg::structural && before >= 0 && nodes[before].live && nodes[before].owner == li && invDepth[li] == 0 && rng.chance(1, 6)) { copyHookLi = li; copyHookUid = before; }
			h = Cfg::insert(store, li, cb, handleOf(before));
			copyHookUid = -1;
		}
		std::vector<int> & o = lists[li].order;
		const int uid = newNode(li, cbid);
		rh.push_back(h);
		if(k == OP_APPEND) o.push_back(uid);
		else if(k == OP_PREPEND) o.insert(o.begin(), uid);
		else {
			if(before >= 0 && nodes[before].live && nodes[before].owner == li) o.insert(std::find(o.begin(), o.end(), before), uid);
			else o.push_back(uid);
		}
		log(what + " -> u" + num(uid));
		if(h.expired() || ! h) fail(std::string(kOpName[k]) + ":returned-dead-handle", what + " returned an expired handle");
		afterAdd(li, c0);
	}

	void doRemove(int li) {
		const int uid = pickHandle(li, false);
		const bool expect = uid >= 0 && nodes[uid].live && nodes[uid].owner == li;
		const std::string st = hstate(li, uid);
		if(uid >= 0 && ! nodes[uid].live) { count("stale_handle_ops"); if(! frames.empty()) count("stale_handle_ops_in_callback"); }
		const bool got = Cfg::remove(store, li, handleOf(uid));
		if(expect) { mRemove(uid); sawRemove = true; }
		log("remove L" + num(li) + " u" + num(uid) + "(" + st + ") -> " + num(got));
		if(got != expect) fail("remove:result:handle=" + st, "remove returned " + num(got) + ", model says " + num(expect));
	}

	void doOwns(int li) {
		const int uid = pickHandle(li, true);
		const bool expect = uid >= 0 && nodes[uid].live && nodes[uid].owner == li;
		const std::string st = hstate(li, uid);
		if(uid >= 0 && ! nodes[uid].live) { count("stale_handle_ops"); if(! frames.empty()) count("stale_handle_ops_in_callback"); }
		const bool got = Cfg::owns(store, li, handleOf(uid));
		log("ownsHandle L" + num(li) + " u" + num(uid) + "(" + st + ") -> " + num(got));
		if(got != expect) fail("ownsHandle:result:handle=" + st, "ownsHandle returned " + num(got) + ", model says " + num(expect));
	}

	void doEmpty(int li) {
		const bool expect = lists[li].order.empty();
		const bool got = Cfg::empty(store, li);
		log("empty L" + num(li) + " -> " + num(got));
		if(got != expect) fail("empty:result", "empty returned " + num(got) + ", model says " + num(expect));
	}

	void doHasAny(int li) {
		const bool expect = ! lists[li].order.empty();
		const bool got = Cfg::hasAny(store, li);
		log("hasAnyListener L" + num(li) + " -> " + num(got));
		if(got != expect) fail("hasAnyListener:result", "hasAnyListener returned " + num(got) + ", model says " + num(expect));
	}

	// eventutil helpers (custom Callback with ==)
	void doHelper(OpKind k, int li) {
		if(! Cfg::hasEq) return;
		int cbid;
		int uid = (rng.chance(2, 3) ? pickLive(li) : (nodes.empty() ? -1 : (int)rng.below((uint32_t)nodes.size())));
		cbid = uid >= 0 ? nodes[uid].cbid : nextCb + 5;
		int first = -1;
		const std::vector<int> & o = lists[li].order;
		for(size_t i = 0; i < o.size(); ++i) if(nodes[o[i]].cbid == cbid) { first = o[i]; break; }
		const bool expect = first >= 0;
		TCallback probe(cbid);
		bool got;
		if(k == OP_HAS) got = Cfg::hasListener(store, li, probe);
		else {
			got = Cfg::removeListener(store, li, probe);
			if(expect) { mRemove(first); sawRemove = true; }
		}
		log(std::string(kOpName[k]) + " L" + num(li) + " cb" + num(cbid) + " -> " + num(got));
		if(got != expect) fail(std::string(kOpName[k]) + ":result", std::string(kOpName[k]) + " returned " + num(got) + ", model says " + num(expect));
	}

	void pushFrame(int li, int kind) {
		Frame f;
		f.li = li; f.kind = kind; f.snap = lists[li].order; f.startTick = ++tick;
		frames.push_back(f);
		++invDepth[li];
		countMax("max_depth", frames.size());
		if(frames.size() > 1) count("nested_invocations");
	}
	void popFrame(const char * opname) {
		Frame & f = frames.back();
		if(! dead && ! f.stopped) {
			for(size_t i = f.pos; i < f.snap.size(); ++i) {
				if(nodes[f.snap[i]].live) {
					fail(std::string(opname) + ":missed-callback", std::string(opname) + " returned without calling u" + num(f.snap[i]) + " (cb" + num(nodes[f.snap[i]].cbid) + ") which was present for its whole duration");
					break;
				}
			}
		}
		--invDepth[f.li];
		frames.pop_back();
	}

	void doInvoke(int li) {
		const uint32_t a = (uint32_t)rng.next();
		pushFrame(li, FK_INVOKE);
		log("invoke L" + num(li) + " a=" + num(a % 100000));
		sawInvoke = true;
		int runOut = 0;
		Cfg::invoke(store, li, a, frames.back(), &runOut);
		Frame & f = frames.back();
		if(f.mutIndex >= 0 && ! dead && runOut != (int)f.expect.fp[f.mutIndex])
			fail("invoke:by-reference-argument-lost", "caller sees " + num(runOut) + " in its int& argument, model says " + num(f.expect.fp[f.mutIndex]));
		popFrame("invoke");
		log("invoke L" + num(li) + " done");
	}

	struct EnumFn1 { World * w; void operator() (const typename Cfg::Callback & cb) const { w->onEnum(cbIdOf(cb), nullptr); } };
	struct EnumFn2 { World * w; void operator() (const Handle & h, const typename Cfg::Callback & cb) const { w->onEnum(cbIdOf(cb), &h); } };
	struct EnumIf1 { World * w; bool operator() (const typename Cfg::Callback & cb) const { return w->onEnum(cbIdOf(cb), nullptr); } };
	struct EnumIf2 { World * w; bool operator() (const Handle & h, const typename Cfg::Callback & cb) const { return w->onEnum(cbIdOf(cb), &h); } };

	void doForEach(int li, bool withIf) {
		pushFrame(li, withIf ? FK_FOREACHIF : FK_FOREACH);
		const bool two = rng.chance(1, 2);
		if(withIf) {
			const size_t n = lists[li].order.size();
			frames.back().stopAfter = rng.chance(1, 2) ? (int)rng.below((uint32_t)n + 2) : 0;
		}
		const int stopAfter = frames.back().stopAfter;
		log(std::string(withIf ? "forEachIf" : "forEach") + " L" + num(li) + (two ? " (handle,callback)" : " (callback)") + (withIf ? " stopAfter=" + num(stopAfter) : ""));
		bool r = true;
		if(withIf) {
			if(two) { EnumIf2 f; f.w = this; r = Cfg::forEachIf(store, li, f); }
			else { EnumIf1 f; f.w = this; r = Cfg::forEachIf(store, li, f); }
		}
		else {
			if(two) { EnumFn2 f; f.w = this; Cfg::forEach(store, li, f); }
			else { EnumFn1 f; f.w = this; Cfg::forEach(store, li, f); }
		}
		const bool stopped = frames.back().stopped;
		popFrame(withIf ? "forEachIf" : "forEach");
		if(withIf && ! dead) {
			if(r != ! stopped) fail("forEachIf:result", "forEachIf returned " + num(r) + " but the function " + (stopped ? "stopped it" : "never returned false"));
		}
		log(std::string(withIf ? "forEachIf" : "forEach") + " L" + num(li) + " done -> " + num(r));
	}

	// classification of a call the frame did not expect
	std::string classify(const Frame & f, int cbid) {
		for(size_t i = 0; i < f.snap.size(); ++i) {
			if(nodes[f.snap[i]].cbid == cbid) {
				if(i < f.pos) return nodes[f.snap[i]].live ? "callback-called-twice" : "removed-callback-called-again";
				if(! nodes[f.snap[i]].live) return "callback-removed-before-its-turn-was-called";
				return "callback-out-of-order-or-predecessor-skipped";
			}
		}
		const std::vector<int> & o = lists[f.li].order;
		for(size_t i = 0; i < o.size(); ++i) if(nodes[o[i]].cbid == cbid) return "callback-added-during-invocation-was-called";
		return "unknown-callback-called";
	}

	// returns the uid matched, or -1
	int matchCall(int cbid, const char * what) {
		if(frames.empty()) { fail(std::string(what) + ":call-outside-any-invocation", "cb" + num(cbid) + " called while no invocation is in progress"); return -1; }
		Frame & f = frames.back();
		if(f.stopped) { fail(std::string(what) + ":continued-after-stop", "cb" + num(cbid) + " visited after the function returned false"); return -1; }
		size_t p = f.pos;
		while(p < f.snap.size() && ! nodes[f.snap[p]].live) ++p;
		if(p < f.snap.size() && nodes[f.snap[p]].cbid == cbid) {
			f.pos = p + 1;
			f.curUid = f.snap[p];
			return f.curUid;
		}
		if(f.wrapped) {
			// C19 relaxation: callbacks added during this (in-progress at the wrap) invocation may be called, at most once
			const std::vector<int> & o = lists[f.li].order;
			bool anyCandidate = false;
			for(size_t i = 0; i < o.size(); ++i) {
				const int uid = o[i];
				if(nodes[uid].cbid == cbid && nodes[uid].born > f.startTick) {
					anyCandidate = true;
					if(std::find(f.extraCalled.begin(), f.extraCalled.end(), uid) != f.extraCalled.end()) continue; // an equal callback (same id) may be in the list more than once
					f.extraCalled.push_back(uid);
					f.curUid = uid;
					count("wrap.extra_calls_allowed");
					return uid;
				}
			}
			if(anyCandidate) {
				fail(std::string(what) + ":wrap-extra-called-twice", "cb" + num(cbid) + " called more often than it is in the list by an invocation in progress at the wrap");
				return -1;
			}
		}
		fail(std::string(what) + ":" + classify(f, cbid) + (f.wrapped ? ":in-progress-at-wrap" : ""), "cb" + num(cbid) + " called; model expected "
			+ (p < f.snap.size() ? "cb" + num(nodes[f.snap[p]].cbid) : std::string("no further callback")));
		return -1;
	}

	static const char * frameName(int kind) { return kind == FK_INVOKE ? "invoke" : kind == FK_FOREACH ? "forEach" : "forEachIf"; }

	// CallbackSink: a callback was really invoked by the library
	void onCall(int cbid, const ArgPack & args, MutInts & mut) override {
		if(dead) return;
		if(frames.empty() || frames.back().kind != FK_INVOKE) {
			fail("invoke:callback-called-outside-invocation", "cb" + num(cbid) + " invoked while the innermost frame is not an invocation");
			return;
		}
		const int uid = matchCall(cbid, "invoke");
		if(uid < 0) return;
		Frame & f = frames.back();
		log("call u" + num(uid) + " cb" + num(cbid) + args.str());
		count("callback_calls");
		// the object that runs is the callback STORED in the list (not a copy made for the call: a stateful callable would lose its state)
		{
			typename Cfg::L * l = Cfg::peek(store, f.li);
			if(l && ! Access::holdsCallbackObject(*l, invokedInstance())) { fail("invoke:invoked-object-is-not-the-stored-callback", "cb" + num(cbid) + " of L" + num(f.li) + " was invoked on an object that is not the one stored in the list (a copy?)"); return; }
			count("invoked_object_identity_checked");
		}
		bool argsOk = args.n == f.expect.n;
		for(int i = 0; argsOk && i < args.n; ++i) argsOk = args.fp[i] == f.expect.fp[i];
		if(! argsOk) { fail("invoke:arguments", "cb" + num(cbid) + " received " + args.str() + ", model says " + f.expect.str()); return; }
		if(f.mutIndex >= 0) {
			if(mut.n < 1) { fail("invoke:arguments", "int& argument not passed as a modifiable lvalue"); return; }
			const int d = cbid % 5 + 1;
			*mut.p[mut.n - 1] += d;
			f.expect.fp[f.mutIndex] += d;
		}
		nestedActions();
	}

	bool onEnum(int cbid, const Handle * h) {
		if(dead) return true;
		if(frames.empty() || frames.back().kind == FK_INVOKE) {
			fail("forEach:function-called-outside-enumeration", "enumeration function called for cb" + num(cbid) + " while the innermost frame is not an enumeration");
			return true;
		}
		const char * fn = frameName(frames.back().kind);
		const int uid = matchCall(cbid, fn);
		if(uid < 0) return true;
		log(std::string("visit u") + num(uid) + " cb" + num(cbid));
		count("enum_visits");
		if(h && ! frames.back().wrapped) { // in a relaxed (in-progress-at-wrap) frame equal callbacks cannot be told apart by id
			auto a = h->lock();
			auto b = rh[uid].lock();
			if(! a || a != b) { fail(std::string(fn) + ":handle", "enumeration passed a handle that is not the handle of the visited callback"); return true; }
		}
		nestedActions();
		if(dead) return true;
		Frame & f = frames.back();
		++f.visited;
		if(f.stopAfter > 0 && f.visited == f.stopAfter) { f.stopped = true; log("  (function returns false)"); return false; }
		return true;
	}

	void nestedActions() {
		if(mode.pAct == 0 || (int)frames.size() > mode.maxDepth + 0 || budget <= 0) return;
		if(! rng.chance((uint32_t)mode.pAct, 100)) return;
		int n = 1 + (int)rng.below(3);
		for(int i = 0; i < n && budget > 0 && ! dead; ++i) { --budget; count("nested_actions"); step(); }
	}

	// ---------- structural operations on list objects (top level only, except copy FROM a list being invoked)
	bool idle(int li) const { return invDepth[li] == 0; }

	void cloneModel(int dst, int src) { // dst already cleared
		std::vector<int> neworder;
		const std::vector<int> srcOrder = lists[src].order;
		for(size_t i = 0; i < srcOrder.size(); ++i) neworder.push_back(newNode(dst, nodes[srcOrder[i]].cbid));
		lists[dst].order = neworder;
		rh.resize(nodes.size());
	}
	void clearModel(int li) {
		std::vector<int> o = lists[li].order;
		for(size_t i = 0; i < o.size(); ++i) { nodes[o[i]].live = false; recentlyRemoved.push_back(o[i]); }
		lists[li].order.clear();
	}
	// learn the real handles of the nodes of list li through the public enumeration API
	struct Harvest { World * w; int li; size_t i; bool bad;
		void operator() (const Handle & h, const typename Cfg::Callback & cb) {
			const std::vector<int> & o = w->lists[li].order;
			if(i >= o.size() || w->nodes[o[i]].cbid != cbIdOf(cb)) { bad = true; ++i; return; }
			w->rh[o[i]] = h; ++i;
		}
	};
	void harvest(int li, const char * opname) {
		Harvest hv; hv.w = this; hv.li = li; hv.i = 0; hv.bad = false;
		Cfg::forEach(store, li, std::ref(hv));
		if(hv.bad || hv.i != lists[li].order.size()) fail(std::string(opname) + ":content", std::string(opname) + ": resulting list does not hold the expected callbacks in order");
	}

	template <bool S = Cfg::structural>
	typename std::enable_if<S>::type doStructural(OpKind k) {
		typedef typename Cfg::L L;
		int a = (int)rng.below((uint32_t)nl), b = (int)rng.below((uint32_t)nl);
		if(k == OP_COPY_ASSIGN || k == OP_SWAP) { if(rng.chance(1, 6)) b = a; }
		else if(k != OP_RECREATE && a == b) { if(nl < 2) return; b = (a + 1) % nl; }
		if(! idle(a)) return;                     // never replace / swap a list that is being invoked
		if((k == OP_MOVE_CTOR || k == OP_MOVE_ASSIGN || k == OP_SWAP) && ! idle(b)) return;
		const unsigned pat = rng.below(5);
		std::string what = std::string(kOpName[k]) + " L" + num(a) + (k == OP_RECREATE ? "" : " <- L" + num(b));
		count((std::string("structural.") + kOpName[k]).c_str());
		if(a == b) count("structural.self");
		switch(k) {
		case OP_COPY_CTOR:
			store.destroy(a); clearModel(a); store.prefill(a, pat, rng);
			new (store.slots[a].buf) L(store.at(b)); store.alive[a] = true;
			cloneModel(a, b);
			log(what + " prefill=" + num(pat));
			harvest(a, "copy_ctor");
			break;
		case OP_COPY_ASSIGN:
			store.at(a) = store.at(b);
			if(a != b) { clearModel(a); cloneModel(a, b); }
			log(what);
			harvest(a, "copy_assign");
			break;
		case OP_MOVE_CTOR:
			store.destroy(a); clearModel(a); store.prefill(a, pat, rng);
			new (store.slots[a].buf) L(std::move(store.at(b))); store.alive[a] = true;
			lists[a].order.swap(lists[b].order);
			for(size_t i = 0; i < lists[a].order.size(); ++i) nodes[lists[a].order[i]].owner = a;
			log(what + " prefill=" + num(pat));
			break;
		case OP_MOVE_ASSIGN:
			store.at(a) = std::move(store.at(b));
			clearModel(a);
			lists[a].order.swap(lists[b].order);
			for(size_t i = 0; i < lists[a].order.size(); ++i) nodes[lists[a].order[i]].owner = a;
			log(what);
			break;
		case OP_SWAP:
			if(rng.chance(1, 2)) { using std::swap; swap(store.at(a), store.at(b)); }
			else store.at(a).swap(store.at(b));
			if(a != b) {
				lists[a].order.swap(lists[b].order);
				for(size_t i = 0; i < lists[a].order.size(); ++i) nodes[lists[a].order[i]].owner = a;
				for(size_t i = 0; i < lists[b].order.size(); ++i) nodes[lists[b].order[i]].owner = b;
			}
			log(what);
			break;
		case OP_RECREATE:
			store.destroy(a); clearModel(a); store.prefill(a, pat, rng);
			new (store.slots[a].buf) L(); store.alive[a] = true;
			log(what + " prefill=" + num(pat));
			count("containers_destroyed");
			break;
		default: break;
		}
	}
	template <bool S = Cfg::structural>
	typename std::enable_if<! S>::type doStructural(OpKind) {}

	void doSetCounter(int li) {
		typename Cfg::L * l = Cfg::peek(store, li);
		if(! l) return;
		static const unsigned ks[] = { 0, 1, 2, 3, 5, 8, 13, 40 };
		unsigned k = ks[rng.below(8)];
		unsigned v;
		uint32_t c = rng.below(10);
		if(c < 7) v = 0xFFFFFFFFu - k;
		else if(c < 8) v = 0x80000000u;
		else v = Access::counter(*l) + 1000 + k;
		if(v < Access::counter(*l)) return; // only forward jumps: equivalent to that many additions
		Access::setCounter(*l, v);
		count("wrap.counter_placed");
		if(! frames.empty()) count("wrap.counter_placed_in_callback");
		log("setcounter L" + num(li) + " = " + unum(v));
	}

	// ---------- one generated step (top level or nested)
	void step() {
		if(dead) return;
		const bool nested = ! frames.empty();
		int li;
		if(nested && rng.chance(3, 4)) li = frames.back().li;
		else li = (int)rng.below((uint32_t)nl);
		const bool full = (int)nodes.size() >= mode.maxNodes;
		uint32_t c = rng.below(100);
		if(mode.structural && c >= 88 && c < 97) {
			if(! nested) { doStructural((OpKind)(OP_COPY_CTOR + rng.below(6))); return; }
			if(Cfg::structural && rng.chance(1, 3)) { doStructural(rng.chance(1, 2) ? OP_COPY_CTOR : OP_COPY_ASSIGN); return; }
			c = rng.below(88);
		}
		if(mode.wrap && c >= 97) { doSetCounter(li); return; }
		if(c < 16 && ! full) doAdd(OP_APPEND, li);
		else if(c < 24 && ! full) doAdd(OP_PREPEND, li);
		else if(c < 38 && ! full) doAdd(OP_INSERT, li);
		else if(c < 58) doRemove(li);
		else if(c < 64) doOwns(li);
		else if(c < 67) doEmpty(li);
		else if(c < 69) doHasAny(li);
		else if(c < 73 && Cfg::hasEq) doHelper(rng.chance(1, 2) ? OP_HAS : OP_REMOVE_L, li);
		else if(c < 80 || (int)frames.size() >= mode.maxDepth + 1) { if((int)frames.size() <= mode.maxDepth) doForEach(li, rng.chance(1, 2)); else doOwns(li); }
		else doInvoke(li);
	}

	// ---------- quiescent checks (no invocation in progress)
	void quiescent() {
		if(dead) return;
		count("quiescent_checks");
		std::vector<NodeView> v;
		for(int li = 0; li < nl; ++li) {
			typename Cfg::L * l = Cfg::peek(store, li);
			const std::vector<int> & o = lists[li].order;
			if(! l) { if(! o.empty()) fail("structure:list-missing", "dispatcher has no list for a key that has listeners"); continue; }
			std::string err = Access::walk(*l, v);
			if(! err.empty()) { fail("structure:" + err, "L" + num(li) + ": " + err); return; }
			bool same = v.size() == o.size();
			for(size_t i = 0; same && i < o.size(); ++i) same = v[i].cbid == nodes[o[i]].cbid;
			if(! same) {
				std::string s = "real:";
				for(size_t i = 0; i < v.size(); ++i) s += " cb" + num(v[i].cbid);
				s += " model:";
				for(size_t i = 0; i < o.size(); ++i) s += " cb" + num(nodes[o[i]].cbid);
				fail("structure:content-differs-from-model", "L" + num(li) + " " + s);
				return;
			}
			countMax("max_list_length", o.size());
		}
		// C08: every live callback instance belongs to a live node; removed callbacks are released
		std::map<int, int> want;
		for(int li = 0; li < nl; ++li) for(size_t i = 0; i < lists[li].order.size(); ++i) ++want[nodes[lists[li].order[i]].cbid];
		long total = 0;
		for(std::map<int, int>::const_iterator it = want.begin(); it != want.end(); ++it) total += it->second;
		if(ledger().liveCount(K_CB) != total) {
			for(int id = 0; id < nextCb; ++id) {
				int w = want.count(id) ? want[id] : 0;
				int g = ledger().liveOf(K_CB, id);
				if(g != w) {
					fail(g > w ? "lifetime:callback-not-released" : "lifetime:callback-released-early", "cb" + num(id) + ": " + num(g) + " live instance(s), model says " + num(w));
					return;
				}
			}
			fail("lifetime:callback-count", "live callback instances " + num(ledger().liveCount(K_CB)) + ", model says " + num(total));
		}
		if(ledger().liveCount(K_PAYLOAD) != 0) fail("lifetime:payload-leaked", "argument payload instances alive outside any invocation");
	}

	void run(int nlWanted, int nops) {
		nl = nlWanted;
		store.init(nl, rng);
		lists.assign((size_t)nl, MList());
		invDepth.assign((size_t)nl, 0);
		callbackSink() = this;
		for(int i = 0; i < nops && ! dead; ++i) {
			budget = 40;
			step();
			if(frames.size() != 0 && ! dead) { fail("harness:frames-left", "frame stack not empty at top level"); break; }
			quiescent();
		}
		// final: drain every list through the API, then destroy
		if(! dead) {
			for(int li = 0; li < nl && ! dead; ++li) doForEach(li, false);
			for(int li = 0; li < nl && ! dead; ++li) doInvoke(li);
		}
		callbackSink() = nullptr;
	}
};

// ------------------------------------------------------------------ case runner
static uint64_t gTraceXor = 0;

template <typename Cfg>
static uint64_t runCfg(const Mode & mode, Rng & rng, uint64_t caseNo, int cfgIndex)
{
	ledger().resetCase();
	const int nops = rng.range(mode.minOps, mode.maxOps);
	int nl = Cfg::structural ? rng.range(mode.structural ? 2 : 1, mode.nlMax) : rng.range(1, 3);
	if(nl > 4) nl = 4;
	uint64_t h;
	bool nontrivial;
	{
		World<Cfg> w(mode, rng);
		oplog("config " + num(cfgIndex) + ": " + Cfg::name() + " lists=" + num(nl) + " ops=" + num(nops));
		w.run(nl, nops);
		h = w.trace.h;
		nontrivial = w.sawRemove && w.sawInvoke;
		count("nodes_created", w.nodes.size());
	}
	// container destroyed: everything it held must be gone
	if(! caseHasViolation()) {
		if(ledger().liveCount(K_CB) != 0) violation("lifetime:callback-leaked-after-destruction", num(ledger().liveCount(K_CB)) + " callback instance(s) alive after the lists were destroyed");
		if(ledger().liveCount(K_PAYLOAD) != 0) violation("lifetime:payload-leaked-after-destruction", "payload instances alive after the lists were destroyed");
	}
	count("ops", (uint64_t)nops);
	count((std::string("config.") + num(cfgIndex)).c_str());
	Fnv f; f.addu(h); f.addu((uint64_t)cfgIndex);
	if(nontrivial) markNontrivial(f.h);
	gTraceXor ^= mix(h, caseNo);
	if(wantSample() && nontrivial) addSample("{\"case\":" + unum(caseNo) + ",\"history\":" + oplogJson(ctx().oplog, 60) + "}");
	return h;
}

template <bool Enabled, typename Cfg>
static typename std::enable_if<Enabled>::type runCfgIf(const Mode & mode, Rng & rng, uint64_t caseNo, int cfgIndex) { runCfg<Cfg>(mode, rng, caseNo, cfgIndex); }
template <bool Enabled, typename Cfg>
static typename std::enable_if<! Enabled>::type runCfgIf(const Mode &, Rng &, uint64_t, int) {}
static void skipCase() { --ctx().casesRun; }

typedef CLCfg<ProtoInt, eventpp::DefaultPolicies, false> Cfg0;
typedef CLCfg<ProtoStrInt, PolSingle, false> Cfg1;
typedef CLCfg<ProtoPayRefIntRef, PolSpin, false> Cfg2;
typedef CLCfg<ProtoIntPayVal, PolCustomCb, true> Cfg3;
typedef CLCfg<ProtoInt, PolCustomCbMulti, true> Cfg4;
typedef EDCfg<eventpp::DefaultPolicies, false> Cfg5;
typedef EDCfg<PolUserMap, true> Cfg6;
typedef EDCfg<PolSingleOrdered, false> Cfg7;
struct PolSpinED { typedef eventpp::GeneralThreading<eventpp::SpinLock> Threading; };
typedef EDCfg<PolSpinED, false> Cfg8;
typedef CLCfg<ProtoStrValInt, PolCanContinueByValue, false> Cfg9;
enum { NCFG = 10 };

// C20: the SAME generated program under every member of a family that differs only in policies (threading, callback
// storage); the observable trace (operations, results, calls with arguments) must be identical
#ifndef VF_CFG_MASK
#define VF_CFG_MASK 0x6ff
#endif
#if (VF_CFG_MASK >> 8) & 1
struct PolCustomCbSpin { typedef TCallback Callback; typedef eventpp::GeneralThreading<eventpp::SpinLock> Threading; };
typedef CLCfg<ProtoInt, eventpp::DefaultPolicies, false> Fam0;
typedef CLCfg<ProtoInt, PolSingle, false> Fam1;
typedef CLCfg<ProtoInt, PolSpin, false> Fam2;
typedef CLCfg<ProtoInt, PolCustomCb, false> Fam3;
typedef CLCfg<ProtoInt, PolCustomCbSpin, false> Fam4;
static void runFamily(const Mode & mode, uint64_t caseNo)
{
	const uint64_t seed = ctx().curSeed;
	uint64_t h[5];
	{ Rng r(seed); h[0] = runCfg<Fam0>(mode, r, caseNo, 100); }
	{ Rng r(seed); h[1] = runCfg<Fam1>(mode, r, caseNo, 101); }
	{ Rng r(seed); h[2] = runCfg<Fam2>(mode, r, caseNo, 102); }
	{ Rng r(seed); h[3] = runCfg<Fam3>(mode, r, caseNo, 103); }
	{ Rng r(seed); h[4] = runCfg<Fam4>(mode, r, caseNo, 104); }
	static const char * names[] = { "default(std::mutex,std::function)", "SingleThreading", "SpinLock", "custom-callback+SingleThreading", "custom-callback+SpinLock" };
	for(int i = 1; i < 5 && ! caseHasViolation(); ++i)
		if(h[i] != h[0]) violation(std::string("c20:trace-differs-between-policies:") + names[i], std::string("the same generated program produced a different observable trace under ") + names[i] + " than under " + names[0]);
	count("family_programs");
	count("family_runs", 5);
}
#else
static void runFamily(const Mode &, uint64_t) { --ctx().casesRun; }
#endif

static void runCase(uint64_t caseNo, Rng & rng)
{
	static Mode mode = modeOf(ctx().mode);
	if(ctx().mode == "c20") { runFamily(mode, caseNo); return; }
	long long only = ctx().optInt("cfg", -1);
	int cfg = only >= 0 ? (int)only : (int)(caseNo % NCFG);
	// c20: the same program (same seed) under every configuration of its family is handled by the driver
	// running this binary once per --opt cfg=N with the same seed; nothing special here.
	// VF_CFG_MASK: build only a subset of the configurations (parallel compilation); other cases are skipped
#define VF_CFG(n) case n: if((VF_CFG_MASK >> n) & 1) { runCfgIf<((VF_CFG_MASK >> n) & 1) != 0, Cfg##n>(mode, rng, caseNo, n); } else { skipCase(); } break;
	switch(cfg) {
	VF_CFG(0) VF_CFG(1) VF_CFG(2) VF_CFG(3) VF_CFG(4) VF_CFG(5) VF_CFG(6) VF_CFG(7)
	case 8: if((VF_CFG_MASK >> 9) & 1) { runCfgIf<((VF_CFG_MASK >> 9) & 1) != 0, Cfg8>(mode, rng, caseNo, 8); } else { skipCase(); } break; // bit 8 is the C20 family
	case 9: if((VF_CFG_MASK >> 10) & 1) { runCfgIf<((VF_CFG_MASK >> 10) & 1) != 0, Cfg9>(mode, rng, caseNo, 9); } else { skipCase(); } break;
	default: skipCase(); break;
	}
}

int main(int argc, char ** argv)
{
	return runMain(argc, argv, runCase, []() {
		ctx().counters["trace_xor_lo"] = gTraceXor & 0xffffffffu;
		ctx().counters["trace_xor_hi"] = gTraceXor >> 32;
		ctx().counters["cb.constructed"] = (uint64_t)ledger().constructed[K_CB].load();
		ctx().counters["cb.copied"] = (uint64_t)ledger().copied[K_CB].load();
		ctx().counters["cb.destroyed"] = (uint64_t)ledger().destroyed[K_CB].load();
	});
}
