// lincheck.h - Wing-Gong linearizability search with Lowe's memoisation, specialised to the list model M-list (C03).
#ifndef VF_LINCHECK_H
#define VF_LINCHECK_H

#include "vcommon.h"
#include <algorithm>
#include <chrono>
#include <unordered_set>
#include <vector>

namespace vf {

enum LinOpKind { LO_APPEND, LO_PREPEND, LO_INSERT, LO_REMOVE, LO_OWNS, LO_EMPTY, LO_FINAL };
static const char * const kLinOpName[] = { "append", "prepend", "insert", "remove", "ownsHandle", "empty", "final-enumeration" };

struct LinOp
{
	int thread, kind;
	int uid;      // append/prepend/insert: the new node; remove/owns: the handle's node
	int before;   // insert: the node named by `before` (-1: empty handle)
	int result;   // remove/owns/empty: boolean result
	uint64_t tc, tr;
	std::vector<int> finalOrder; // LO_FINAL
	std::string str() const {
		std::string s = "T" + num(thread) + " " + kLinOpName[kind];
		if(kind <= LO_INSERT) s += " u" + num(uid);
		if(kind == LO_INSERT) s += " before u" + num(before);
		if(kind == LO_REMOVE || kind == LO_OWNS) s += " u" + num(uid) + " -> " + num(result);
		if(kind == LO_EMPTY) s += " -> " + num(result);
		if(kind == LO_FINAL) { s += ":"; for(size_t i = 0; i < finalOrder.size(); ++i) s += " u" + num(finalOrder[i]); }
		return s + " [" + unum(tc) + "," + unum(tr) + "]";
	}
};

struct LinResult { bool ok; bool timedOut; uint64_t nodes; std::vector<int> witness; };

struct LinChecker
{
	const std::vector<LinOp> & ops;
	std::vector<int> state; // model list
	std::unordered_set<uint64_t> failed;
	std::vector<int> chosen;
	uint64_t nodes;
	std::chrono::steady_clock::time_point deadline;
	bool timedOut;

	LinChecker(const std::vector<LinOp> & o, const std::vector<int> & initial) : ops(o), state(initial), nodes(0), timedOut(false) {}

	static uint64_t hashState(const std::vector<int> & s, uint64_t mask) {
		Fnv f; f.addu(mask);
		for(size_t i = 0; i < s.size(); ++i) f.addu((uint64_t)s[i] + 1);
		return f.h;
	}
	bool inList(int uid) const { return uid >= 0 && std::find(state.begin(), state.end(), uid) != state.end(); }

	// apply op to `state` if its recorded result is what the model produces; returns false if not
	bool apply(const LinOp & o) {
		switch(o.kind) {
		case LO_APPEND: state.push_back(o.uid); return true;
		case LO_PREPEND: state.insert(state.begin(), o.uid); return true;
		case LO_INSERT: {
			std::vector<int>::iterator it = o.before >= 0 ? std::find(state.begin(), state.end(), o.before) : state.end();
			state.insert(it, o.uid); // before it, or at the back when `before` is not in the list
			return true; }
		case LO_REMOVE: {
			std::vector<int>::iterator it = o.uid >= 0 ? std::find(state.begin(), state.end(), o.uid) : state.end();
			const bool present = it != state.end();
			if((int)present != o.result) return false;
			if(present) state.erase(it);
			return true; }
		case LO_OWNS: return (int)inList(o.uid) == o.result;
		case LO_EMPTY: return (int)state.empty() == o.result;
		default: return state == o.finalOrder;
		}
	}

	bool search(uint64_t mask) {
		const size_t n = ops.size();
		if(mask == ((n >= 64) ? ~0ULL : ((1ULL << n) - 1))) return true;
		if((++nodes & 1023) == 0 && std::chrono::steady_clock::now() > deadline) { timedOut = true; return false; }
		const uint64_t key = hashState(state, mask);
		if(failed.count(key)) return false;
		// minimal elements of the remaining operations under real-time order
		uint64_t minRet = ~0ULL;
		for(size_t i = 0; i < n; ++i) if(!(mask >> i & 1) && ops[i].tr < minRet) minRet = ops[i].tr;
		for(size_t i = 0; i < n; ++i) {
			if(mask >> i & 1) continue;
			if(ops[i].tc > minRet) continue; // some unlinearised operation returned before this one was called
			std::vector<int> saved = state;
			if(apply(ops[i])) {
				chosen.push_back((int)i);
				if(search(mask | (1ULL << i))) return true;
				chosen.pop_back();
				if(timedOut) return false;
			}
			state.swap(saved);
		}
		failed.insert(key);
		return false;
	}

	LinResult run(int timeoutMs) {
		LinResult r; r.ok = false; r.timedOut = false; r.nodes = 0;
		if(ops.size() > 63) { r.timedOut = true; return r; }
		deadline = std::chrono::steady_clock::now() + std::chrono::milliseconds(timeoutMs);
		r.ok = search(0);
		r.timedOut = timedOut;
		r.nodes = nodes;
		r.witness = chosen;
		return r;
	}
};

} // namespace vf

#endif
