// drv_heter.cpp - online monitor of HeterCallbackList / HeterEventDispatcher /
// HeterEventQueue (property C14: route by prototype, never confuse stored types).
// C++17 (variants asan17 / clang-asan17 / plain17).
//
// One control flow.  The model is "per (key, prototype index) M-list + one FIFO
// of tagged events" (DESIGN §4).  The prototype index every callable / every
// argument list must be routed to is computed here, independently of the
// library's FindPrototypeBy*, by a std::is_invocable fold over the prototype
// list (struct Fold).  Every listener functor and every predicate reports to the
// World (HSink) which checks the call against the model at once:
//   * direct invoke / dispatch: exactly the listeners of (key, first prototype
//     callable with the argument types), in order, once each, same arguments;
//   * process / processOne: the batch in FIFO order, each event to the listeners
//     of its (key, prototype), arguments intact;
//   * processIf: the predicate only sees queued events of prototypes it is
//     callable with, per prototype in queue order; events it accepts are
//     dispatched once to the right listeners, all others stay queued, intact, in
//     their original order ahead of newer events (checked when they are consumed
//     later and by the final drain); result true iff something was dispatched.
// Every event carries its unique id inside its payload (int value, string
// content, vector content, TPayload id) so that each call identifies the event.
//
// modes (--mode): all (default) | pif (processIf heavy, many declining predicates)
//                 | route (listener management / direct dispatch heavy)
// options (--opt): cfg=N (force configuration N), nopif=1 (never call processIf),
//                  nomulti=1 (only predicates callable with exactly one prototype),
//                  live=1 (print every op-log line to stderr at once: witness of a case that ends in a sanitizer abort)
//
// build: 9 configurations (case n runs configuration n % 9); one configuration per
// binary (-DVF_CFG_MASK=0x1, 0x2, ... 0x100) keeps every compilation under a minute
// (asan17: ~35 s list / dispatcher, ~45 s queue configurations).
//
// non-trivial case (marked with the hash of its trace):
//   queue configurations: events of >= 3 different prototypes were enqueued AND a
//     processIf ran while the queue held both events of a prototype its predicate is
//     callable with and events of a prototype it is not callable with AND a recycled
//     slot received an event of another kind than it held before AND >= 1 listener
//     call was observed;
//   list / dispatcher configurations: listeners bound to >= 3 different prototypes AND
//     >= 1 callable accepted by several prototypes was added AND >= 1 invocation
//     reached a listener AND >= 1 successful remove.
#include "vcommon.h"
#include "vledger.h"
#include "vaccess.h"

#include <eventpp/hetercallbacklist.h>
#include <eventpp/hetereventdispatcher.h>
#include <eventpp/hetereventqueue.h>

#include <algorithm>
#include <deque>
#include <type_traits>

using namespace vf;
typedef eventpp_verif::Access Access;

// ------------------------------------------------------------------ payload types
typedef TPayloadA16T<200> Big; // its type asks for 16-byte alignment: the queue's raw slots must be placed suitably for every prototype
typedef TPayloadT<8> Small;

// implicitly constructible from int: void(IntBox) accepts an int argument, void(int) does not accept an IntBox
struct IntBox
{
	int v;
	int pad[3];
	IntBox(int x) : v(x) { pad[0] = x ^ 0x5a5a5a5a; pad[1] = x + 77; pad[2] = ~x; }
	bool ok() const { return pad[0] == (v ^ 0x5a5a5a5a) && pad[1] == v + 77 && pad[2] == ~v; }
};

enum Kind { KV = 0, KI, KSS, KVEC, KBIG, KPI, KBOX, NKINDS };
static const char * kKindName[] = { "V", "I", "SS", "VEC", "BIG", "PI", "BOX", "?" };

static std::string strA(int id) { return "e" + num(id) + ":" + std::string((size_t)(id * 7 % 61), (char)('a' + id % 26)); }
static std::string strB(int id) { return "b" + num(id) + std::string((size_t)(id * 13 % 37), 'z'); }
static std::vector<int> vecOf(int id) { std::vector<int> v; const int n = 1 + id % 9; for(int i = 0; i < n; ++i) v.push_back(id + i * i); return v; }
static long long hashVec(const std::vector<int> & v) { Fnv f; for(size_t i = 0; i < v.size(); ++i) f.addu((uint64_t)(unsigned)v[i]); return (long long)(f.h & 0x3fffffffffffLL); }

// ------------------------------------------------------------------ fingerprints
// shape: 0 none, 1 int-like, 2 string pair, 3 vector, 4 Big, 5 Small+int
struct Fp
{
	int shape;
	long long a, b, key;
	Fp() : shape(-1), a(0), b(0), key(-1) {}
	bool sameArgs(const Fp & o) const { return shape == o.shape && a == o.a && b == o.b; }
	std::string str() const { return "{" + num(shape) + ":" + num(a) + "," + num(b) + (key >= 0 ? " key=" + num(key) : std::string()) + "}"; }
};

inline void fpArgs(Fp & f) { f.shape = 0; }
inline void fpArgs(Fp & f, int v) { f.shape = 1; f.a = v; }
inline void fpArgs(Fp & f, long v) { f.shape = 1; f.a = v; }
inline void fpArgs(Fp & f, const IntBox & v) { f.shape = 1; f.a = v.ok() ? v.v : -999999; }
inline void fpArgs(Fp & f, const std::string & a, const std::string & b) { f.shape = 2; f.a = fpOf(a); f.b = fpOf(b); }
inline void fpArgs(Fp & f, const std::vector<int> & v) { f.shape = 3; f.a = hashVec(v); f.b = (long long)v.size(); }
inline void fpArgs(Fp & f, const Big & p) { f.shape = 4; f.a = fpOf(p); } // checks the address, then the content
inline void fpArgs(Fp & f, const Small & p, int v) { f.shape = 5; f.a = p.observe(); f.b = v; }
inline void fpArgs(Fp & f, const Small & p, long v) { f.shape = 5; f.a = p.observe(); f.b = v; }

inline long long keyFp() { return -1; }
inline long long keyFp(const int & k) { return k; }
inline long long keyFp(const std::string & k) { return fpOf(k); }

static Fp fpForEvent(int kind, int id)
{
	Fp f;
	switch(kind) {
	case KV: f.shape = 0; break;
	case KI: case KBOX: f.shape = 1; f.a = id; break;
	case KSS: f.shape = 2; f.a = fpOf(strA(id)); f.b = fpOf(strB(id)); break;
	case KVEC: { const std::vector<int> v = vecOf(id); f.shape = 3; f.a = hashVec(v); f.b = (long long)v.size(); break; }
	case KBIG: f.shape = 4; f.a = id; break;
	case KPI: f.shape = 5; f.a = id; f.b = id * 3 + 1; break;
	default: break;
	}
	return f;
}

// ------------------------------------------------------------------ the sink every functor reports to
struct HSink
{
	virtual void onHit(int lid, const Fp & fp) = 0;
	virtual bool onPred(const Fp & fp) = 0;
	virtual ~HSink() {}
};
static HSink * gSink = nullptr;

// ------------------------------------------------------------------ prototypes, listener functors, predicates
// Pre... = nothing (ArgumentPassingExcludeEvent, HeterCallbackList) or the event type (ArgumentPassingIncludeEvent)
template <typename ...Pre>
struct PT
{
	typedef void V(Pre...);
	typedef void I(Pre..., int);
	typedef void SS(Pre..., std::string, std::string);
	typedef void VEC(Pre..., std::vector<int>);
	typedef void BIG(Pre..., const Big &);
	typedef void PI(Pre..., Small, int);
	typedef void BOX(Pre..., IntBox);
};

struct LBase { int lid; };
struct PBase { int tag; };

template <typename ...Pre>
struct Fam
{
	static Fp mk(const Pre & ...pre) { Fp f; f.key = keyFp(pre...); return f; }

	// one functor type per prototype ...
	struct FV : LBase { void operator() (const Pre & ...pre) const { Fp f = mk(pre...); fpArgs(f); gSink->onHit(lid, f); } };
	struct FI : LBase { void operator() (const Pre & ...pre, int v) const { Fp f = mk(pre...); fpArgs(f, v); gSink->onHit(lid, f); } };
	struct FSS : LBase { void operator() (const Pre & ...pre, const std::string & a, const std::string & b) const { Fp f = mk(pre...); fpArgs(f, a, b); gSink->onHit(lid, f); } };
	struct FSSv : LBase { void operator() (Pre ...pre, std::string a, std::string b) const { Fp f = mk(pre...); fpArgs(f, a, b); gSink->onHit(lid, f); } };
	struct FVEC : LBase { void operator() (const Pre & ...pre, const std::vector<int> & v) const { Fp f = mk(pre...); fpArgs(f, v); gSink->onHit(lid, f); } };
	struct FVECv : LBase { void operator() (Pre ...pre, std::vector<int> v) const { Fp f = mk(pre...); fpArgs(f, v); gSink->onHit(lid, f); } };
	struct FBIG : LBase { void operator() (const Pre & ...pre, const Big & p) const { Fp f = mk(pre...); fpArgs(f, p); gSink->onHit(lid, f); } };
	struct FPI : LBase { void operator() (const Pre & ...pre, Small p, int v) const { Fp f = mk(pre...); fpArgs(f, p, v); gSink->onHit(lid, f); } };
	struct FPIr : LBase { void operator() (const Pre & ...pre, const Small & p, long v) const { Fp f = mk(pre...); fpArgs(f, p, v); gSink->onHit(lid, f); } };
	struct FBOX : LBase { void operator() (const Pre & ...pre, IntBox b) const { Fp f = mk(pre...); fpArgs(f, b); gSink->onHit(lid, f); } };
	// ... a functor that accepts int but not IntBox ...
	struct FL : LBase { void operator() (const Pre & ...pre, long v) const { Fp f = mk(pre...); fpArgs(f, v); gSink->onHit(lid, f); } };
	// ... and callables accepted by more than one prototype
	struct FOvVI : LBase {
		void operator() (const Pre & ...pre) const { Fp f = mk(pre...); fpArgs(f); gSink->onHit(lid, f); }
		void operator() (const Pre & ...pre, int v) const { Fp f = mk(pre...); fpArgs(f, v); gSink->onHit(lid, f); }
	};
	struct FOvSSVEC : LBase {
		void operator() (const Pre & ...pre, const std::string & a, const std::string & b) const { Fp f = mk(pre...); fpArgs(f, a, b); gSink->onHit(lid, f); }
		void operator() (const Pre & ...pre, const std::vector<int> & v) const { Fp f = mk(pre...); fpArgs(f, v); gSink->onHit(lid, f); }
	};
	struct FOvBoxBig : LBase { // accepts int (through IntBox), IntBox and Big
		void operator() (const Pre & ...pre, IntBox b) const { Fp f = mk(pre...); fpArgs(f, b); gSink->onHit(lid, f); }
		void operator() (const Pre & ...pre, const Big & p) const { Fp f = mk(pre...); fpArgs(f, p); gSink->onHit(lid, f); }
	};
	struct FGen : LBase { // accepts every prototype
		template <typename ...A> void operator() (const Pre & ...pre, A && ...a) const { Fp f = mk(pre...); fpArgs(f, a...); gSink->onHit(lid, f); }
	};

	// predicates for processIf
	struct PV : PBase { bool operator() (const Pre & ...pre) const { Fp f = mk(pre...); fpArgs(f); return gSink->onPred(f); } };
	struct PI_ : PBase { bool operator() (const Pre & ...pre, int v) const { Fp f = mk(pre...); fpArgs(f, v); return gSink->onPred(f); } };
	struct PL_ : PBase { bool operator() (const Pre & ...pre, long v) const { Fp f = mk(pre...); fpArgs(f, v); return gSink->onPred(f); } };
	struct PSS : PBase { bool operator() (const Pre & ...pre, const std::string & a, const std::string & b) const { Fp f = mk(pre...); fpArgs(f, a, b); return gSink->onPred(f); } };
	struct PVEC : PBase { bool operator() (const Pre & ...pre, const std::vector<int> & v) const { Fp f = mk(pre...); fpArgs(f, v); return gSink->onPred(f); } };
	struct PBIG : PBase { bool operator() (const Pre & ...pre, const Big & p) const { Fp f = mk(pre...); fpArgs(f, p); return gSink->onPred(f); } };
	struct PPI : PBase { bool operator() (const Pre & ...pre, const Small & p, int v) const { Fp f = mk(pre...); fpArgs(f, p, v); return gSink->onPred(f); } };
	struct PBOX : PBase { bool operator() (const Pre & ...pre, IntBox b) const { Fp f = mk(pre...); fpArgs(f, b); return gSink->onPred(f); } }; // I and BOX
	struct POvISS : PBase { // two prototypes
		bool operator() (const Pre & ...pre, int v) const { Fp f = mk(pre...); fpArgs(f, v); return gSink->onPred(f); }
		bool operator() (const Pre & ...pre, const std::string & a, const std::string & b) const { Fp f = mk(pre...); fpArgs(f, a, b); return gSink->onPred(f); }
	};
	struct POvVVecBig : PBase { // three prototypes
		bool operator() (const Pre & ...pre) const { Fp f = mk(pre...); fpArgs(f); return gSink->onPred(f); }
		bool operator() (const Pre & ...pre, const std::vector<int> & v) const { Fp f = mk(pre...); fpArgs(f, v); return gSink->onPred(f); }
		bool operator() (const Pre & ...pre, const Big & p) const { Fp f = mk(pre...); fpArgs(f, p); return gSink->onPred(f); }
	};
	struct PGen : PBase { // every prototype
		template <typename ...A> bool operator() (const Pre & ...pre, A && ...a) const { Fp f = mk(pre...); fpArgs(f, a...); return gSink->onPred(f); }
	};
};

enum { NFTYPES = 15 };
static const char * kFName[] = { "FV", "FI", "FSS", "FSSv", "FVEC", "FVECv", "FBIG", "FPI", "FPIr", "FBOX", "FL", "FOvVI", "FOvSSVEC", "FOvBoxBig", "FGen" };
enum { NPREDS = 11 };
static const char * kPName[] = { "PV", "PI", "PL", "PSS", "PVEC", "PBIG", "PPI", "PBOX", "POvISS", "POvVVecBig", "PGen" };

// ------------------------------------------------------------------ the independent routing rule
template <typename C, typename P> struct AcceptsProto;
template <typename C, typename R, typename ...A> struct AcceptsProto<C, R(A...)> { static const bool value = std::is_invocable<C, A...>::value; };
template <typename P, typename ...In> struct ProtoTakes;
template <typename R, typename ...A, typename ...In> struct ProtoTakes<R(A...), In...> { static const bool value = std::is_invocable<R (&)(A...), In...>::value; };

template <typename PL> struct Fold;
template <typename ...P>
struct Fold<eventpp::HeterTuple<P...> >
{
	enum { N = sizeof...(P) };
	static constexpr int firstOf(unsigned m) { for(int i = 0; i < (int)N; ++i) if((m >> i) & 1u) return i; return -1; }
	static constexpr int bits(unsigned m) { int n = 0; for(int i = 0; i < (int)N; ++i) if((m >> i) & 1u) ++n; return n; }
	template <typename C> static constexpr unsigned maskByCallable() {
		const bool m[] = { AcceptsProto<C, P>::value... };
		unsigned r = 0; for(int i = 0; i < (int)N; ++i) if(m[i]) r |= 1u << i; return r;
	}
	template <typename ...In> static constexpr unsigned maskByArgs() {
		const bool m[] = { ProtoTakes<P, In...>::value... };
		unsigned r = 0; for(int i = 0; i < (int)N; ++i) if(m[i]) r |= 1u << i; return r;
	}
};

// ------------------------------------------------------------------ configurations
template <int Order, typename T> struct OrderList;
template <typename T> struct OrderList<0, T> { typedef eventpp::HeterTuple<typename T::V, typename T::I, typename T::SS, typename T::VEC, typename T::BIG, typename T::PI, typename T::BOX> type; };
template <typename T> struct OrderList<1, T> { typedef eventpp::HeterTuple<typename T::PI, typename T::BIG, typename T::VEC, typename T::SS, typename T::BOX, typename T::I, typename T::V> type; };
template <typename T> struct OrderList<2, T> { typedef eventpp::HeterTuple<typename T::SS, typename T::I, typename T::BOX, typename T::V, typename T::PI, typename T::VEC, typename T::BIG> type; };

static const int CK_CL = 0, CK_ED = 1, CK_EQ = 2;
static const char * kContName[] = { "HeterCallbackList", "HeterEventDispatcher", "HeterEventQueue" };

template <typename Key> struct KeyGen;
template <> struct KeyGen<int> { static int make(int ki) { static const int k[] = { 3, 11, 42 }; return k[ki]; } static const char * name() { return "int"; }
	static long other(const int & k) { return (long)k; } }; // the event passed as another type that converts to the key type
template <> struct KeyGen<std::string> {
	static std::string make(int ki) { static const char * k[] = { "k0", "key-one-that-is-long-enough-to-live-on-the-heap-0123456789", "k2" }; return k[ki]; }
	static const char * name() { return "std::string"; }
	static const char * other(const std::string & k) { return k.c_str(); }
};

template <int Cont_, int Order_, bool Include_, typename Key_, typename Thr_, bool DefaultGetEvent_ = false>
struct Cfg
{
	static const int cont = Cont_;
	static const int order = Order_;
	static const bool include = Include_;
	static const bool hasQueue = Cont_ == CK_EQ;
	static const bool hasKey = Cont_ != CK_CL;
	typedef Key_ Key;
	typedef typename std::conditional<Include_, PT<Key_>, PT<> >::type P;
	typedef typename std::conditional<Include_, Fam<Key_>, Fam<> >::type F;
	typedef typename OrderList<Order_, P>::type PL;
	// exclude-event configurations use a getEvent policy that takes the listener arguments BY VALUE: the library must hand it
	// lvalues (copies), never forward the caller's rvalues into it - the listeners still need them intact
	struct NoGetEvent {};
	struct ByValueGetEvent { template <typename ...A> static Key_ getEvent(const Key_ & k, A...) { return k; } };
	struct Pol : std::conditional<Include_ || DefaultGetEvent_, NoGetEvent, ByValueGetEvent>::type // DefaultGetEvent_: exclude-event form WITHOUT a getEvent policy (the library's default takes the first argument)
	{
		typedef Thr_ Threading;
		typedef typename std::conditional<Include_, eventpp::ArgumentPassingIncludeEvent, eventpp::ArgumentPassingExcludeEvent>::type ArgumentPassingMode;
	};
	typedef typename std::conditional<Cont_ == CK_CL, eventpp::HeterCallbackList<PL, Pol>,
		typename std::conditional<Cont_ == CK_ED, eventpp::HeterEventDispatcher<Key_, PL, Pol>, eventpp::HeterEventQueue<Key_, PL, Pol> >::type>::type Obj;
	typedef typename Obj::Handle Handle;
	static std::string name() {
		return std::string(kContName[Cont_]) + " order=" + num(Order_) + (Include_ ? " include-event" : " exclude-event") + " key=" + KeyGen<Key_>::name()
			+ (std::is_same<Thr_, eventpp::SingleThreading>::value ? " single" : " multi") + (DefaultGetEvent_ ? " default getEvent" : "");
	}
};

// ------------------------------------------------------------------ modes
struct Mode
{
	int minOps, maxOps;
	int wEnq, wProc1, wProc, wPif, wClear, wEmptyQ, wLis, wFire, wEnum; // weights (queue configurations)
	int pNested;   // % of callbacks / predicate calls that enqueue from inside
	int pDecline;  // % of processIf calls whose predicate declines everything
	bool noPif, noMulti, live;
};
static Mode modeOf(const std::string & m)
{
	Mode r;
	r.minOps = 50; r.maxOps = 200;
	r.wEnq = 44; r.wProc1 = 8; r.wProc = 5; r.wPif = 15; r.wClear = 1; r.wEmptyQ = 3; r.wLis = 14; r.wFire = 6; r.wEnum = 3;
	r.pNested = 12; r.pDecline = 25;
	if(m == "pif") { r.wPif = 26; r.wProc = 3; r.wProc1 = 5; r.wLis = 10; r.wFire = 3; r.wEnq = 46; r.wEnum = 2; r.pDecline = 45; }
	else if(m == "route") { r.wLis = 30; r.wFire = 16; r.wEnum = 8; r.wEnq = 26; r.wPif = 8; r.wProc1 = 4; r.wProc = 3; }
	r.noPif = ctx().optInt("nopif", 0) != 0;
	r.noMulti = ctx().optInt("nomulti", 0) != 0;
	r.live = ctx().optInt("live", 0) != 0;
	return r;
}

// ------------------------------------------------------------------ the world: model + monitor (not a template: compiled once)
struct GH { int index; std::weak_ptr<void> wp; GH() : index(0) {} GH(int i, const std::weak_ptr<void> & w) : index(i), wp(w) {} };
struct MLis { int ki, idx, ft; bool live; unsigned mask; };
struct MEv { int id, kind, idx, ki, state, slot; bool keyTemp; Fp fp; }; // state: 0 queued, 1 dispatched, 2 cleared, 3 direct
struct Exp { int lid, ev; };
struct AddPlan { int ki, ft, lid, idx, how, before; unsigned mask; GH hb; std::string what; };

static int firstOf(unsigned m) { for(int i = 0; i < 32; ++i) if((m >> i) & 1u) return i; return -1; }
static int bitsOf(unsigned m) { int n = 0; for(int i = 0; i < 32; ++i) if((m >> i) & 1u) ++n; return n; }

struct WorldBase : HSink
{
	enum { NP = 7 };
	const int cont;
	const bool include, hasQueue, hasKey;
	const int NK;
	Mode mode;
	Rng & rng;
	long long keyFps[3];

	std::vector<MLis> lis;
	std::vector<GH> rh;
	std::vector<int> lists[3][NP];
	std::vector<int> removed;

	std::vector<MEv> events;
	std::deque<int> pending;     // indices into events, FIFO
	std::deque<Exp> expectQ;
	const char * curOp;
	int lastEv;

	// processIf in progress
	bool pifActive;
	unsigned pifMask;
	int pifCursor[NP];
	int pifApproved, pifExamined, pifPolicy, pifOwn;
	std::vector<int> pifSlots;
	int pifFirstAccepted; // lowest prototype index of which the predicate accepted an event in this call (INT_MAX: none)
	std::vector<int> pifInitial; // the queued events of callable prototypes when processIf began: each must be shown to the predicate

	// slot model (evidence only)
	std::vector<int> slotKind;
	std::deque<int> freeSlots;
	bool slotModelOk;

	// enumeration in progress
	bool enumActive;
	std::vector<int> enumExpect;
	size_t enumPos;
	int enumIdx, enumStopAfter, enumVisited, enumKi;
	bool enumStopped, enumWithIf;
	int enumHandleLid;
	GH enumHandle;

	int nestedBudget;
	Fnv trace;
	bool dead;

	// non-triviality
	unsigned protoEnqueued, protoBound;
	bool sawPifMixed, sawSlotChange, sawListenerCall, sawRemove, sawMultiBind, sawInvokeHit;

	// ---- the library side (World<C>)
	virtual void vAdd(int ki, int ft) = 0;
	virtual bool vRemove(int ki, const GH & h) = 0;
	virtual bool vEmpty(int ki, bool & asBool) = 0;
	virtual void vEnum(int ki, int proto) = 0;
	virtual void vGen(bool enq, int ki, bool inside) = 0;
	virtual bool vProcess(bool one) = 0;
	virtual void vProcessIf(int pt) = 0;
	virtual void vClear() = 0;
	virtual bool vEmptyQueue() = 0;
	virtual size_t vQueueSize() = 0;
	virtual size_t vFreeSize() = 0;
	virtual std::string vCheckSlots() = 0;

	WorldBase(int cont_, bool include_, const Mode & m, Rng & r) : cont(cont_), include(include_), hasQueue(cont_ == CK_EQ), hasKey(cont_ != CK_CL), NK(cont_ != CK_CL ? 3 : 1),
		mode(m), rng(r), curOp("idle"), lastEv(-1), pifActive(false), pifMask(0), pifApproved(0), pifExamined(0), pifPolicy(0), pifOwn(0),
		slotModelOk(true), enumActive(false), enumPos(0), enumIdx(-1), enumStopAfter(0), enumVisited(0), enumKi(0), enumStopped(false), enumWithIf(false), enumHandleLid(-1),
		nestedBudget(0), dead(false), protoEnqueued(0), protoBound(0), sawPifMixed(false), sawSlotChange(false), sawListenerCall(false), sawRemove(false),
		sawMultiBind(false), sawInvokeHit(false)
	{
		for(int i = 0; i < 3; ++i) keyFps[i] = -1;
		for(int i = 0; i < (int)NP; ++i) pifCursor[i] = -1;
	}

	void log(const std::string & s) { oplog(s); trace.add(s); if(mode.live) fprintf(stderr, "  | %s\n", s.c_str()); }
	void fail(const std::string & key, const std::string & desc) {
		violation(key, desc);
		oplog("!! " + key + " :: " + desc);
		dead = true;
	}
	std::string kstr(int ki) const { return hasKey ? "K" + num(ki) : std::string("-"); }
	static std::string hex(unsigned m) { char b[16]; snprintf(b, sizeof b, "0x%x", m); return b; }

	// ---------------------------------------------------------------- listeners
	int liveCount(int ki) const { int n = 0; for(int i = 0; i < (int)NP; ++i) n += (int)lists[ki][i].size(); return n; }
	int pickLive(int ki) {
		const int n = liveCount(ki);
		if(n == 0) return -1;
		int k = (int)rng.below((uint32_t)n);
		for(int i = 0; i < (int)NP; ++i) { if(k < (int)lists[ki][i].size()) return lists[ki][i][(size_t)k]; k -= (int)lists[ki][i].size(); }
		return -1;
	}
	// listener whose handle is used: live in this key, removed from this key, or none (value-initialised handle)
	int pickHandle(int ki) {
		const uint32_t c = rng.below(100);
		if(c < 62) return pickLive(ki);
		if(c < 85) {
			std::vector<int> cand;
			for(size_t i = 0; i < removed.size(); ++i) if(lis[(size_t)removed[i]].ki == ki) cand.push_back(removed[i]);
			if(! cand.empty()) return cand[rng.below((uint32_t)cand.size())];
		}
		return -1;
	}
	GH handleOf(int lid) const { return lid < 0 ? GH() : rh[(size_t)lid]; }
	std::string hstate(int lid, int idx) const {
		if(lid < 0) return "none";
		const MLis & l = lis[(size_t)lid];
		return std::string(l.live ? "live" : "removed") + (idx < 0 ? "" : (l.idx == idx ? "-same-prototype" : "-other-prototype"));
	}

	// hows: bit set of the operations compiled for this functor type (1 append, 2 prepend, 4 insert)
	AddPlan beginAdd(int ki, int ft, unsigned mask, unsigned hows) {
		AddPlan p;
		p.ki = ki; p.ft = ft; p.mask = mask; p.idx = firstOf(mask); p.lid = (int)lis.size(); p.before = -1;
		do { p.how = (int)rng.below(3); } while(! ((hows >> p.how) & 1u));
		if(p.how == 2) p.before = pickHandle(ki);
		p.what = std::string(p.how == 0 ? "append " : p.how == 1 ? "prepend " : "insert ") + kstr(ki) + " " + kFName[ft] + " accepts=" + hex(mask) + " -> P" + num(p.idx);
		if(p.how == 2) p.what += " before l" + num(p.before) + "(" + hstate(p.before, p.idx) + ")";
		log(p.what + " = l" + num(p.lid));
		p.hb = handleOf(p.before);
		return p;
	}
	void endAdd(const AddPlan & p, const GH & h) {
		MLis l; l.ki = p.ki; l.idx = p.idx; l.ft = p.ft; l.live = true; l.mask = p.mask;
		lis.push_back(l); rh.push_back(h);
		std::vector<int> & o = lists[p.ki][p.idx];
		if(p.how == 0) o.push_back(p.lid);
		else if(p.how == 1) o.insert(o.begin(), p.lid);
		else {
			if(p.before >= 0 && lis[(size_t)p.before].live && lis[(size_t)p.before].idx == p.idx) o.insert(std::find(o.begin(), o.end(), p.before), p.lid);
			else o.push_back(p.lid);
		}
		count(p.how == 0 ? "op.append" : p.how == 1 ? "op.prepend" : "op.insert");
		if(p.how == 2) count(("insert.before=" + hstate(p.before, p.idx)).c_str());
		if(bitsOf(p.mask) > 1) { count("bind.callable_accepted_by_several_prototypes"); sawMultiBind = true; }
		protoBound |= 1u << p.idx;
		if(h.index != p.idx) fail("add:handle-index:" + std::string(kFName[p.ft]), p.what + ": returned handle names prototype " + num(h.index) + ", rule says " + num(p.idx));
		else if(h.wp.expired()) fail("add:returned-dead-handle", p.what + " returned an expired handle");
	}

	void mRemove(int lid) {
		MLis & l = lis[(size_t)lid];
		std::vector<int> & o = lists[l.ki][l.idx];
		o.erase(std::find(o.begin(), o.end(), lid));
		l.live = false;
		removed.push_back(lid);
	}
	void doRemoveWith(int ki, int lid, const GH & h, const char * via) {
		const bool expect = lid >= 0 && lis[(size_t)lid].live;
		const std::string st = hstate(lid, -1);
		log(std::string("remove ") + kstr(ki) + " l" + num(lid) + "(" + st + ")" + via);
		const bool got = vRemove(ki, h);
		if(expect) { mRemove(lid); sawRemove = true; }
		log("  -> " + num(got));
		count("op.remove");
		if(got != expect) fail("remove:result:handle=" + st, "remove returned " + num(got) + ", model says " + num(expect));
	}
	void doRemove(int ki) { const int lid = pickHandle(ki); doRemoveWith(ki, lid, handleOf(lid), ""); }

	void doEmpty(int ki) {
		const bool expect = liveCount(ki) == 0;
		bool asBool = false;
		const bool got = vEmpty(ki, asBool);
		log("empty " + kstr(ki) + " -> " + num(got));
		count("op.empty");
		if(asBool == got) fail("empty:operator-bool-disagrees", "empty() and operator bool disagree");
		else if(got != expect) fail("empty:result", "empty/hasAnyListener says empty=" + num(got) + ", model says " + num(expect));
	}

	// ---------------------------------------------------------------- enumeration
	bool onVisit(int lid, bool hasHandle, const GH & h) {
		if(dead) return true;
		if(! enumActive) { fail("forEach:function-called-outside-enumeration", "enumeration function called while no enumeration is in progress"); return true; }
		if(enumStopped) { fail("forEachIf:continued-after-stop", "l" + num(lid) + " visited after the function returned false"); return true; }
		log("  visit l" + num(lid));
		count("enum_visits");
		if(enumPos >= enumExpect.size() || enumExpect[enumPos] != lid) {
			std::string cls = "unknown-callback";
			if(lid >= 0 && lid < (int)lis.size()) {
				const MLis & l = lis[(size_t)lid];
				cls = ! l.live ? "removed-callback" : l.idx != enumIdx ? "callback-bound-to-other-prototype" : "out-of-order-or-twice";
			}
			fail("forEach:visited:" + cls, "enumeration of prototype " + num(enumIdx) + " visited l" + num(lid) + ", model expected "
				+ (enumPos < enumExpect.size() ? "l" + num(enumExpect[enumPos]) : std::string("no further callback")));
			return true;
		}
		++enumPos;
		if(hasHandle) {
			if(h.index != enumIdx) { fail("forEach:handle-index", "enumeration passed a handle naming prototype " + num(h.index) + " for a callback of prototype " + num(enumIdx)); return true; }
			if(enumHandleLid < 0 || rng.chance(1, 3)) { enumHandleLid = lid; enumHandle = h; }
		}
		++enumVisited;
		if(enumStopAfter > 0 && enumVisited == enumStopAfter) { enumStopped = true; log("  (function returns false)"); return false; }
		return true;
	}
	// returns whether forEachIf is used; forEach passes (handle, callback) iff odd, forEachIf iff ! odd
	bool beginEnum(int ki, int idx, const char * pname, bool odd) {
		const bool withIf = rng.chance(1, 2), two = withIf ? ! odd : odd;
		enumActive = true; enumExpect = lists[ki][idx]; enumPos = 0; enumIdx = idx; enumVisited = 0; enumStopped = false; enumHandleLid = -1; enumKi = ki; enumWithIf = withIf;
		enumStopAfter = (withIf && rng.chance(1, 2)) ? (int)rng.below((uint32_t)enumExpect.size() + 2) : 0;
		log(std::string(withIf ? "forEachIf<" : "forEach<") + pname + "> " + kstr(ki) + " -> P" + num(idx) + (two ? " (handle,callback)" : " (callback)")
			+ (withIf ? " stopAfter=" + num(enumStopAfter) : std::string()));
		return withIf;
	}
	void endEnum(bool r) {
		enumActive = false;
		count(enumWithIf ? "op.forEachIf" : "op.forEach");
		log("  -> " + num(r));
		if(dead) return;
		if(! enumStopped && enumPos != enumExpect.size()) { fail("forEach:missed-callback", "enumeration of prototype " + num(enumIdx) + " ended after " + num((long long)enumPos) + " of " + num((long long)enumExpect.size()) + " callbacks"); return; }
		if(enumWithIf && r != ! enumStopped) { fail("forEachIf:result", "forEachIf returned " + num(r) + " but the function " + (enumStopped ? "stopped it" : "never returned false")); return; }
		// a handle obtained from the enumeration must denote the visited callback
		if(enumHandleLid >= 0 && rng.chance(1, 3)) doRemoveWith(enumKi, enumHandleLid, enumHandle, " (handle from forEach)");
		enumHandle = GH();
	}

	// ---------------------------------------------------------------- events
	std::string evClass(const MEv & e) const { return hasKey ? (e.keyTemp ? ":event-key=temporary" : ":event-key=lvalue") : std::string(); }
	std::string evStr(const MEv & e) const { return "e" + num(e.id) + " (" + kKindName[e.kind] + ", P" + num(e.idx) + ", " + kstr(e.ki) + (e.keyTemp ? " passed as a temporary" : "") + ")"; }
	void failMissed(const std::string & op) {
		const MEv & e = events[(size_t)expectQ.front().ev];
		fail(op + ":missed-listener-call" + evClass(e), op + " returned without calling l" + num(expectQ.front().lid) + " for " + evStr(e));
	}
	void pushExpect(int ev) {
		const MEv & e = events[(size_t)ev];
		const std::vector<int> & o = lists[e.ki][e.idx];
		for(size_t i = 0; i < o.size(); ++i) { Exp x; x.lid = o[i]; x.ev = ev; expectQ.push_back(x); }
		if(o.empty()) count("events.consumed_without_listener"); else count("events.consumed_observed");
	}

	// HSink: a listener functor was really called by the library
	void onHit(int lid, const Fp & fp) override {
		if(dead) return;
		count("listener_calls");
		if(enumActive) { fail("forEach:callback-invoked-by-enumeration", "l" + num(lid) + " invoked during an enumeration"); return; }
		if(expectQ.empty()) {
			std::string cls = "no-call-expected";
			if(lastEv >= 0 && lid >= 0 && lid < (int)lis.size()) {
				const MLis & l = lis[(size_t)lid]; const MEv & e = events[(size_t)lastEv];
				if(! l.live) cls = "removed-listener";
				else if(l.idx != e.idx) cls = "listener-bound-to-other-prototype";
				else if(l.ki != e.ki) cls = "listener-of-other-event";
			}
			fail(std::string(curOp) + ":unexpected-listener-call:" + cls, "l" + num(lid) + " called with " + fp.str() + " while the model expects no call");
			return;
		}
		const Exp x = expectQ.front();
		const MEv & e = events[(size_t)x.ev];
		if(x.lid != lid) {
			// the call belongs to a later event of the batch: the listeners of the events in between were skipped
			for(size_t j = 1; j < expectQ.size(); ++j) {
				const MEv & e2 = events[(size_t)expectQ[j].ev];
				if(expectQ[j].ev == x.ev || expectQ[j].lid != lid || ! fp.sameArgs(e2.fp) || (include && fp.key != e2.fp.key) || expectQ[j - 1].ev == expectQ[j].ev) continue;
				fail(std::string(curOp) + ":event-not-delivered-to-its-listeners" + evClass(e), "l" + num(x.lid) + " was not called for " + evStr(e) + "; the next call is l" + num(lid) + " for " + evStr(e2));
				return;
			}
			std::string cls = "unknown-listener";
			if(lid >= 0 && lid < (int)lis.size()) {
				const MLis & l = lis[(size_t)lid];
				cls = ! l.live ? "removed-listener" : l.idx != e.idx ? "listener-bound-to-other-prototype" : l.ki != e.ki ? "listener-of-other-event" : "out-of-order-or-twice";
			}
			fail(std::string(curOp) + ":wrong-listener:" + cls, "l" + num(lid) + " called with " + fp.str() + "; model expected l" + num(x.lid) + " for event e" + num(e.id)
				+ " (" + kKindName[e.kind] + ", P" + num(e.idx) + ", " + kstr(e.ki) + ")");
			return;
		}
		expectQ.pop_front();
		log("  call l" + num(lid) + " e" + num(e.id) + " " + fp.str());
		sawListenerCall = true;
		if(! fp.sameArgs(e.fp)) { fail(std::string(curOp) + ":arguments:" + kKindName[e.kind], "l" + num(lid) + " received " + fp.str() + " for event e" + num(e.id) + ", model says " + e.fp.str()); return; }
		if(include && fp.key != e.fp.key) { fail(std::string(curOp) + ":event-argument", "l" + num(lid) + " received event key " + num(fp.key) + " for e" + num(e.id) + ", model says " + num(e.fp.key)); return; }
		nested();
	}

	// HSink: the processIf predicate was really called by the library
	bool onPred(const Fp & fp) override {
		if(dead) return false;
		count("processIf.predicate_calls");
		if(! pifActive) { fail("processIf:predicate-called-outside-processIf", "predicate called with " + fp.str() + " while no processIf is in progress"); return false; }
		int found = -1; size_t pos = 0;
		if(fp.shape == 0) {
			// events without arguments carry no id: the next one (per prototype, in queue order) not yet examined
			for(size_t i = 0; i < pending.size(); ++i) {
				const MEv & e = events[(size_t)pending[i]];
				if(e.fp.shape != 0 || ! ((pifMask >> e.idx) & 1u)) continue;
				if(include && e.fp.key != fp.key) continue;
				if(pending[i] <= pifCursor[e.idx]) continue;
				found = pending[i]; pos = i; break;
			}
			if(found < 0) {
				fail("processIf:predicate-invoked-without-matching-queued-event:no-arguments", "predicate called with " + fp.str() + " but there is no unexamined queued event without arguments of a prototype it is callable with");
				return false;
			}
		}
		else {
			for(size_t i = 0; i < pending.size(); ++i) {
				const MEv & e = events[(size_t)pending[i]];
				if(e.fp.sameArgs(fp)) { found = pending[i]; pos = i; break; }
			}
			if(found < 0) {
				std::string cls = "arguments-match-no-event";
				for(size_t i = 0; i < events.size(); ++i) if(events[i].fp.sameArgs(fp) && events[i].state != 0) { cls = "event-already-consumed"; break; }
				fail("processIf:predicate-invoked-without-matching-queued-event:" + cls, "predicate called with " + fp.str() + " which is not the content of any queued event");
				return false;
			}
			const MEv & e = events[(size_t)found];
			if(! ((pifMask >> e.idx) & 1u)) {
				fail("processIf:examined-event-of-foreign-prototype", "predicate (callable with prototypes " + hex(pifMask) + ") was passed event e" + num(e.id) + " of prototype " + num(e.idx));
				return false;
			}
			if(include && e.fp.key != fp.key) { fail("processIf:event-argument", "predicate received event key " + num(fp.key) + " for e" + num(e.id) + ", model says " + num(e.fp.key)); return false; }
			if(found <= pifCursor[e.idx]) { fail("processIf:examined-out-of-queue-order-or-twice", "predicate was passed e" + num(e.id) + " after a later event of the same prototype"); return false; }
		}
		MEv & e = events[(size_t)found];
		pifCursor[e.idx] = found;
		++pifExamined;
		bool r;
		if(pifPolicy == 0) r = false;
		else if(pifPolicy == 1) r = true;
		else if(pifPolicy == 2) r = rng.chance(1, 2);
		else r = pifApproved == 0 && rng.chance(1, 2);
		log("  pred e" + num(e.id) + " (" + kKindName[e.kind] + ", P" + num(e.idx) + ") " + fp.str() + " -> " + num(r));
		if(r) {
			++pifApproved;
			if(e.idx < pifFirstAccepted) pifFirstAccepted = e.idx;
			pending.erase(pending.begin() + (long)pos);
			e.state = 1;
			lastEv = found;
			pifSlots.push_back(e.slot);
			pushExpect(found);
			count("processIf.accepted");
		}
		else count("processIf.declined");
		nested();
		return r;
	}

	int pickKey() { if(NK < 3) return 0; const uint32_t c = rng.below(10); return c < 5 ? 0 : c < 8 ? 1 : 2; }
	void nested() {
		if(! hasQueue || dead || nestedBudget <= 0 || ! rng.chance((uint32_t)mode.pNested, 100)) return;
		--nestedBudget;
		count("nested_enqueues");
		vGen(true, pickKey(), true);
	}

	// model side of one enqueue / direct dispatch; the library call follows
	int beginEvent(bool enq, int ki, int kind, int id, bool inside, unsigned mask, bool keyTemp) {
		MEv e; e.id = id; e.kind = kind; e.idx = firstOf(mask); e.ki = ki; e.state = enq ? 0 : 3; e.slot = -1; e.keyTemp = keyTemp; e.fp = fpForEvent(kind, id);
		if(include) e.fp.key = keyFps[ki];
		const int ev = (int)events.size();
		if(bitsOf(mask) > 1) count("route.arguments_accepted_by_several_prototypes");
		const std::string what = std::string(inside ? "  " : "") + (enq ? "enqueue " : (cont == CK_CL ? "invoke " : "dispatch ")) + kstr(ki) + " e" + num(id) + " " + kKindName[kind]
			+ " accepts=" + hex(mask) + " -> P" + num(e.idx) + (keyTemp ? " key=temporary" : "");
		if(enq) {
			// slot model: evidence of slot recycling with a different stored type
			if(! freeSlots.empty()) {
				e.slot = freeSlots.front(); freeSlots.pop_front();
				const int was = slotKind[(size_t)e.slot];
				count("slot.reuses");
				if(was != kind) {
					count("slot.reuses_with_other_kind");
					sawSlotChange = true;
					if(was == KSS && (kind == KI || kind == KBOX)) count("slot.string_pair_then_int");
					if((was == KI || was == KBOX) && kind == KSS) count("slot.int_then_string_pair");
					if((was == KBIG) != (kind == KBIG)) count("slot.big_payload_vs_other");
				}
				slotKind[(size_t)e.slot] = kind;
			}
			else { e.slot = (int)slotKind.size(); slotKind.push_back(kind); }
			events.push_back(e);
			pending.push_back(ev);
			protoEnqueued |= 1u << e.idx;
			count((std::string("events.enqueued.") + kKindName[kind]).c_str());
			if(keyTemp) count("events.enqueued_with_temporary_key");
			log(what);
		}
		else {
			events.push_back(e);
			log(what);
			curOp = cont == CK_CL ? "invoke" : "dispatch";
			lastEv = ev;
			pushExpect(ev);
			if(! expectQ.empty()) sawInvokeHit = true;
			count((std::string("events.direct.") + kKindName[kind]).c_str());
		}
		return ev;
	}
	void endDirect(int ev) {
		(void)ev;
		if(! dead && ! expectQ.empty()) failMissed(curOp);
		expectQ.clear();
		curOp = "idle";
	}
	void lvalueCheck(bool ok, const char * what) {
		if(! ok && ! dead) fail(std::string("arguments:caller-lvalue-modified:") + what, std::string("an lvalue argument (") + what + ") was modified by the call");
	}

	// ---------------------------------------------------------------- queue processing
	void releaseSlots(const std::vector<int> & s) { for(size_t i = 0; i < s.size(); ++i) freeSlots.push_back(s[i]); }

	void doProcess(bool one) {
		std::vector<int> batch;
		if(one) { if(! pending.empty()) { batch.push_back(pending.front()); pending.pop_front(); } }
		else { batch.assign(pending.begin(), pending.end()); pending.clear(); }
		curOp = one ? "processOne" : "process";
		log(std::string(curOp) + " (" + num((long long)batch.size()) + " event(s))");
		std::vector<int> slots;
		unsigned kinds = 0;
		for(size_t i = 0; i < batch.size(); ++i) { MEv & e = events[(size_t)batch[i]]; e.state = 1; slots.push_back(e.slot); kinds |= 1u << e.kind; pushExpect(batch[i]); lastEv = batch[i]; }
		count(one ? "op.processOne" : "op.process");
		if(bitsOf(kinds) > 1) count("process.batches_mixing_prototypes");
		const bool r = vProcess(one);
		log("  -> " + num(r));
		releaseSlots(slots);
		if(! dead && ! expectQ.empty()) failMissed(curOp);
		expectQ.clear();
		if(! dead && r != ! batch.empty()) fail(std::string(curOp) + ":result", std::string(curOp) + " returned " + num(r) + " with " + num((long long)batch.size()) + " event(s) queued");
		curOp = "idle";
	}

	bool beginPif(int pt, unsigned mask) {
		if(mode.noMulti && bitsOf(mask) > 1) return false;
		pifActive = true; pifMask = mask; pifApproved = 0; pifExamined = 0; pifSlots.clear();
		for(int i = 0; i < (int)NP; ++i) pifCursor[i] = -1;
		const uint32_t c = rng.below(100);
		pifPolicy = c < (uint32_t)mode.pDecline ? 0 : c < (uint32_t)mode.pDecline + 20 ? 1 : c < 88 ? 2 : 3;
		int own = 0, foreign = 0; unsigned foreignKinds = 0;
		for(size_t i = 0; i < pending.size(); ++i) { const MEv & e = events[(size_t)pending[i]]; if((mask >> e.idx) & 1u) ++own; else { ++foreign; foreignKinds |= 1u << e.kind; } }
		pifOwn = own;
		pifInitial.clear();
		pifFirstAccepted = 0x7fffffff;
		for(size_t i = 0; i < pending.size(); ++i) if((mask >> events[(size_t)pending[i]].idx) & 1u) pifInitial.push_back(pending[i]);
		count("op.processIf");
		count((std::string("processIf.predicate.") + kPName[pt]).c_str());
		if(bitsOf(mask) > 1) count("processIf.predicate_callable_with_several_prototypes");
		if(foreign > 0) { count("processIf.calls_with_foreign_events_queued"); count("processIf.foreign_events_present", (uint64_t)foreign); }
		if(foreign > 0 && (foreignKinds & ((1u << KSS) | (1u << KVEC) | (1u << KBIG) | (1u << KPI)))) count("processIf.calls_with_foreign_nontrivial_events_queued");
		if(foreign > 0 && own > 0) { count("processIf.calls_with_own_and_foreign_events"); sawPifMixed = true; }
		curOp = "processIf";
		log(std::string("processIf ") + kPName[pt] + " callable=" + hex(mask) + " policy=" + num(pifPolicy) + " queued own=" + num(own) + " foreign=" + num(foreign));
		return true;
	}
	void endPif(bool r) {
		pifActive = false;
		log("  -> " + num(r) + " examined=" + num(pifExamined) + " accepted=" + num(pifApproved));
		releaseSlots(pifSlots);
		if(! dead && ! expectQ.empty()) failMissed("processIf");
		expectQ.clear();
		// the predicate is shown every event that was queued when processIf began and whose prototype it is callable with - prototype by
		// prototype in list order, up to and including the first prototype of which it accepted an event (the pinned implementation ends
		// the call after the first prototype pass that dispatched something; nothing is demanded about the prototypes listed after that one)
		for(size_t i = 0; i < pifInitial.size() && ! dead; ++i) {
			const MEv & e = events[(size_t)pifInitial[i]];
			if(e.idx > pifFirstAccepted) continue;
			if(pifInitial[i] > pifCursor[e.idx]) fail("processIf:queued-event-of-callable-prototype-not-examined", "processIf returned without passing queued event e" + num(e.id) + " (" + kKindName[e.kind] + ", prototype " + num(e.idx) + ") to its predicate, which is callable with prototypes " + hex(pifMask));
		}
		if(! dead) count("processIf.initial_events_all_examined", (uint64_t)pifInitial.size());
		if(! dead && r != (pifApproved > 0)) fail("processIf:result", "processIf returned " + num(r) + " after dispatching " + num(pifApproved) + " event(s)");
		if(pifApproved == 0 && pifOwn > 0) count("processIf.calls_declining_everything");
		curOp = "idle";
	}

	void doClear() {
		log("clearEvents (" + num((long long)pending.size()) + " event(s))");
		std::vector<int> slots;
		for(size_t i = 0; i < pending.size(); ++i) { MEv & e = events[(size_t)pending[i]]; e.state = 2; slots.push_back(e.slot); count("events.cleared"); }
		pending.clear();
		vClear();
		releaseSlots(slots);
		count("op.clearEvents");
		if(ledger().liveCount(K_PAYLOAD) != 0 && ! dead) fail("clearEvents:payload-alive", num(ledger().liveCount(K_PAYLOAD)) + " payload instance(s) alive after clearEvents");
	}

	void doEmptyQueue() {
		const bool got = vEmptyQueue();
		log("emptyQueue -> " + num(got));
		count("op.emptyQueue");
		if(got != pending.empty()) fail("emptyQueue:result", "emptyQueue returned " + num(got) + " with " + num((long long)pending.size()) + " event(s) queued");
	}

	// ---------------------------------------------------------------- quiescent checks
	void quiescent() {
		if(dead) return;
		if(! expectQ.empty()) { fail("harness:expectations-left", "expectation queue not empty at top level"); return; }
		long wantLive = 0;
		if(hasQueue) {
			const size_t qs = vQueueSize();
			if(qs != pending.size()) { fail("queue:length-differs-from-model", "queue holds " + num((long long)qs) + " event(s), model says " + num((long long)pending.size())); return; }
			const std::string err = vCheckSlots();
			if(! err.empty()) { fail("queue:" + err, err); return; }
			if(slotModelOk && vFreeSize() != freeSlots.size()) { slotModelOk = false; count("slot.model_desync"); }
			countMax("max_queue_length", pending.size());
			for(size_t i = 0; i < pending.size(); ++i) { const MEv & e = events[(size_t)pending[i]]; if(e.kind == KBIG || e.kind == KPI) ++wantLive; }
		}
		if(ledger().liveCount(K_PAYLOAD) != wantLive) {
			for(size_t i = 0; i < events.size(); ++i) {
				const MEv & e = events[i];
				if(e.kind != KBIG && e.kind != KPI) continue;
				const int g = ledger().liveOf(K_PAYLOAD, e.id), w = e.state == 0 ? 1 : 0;
				if(g != w) {
					fail(g > w ? (e.state == 0 ? "lifetime:queued-event-payload-duplicated" : "lifetime:consumed-event-payload-alive") : "lifetime:queued-event-payload-destroyed",
						"event e" + num(e.id) + " (state " + num(e.state) + "): " + num(g) + " live payload instance(s), model says " + num(w));
					return;
				}
			}
			fail("lifetime:payload-count", "live payload instances " + num(ledger().liveCount(K_PAYLOAD)) + ", model says " + num(wantLive));
		}
	}

	// ---------------------------------------------------------------- generation
	void listenerOp(int ki) {
		const uint32_t c = rng.below(100);
		if(c < 58 && lis.size() < 120) vAdd(ki, (int)rng.below(NFTYPES));
		else if(c < 92) doRemove(ki);
		else doEmpty(ki);
	}
	void step() {
		if(dead) return;
		nestedBudget = 4;
		const int ki = pickKey();
		if(hasQueue) {
			const int wPif = mode.noPif ? 0 : mode.wPif;
			const int total = mode.wEnq + mode.wProc1 + mode.wProc + wPif + mode.wClear + mode.wEmptyQ + mode.wLis + mode.wFire + mode.wEnum;
			int c = (int)rng.below((uint32_t)total);
			if((c -= mode.wEnq) < 0) { const int n = rng.chance(1, 4) ? 1 + (int)rng.below(6) : 1; for(int i = 0; i < n && ! dead; ++i) vGen(true, pickKey(), false); }
			else if((c -= mode.wProc1) < 0) doProcess(true);
			else if((c -= mode.wProc) < 0) doProcess(false);
			else if((c -= wPif) < 0) vProcessIf((int)rng.below(NPREDS));
			else if((c -= mode.wClear) < 0) doClear();
			else if((c -= mode.wEmptyQ) < 0) doEmptyQueue();
			else if((c -= mode.wLis) < 0) listenerOp(ki);
			else if((c -= mode.wFire) < 0) vGen(false, ki, false);
			else vEnum(ki, (int)rng.below(7));
		}
		else {
			const uint32_t c = rng.below(100);
			if(c < 42) listenerOp(ki);
			else if(c < 88) vGen(false, ki, false);
			else vEnum(ki, (int)rng.below(7));
		}
	}

	void run(int nops) {
		gSink = this;
		// a few listeners first so that most events are observed when consumed
		const int pre = 4 + (int)rng.below(26);
		for(int i = 0; i < pre && ! dead; ++i) { const int ki = pickKey(); const int ft = (int)rng.below(NFTYPES); vAdd(ki, ft); }
		for(int i = 0; i < nops && ! dead; ++i) { step(); quiescent(); }
		if(! dead) {
			// final: one exact-prototype listener per (key, prototype) so that every remaining event is observed, then drain
			const uint32_t how = rng.below(10);
			if(how < 7 || ! hasQueue) {
				static const int exact[] = { 0, 1, 2, 4, 6, 7, 9 };
				for(int ki = 0; ki < NK && ! dead; ++ki) for(int k = 0; k < 7 && ! dead; ++k) vAdd(ki, exact[k]);
				if(hasQueue) {
					count("events.left_for_final_drain", pending.size());
					if(! dead) doProcess(false);
				}
				else for(int ki = 0; ki < NK && ! dead; ++ki) for(int k = 0; k < 3 && ! dead; ++k) vGen(false, ki, false);
			}
			else if(how < 8) doClear();
			else count("events.left_at_destruction", pending.size());
			quiescent();
		}
	}
	~WorldBase() { gSink = nullptr; }
};

// ------------------------------------------------------------------ the library side: every call site whose types matter
template <typename C>
struct World : WorldBase
{
	typedef typename C::Obj Obj;
	typedef typename C::Handle Handle;
	typedef typename C::Key Key;
	typedef typename C::F F;
	typedef typename C::P P;
	typedef Fold<typename C::PL> FoldT;
	static_assert((int)FoldT::N == (int)WorldBase::NP, "prototype count");

	Obj obj;
	Key keys[3];

	World(const Mode & m, Rng & r) : WorldBase(C::cont, C::include, m, r) {
		for(int i = 0; i < 3; ++i) { keys[i] = KeyGen<Key>::make(i); keyFps[i] = C::include ? keyFp(keys[i]) : -1; }
	}

	static Handle toH(const GH & g) { Handle h = Handle(); h.index = g.index; h.homoHandle = g.wp; return h; }
	static GH toG(const Handle & h) { return GH(h.index, h.homoHandle); }

	// ---- listeners
	template <typename Fn, typename Sig> static void tryTarget(const std::function<Sig> & f, int & out) {
		const Fn * t = f.template target<Fn>();
		if(t) out = t->lid;
	}
	template <typename Sig> static int lidOf(const std::function<Sig> & f) {
		int r = -1;
		tryTarget<typename F::FV>(f, r); tryTarget<typename F::FI>(f, r); tryTarget<typename F::FSS>(f, r); tryTarget<typename F::FSSv>(f, r);
		tryTarget<typename F::FVEC>(f, r); tryTarget<typename F::FVECv>(f, r); tryTarget<typename F::FBIG>(f, r); tryTarget<typename F::FPI>(f, r);
		tryTarget<typename F::FPIr>(f, r); tryTarget<typename F::FBOX>(f, r); tryTarget<typename F::FL>(f, r); tryTarget<typename F::FOvVI>(f, r);
		tryTarget<typename F::FOvSSVEC>(f, r); tryTarget<typename F::FOvBoxBig>(f, r); tryTarget<typename F::FGen>(f, r);
		return r;
	}

	// Hows: which of append(1) / prepend(2) / insert(4) are compiled for this functor type
	template <typename Fn, unsigned Hows>
	void doAdd(int ki, int ft)
	{
		constexpr unsigned mask = FoldT::template maskByCallable<Fn>();
		if constexpr (mask != 0) {
			const AddPlan p = beginAdd(ki, ft, mask, Hows);
			Fn fn; fn.lid = p.lid;
			Handle h = Handle();
			if constexpr (C::cont == CK_CL) {
				if constexpr ((Hows & 1u) != 0) { if(p.how == 0) h = obj.append(fn); }
				if constexpr ((Hows & 2u) != 0) { if(p.how == 1) h = obj.prepend(fn); }
				if constexpr ((Hows & 4u) != 0) { if(p.how == 2) h = obj.insert(fn, toH(p.hb)); }
			}
			else {
				if constexpr ((Hows & 1u) != 0) { if(p.how == 0) h = obj.appendListener(keys[ki], fn); }
				if constexpr ((Hows & 2u) != 0) { if(p.how == 1) h = obj.prependListener(keys[ki], fn); }
				if constexpr ((Hows & 4u) != 0) { if(p.how == 2) h = obj.insertListener(keys[ki], fn, toH(p.hb)); }
			}
			endAdd(p, toG(h));
		}
	}
	void vAdd(int ki, int ft) override {
		switch(ft) {
		case 0: doAdd<typename F::FV, 7>(ki, ft); break;
		case 1: doAdd<typename F::FI, 5>(ki, ft); break;
		case 2: doAdd<typename F::FSS, 6>(ki, ft); break;
		case 3: doAdd<typename F::FSSv, 1>(ki, ft); break;
		case 4: doAdd<typename F::FVEC, 4>(ki, ft); break;
		case 5: doAdd<typename F::FVECv, 2>(ki, ft); break;
		case 6: doAdd<typename F::FBIG, 2>(ki, ft); break;
		case 7: doAdd<typename F::FPI, 1>(ki, ft); break;
		case 8: doAdd<typename F::FPIr, 4>(ki, ft); break;
		case 9: doAdd<typename F::FBOX, 2>(ki, ft); break;
		case 10: doAdd<typename F::FL, 1>(ki, ft); break;
		case 11: doAdd<typename F::FOvVI, 4>(ki, ft); break;
		case 12: doAdd<typename F::FOvSSVEC, 1>(ki, ft); break;
		case 13: doAdd<typename F::FOvBoxBig, 2>(ki, ft); break;
		default: doAdd<typename F::FGen, 5>(ki, ft); break;
		}
	}
	bool vRemove(int ki, const GH & g) override {
		if constexpr (C::cont == CK_CL) return obj.remove(toH(g)); else return obj.removeListener(keys[ki], toH(g));
	}
	bool vEmpty(int ki, bool & asBool) override {
		if constexpr (C::cont == CK_CL) { const bool e = obj.empty(); asBool = (bool)obj; return e; }
		else { const bool e = ! obj.hasAnyListener(keys[ki]); asBool = ! e; return e; }
	}

	// ---- enumeration
	struct Vis1 { World * w; template <typename CB> void operator() (const CB & cb) const { w->onVisit(World::lidOf(cb), false, GH()); } };
	struct Vis2 { World * w; template <typename CB> void operator() (const Handle & h, const CB & cb) const { w->onVisit(World::lidOf(cb), true, World::toG(h)); } };
	struct VisIf1 { World * w; template <typename CB> bool operator() (const CB & cb) const { return w->onVisit(World::lidOf(cb), false, GH()); } };
	struct VisIf2 { World * w; template <typename CB> bool operator() (const Handle & h, const CB & cb) const { return w->onVisit(World::lidOf(cb), true, World::toG(h)); } };

	// Odd: which two of the four forms are compiled for this prototype (keeps the number of instantiations down)
	template <typename Proto, bool Odd>
	void doEnumProto(int ki, const char * pname)
	{
		constexpr unsigned mask = FoldT::template maskByCallable<Proto &>();
		// only prototypes that select exactly one listed prototype: which list an ambiguous one enumerates is not part of the statement
		if constexpr (FoldT::bits(mask) == 1) {
			const bool withIf = beginEnum(ki, FoldT::firstOf(mask), pname, Odd);
			bool r = true;
			if constexpr (C::cont == CK_CL) {
				if constexpr (Odd) { if(withIf) { VisIf1 v; v.w = this; r = obj.template forEachIf<Proto>(v); } else { Vis2 v; v.w = this; obj.template forEach<Proto>(v); } }
				else { if(withIf) { VisIf2 v; v.w = this; r = obj.template forEachIf<Proto>(v); } else { Vis1 v; v.w = this; obj.template forEach<Proto>(v); } }
			}
			else {
				if constexpr (Odd) { if(withIf) { VisIf1 v; v.w = this; r = obj.template forEachIf<Proto>(keys[ki], v); } else { Vis2 v; v.w = this; obj.template forEach<Proto>(keys[ki], v); } }
				else { if(withIf) { VisIf2 v; v.w = this; r = obj.template forEachIf<Proto>(keys[ki], v); } else { Vis1 v; v.w = this; obj.template forEach<Proto>(keys[ki], v); } }
			}
			endEnum(r);
		}
	}
	void vEnum(int ki, int proto) override {
		switch(proto) {
		case 0: doEnumProto<typename P::V, false>(ki, "V"); break;
		case 1: doEnumProto<typename P::I, true>(ki, "I"); break;
		case 2: doEnumProto<typename P::SS, false>(ki, "SS"); break;
		case 3: doEnumProto<typename P::VEC, true>(ki, "VEC"); break;
		case 4: doEnumProto<typename P::BIG, false>(ki, "BIG"); break;
		case 5: doEnumProto<typename P::PI, true>(ki, "PI"); break;
		default: doEnumProto<typename P::BOX, false>(ki, "BOX"); break;
		}
	}

	// ---- events.  KeyTemp: pass the event key as a temporary (fixed per call site to keep the number of instantiations down)
	template <bool Enq, bool KeyTemp, typename K, typename ...A>
	void emitK(int ki, int kind, int id, bool inside, K && key, A && ...a)
	{
		constexpr unsigned mask = C::include ? FoldT::template maskByArgs<K, A...>() : FoldT::template maskByArgs<A...>();
		static_assert(mask != 0, "no prototype accepts these arguments");
		const int ev = beginEvent(Enq, ki, kind, id, inside, mask, KeyTemp);
		if constexpr (Enq) {
			if constexpr (C::hasQueue) obj.enqueue(std::forward<K>(key), std::forward<A>(a)...);
		}
		else {
			if constexpr (C::cont == CK_CL) obj(std::forward<A>(a)...);
			else obj.dispatch(std::forward<K>(key), std::forward<A>(a)...);
			endDirect(ev);
		}
	}
	template <bool Enq, bool KeyTemp, typename ...A>
	void emit(int ki, int kind, int id, bool inside, A && ...a)
	{
		if constexpr (KeyTemp && C::hasKey) emitK<Enq, true>(ki, kind, id, inside, Key(keys[ki]), std::forward<A>(a)...);
		else { const Key & k = keys[ki]; emitK<Enq, false>(ki, kind, id, inside, k, std::forward<A>(a)...); }
	}

	// the event is passed as a value of ANOTHER type that converts to the key type (const char * for std::string, long for int):
	// the library has to build the key from it and keep that key alive for as long as it uses it
	template <bool Enq, typename ...A>
	void emitOther(int ki, int kind, int id, bool inside, A && ...a)
	{
		if constexpr (C::hasKey) { count("event_passed_as_convertible_type"); emitK<Enq, true>(ki, kind, id, inside, KeyGen<Key>::other(keys[ki]), std::forward<A>(a)...); }
		else emit<Enq, true>(ki, kind, id, inside, std::forward<A>(a)...);
	}

	// one generated event: Enq ? enqueue : direct invoke / dispatch, with one of 16 argument shapes
	// (the direct form on a queue object uses 8 of them: HeterEventDispatcher configurations cover the rest)
	template <bool Enq>
	void genEvent(int ki, bool inside)
	{
		if(events.size() >= 30000) return;
		const int id = (int)events.size();
		constexpr bool all = Enq || ! C::hasQueue;
		static const int base[NKINDS] = { 0, 1, 5, 8, 10, 12, 14 }, cnt[NKINDS] = { 1, 4, 3, 2, 2, 2, 2 };
		static const int reduced[16] = { 0, 1, 3, 3, 1, 5, 7, 7, 9, 9, 11, 11, 13, 13, 15, 15 };
		const int k = (int)rng.below(NKINDS);
		int s = base[k] + (int)rng.below((uint32_t)cnt[k]);
		if(! all) s = reduced[s];
		switch(s) {
		case 0: if(id % 2) emitOther<Enq>(ki, KV, id, inside); else emit<Enq, true>(ki, KV, id, inside); break;
		case 1: { int v = id; emit<Enq, false>(ki, KI, id, inside, v); lvalueCheck(v == id, "int"); break; }
		case 2: if constexpr (all) emit<Enq, true>(ki, KI, id, inside, id + 0); break;
		case 3: emit<Enq, true>(ki, KI, id, inside, (short)id); break;
		case 4: if constexpr (all) emit<Enq, false>(ki, KI, id, inside, (long)id); break;
		case 5: { std::string a = strA(id), b = strB(id); emit<Enq, true>(ki, KSS, id, inside, a, b); lvalueCheck(a == strA(id) && b == strB(id), "string"); break; }
		case 6: if constexpr (all) emit<Enq, false>(ki, KSS, id, inside, strA(id), strB(id)); break;
		case 7: { const std::string a = strA(id); const std::string b = strB(id); emit<Enq, true>(ki, KSS, id, inside, a.c_str(), b); break; }
		case 8: if constexpr (all) { std::vector<int> v = vecOf(id); emit<Enq, true>(ki, KVEC, id, inside, v); lvalueCheck(v == vecOf(id), "vector"); } break;
		case 9: if(id % 2) emitOther<Enq>(ki, KVEC, id, inside, vecOf(id)); else emit<Enq, false>(ki, KVEC, id, inside, vecOf(id)); break;
		case 10: if constexpr (all) { Big p(id); emit<Enq, false>(ki, KBIG, id, inside, p); lvalueCheck(p.observe() == id, "Big"); } break;
		case 11: emit<Enq, true>(ki, KBIG, id, inside, Big(id)); break;
		case 12: if constexpr (all) { Small p(id); int v = id * 3 + 1; emit<Enq, true>(ki, KPI, id, inside, p, v); lvalueCheck(p.observe() == id && v == id * 3 + 1, "Small,int"); } break;
		case 13: emit<Enq, false>(ki, KPI, id, inside, Small(id), (short)(id * 3 + 1)); break;
		case 14: if constexpr (all) { IntBox b(id); emit<Enq, false>(ki, KBOX, id, inside, b); lvalueCheck(b.ok() && b.v == id, "IntBox"); } break;
		default: emit<Enq, true>(ki, KBOX, id, inside, IntBox(id)); break;
		}
	}
	void vGen(bool enq, int ki, bool inside) override {
		if(enq) { if constexpr (C::hasQueue) genEvent<true>(ki, inside); }
		else genEvent<false>(ki, inside);
	}

	// ---- queue
	bool vProcess(bool one) override { if constexpr (C::hasQueue) return one ? obj.processOne() : obj.process(); else return false; }
	void vClear() override { if constexpr (C::hasQueue) obj.clearEvents(); }
	bool vEmptyQueue() override { if constexpr (C::hasQueue) return obj.emptyQueue(); else return true; }
	size_t vQueueSize() override { if constexpr (C::hasQueue) return Access::queueSize(obj); else return 0; }
	size_t vFreeSize() override { if constexpr (C::hasQueue) return Access::freeSize(obj); else return 0; }
	std::string vCheckSlots() override { if constexpr (C::hasQueue) return Access::checkSlots(obj); else return std::string(); }

	template <typename Pred>
	void doProcessIfWith(int pt)
	{
		if constexpr (C::hasQueue) {
			constexpr unsigned mask = FoldT::template maskByCallable<Pred &>();
			if constexpr (mask != 0) {
				if(! beginPif(pt, mask)) return;
				Pred pred; pred.tag = pt;
				const bool r = obj.processIf(pred);
				endPif(r);
			}
		}
	}
	void vProcessIf(int pt) override {
		switch(pt) {
		case 0: doProcessIfWith<typename F::PV>(pt); break;
		case 1: doProcessIfWith<typename F::PI_>(pt); break;
		case 2: doProcessIfWith<typename F::PL_>(pt); break;
		case 3: doProcessIfWith<typename F::PSS>(pt); break;
		case 4: doProcessIfWith<typename F::PVEC>(pt); break;
		case 5: doProcessIfWith<typename F::PBIG>(pt); break;
		case 6: doProcessIfWith<typename F::PPI>(pt); break;
		case 7: doProcessIfWith<typename F::PBOX>(pt); break;
		case 8: doProcessIfWith<typename F::POvISS>(pt); break;
		case 9: doProcessIfWith<typename F::POvVVecBig>(pt); break;
		default: doProcessIfWith<typename F::PGen>(pt); break;
		}
	}
};

// ------------------------------------------------------------------ case runner
static uint64_t gTraceXor = 0;

template <typename C>
static void runCfg(const Mode & mode, Rng & rng, uint64_t caseNo, int cfgIndex)
{
	ledger().resetCase();
	int nops = rng.range(mode.minOps, mode.maxOps);
	if(! C::hasQueue) nops = nops / 2 + 10;
	uint64_t h;
	bool nontrivial;
	{
		World<C> w(mode, rng);
		oplog("config " + num(cfgIndex) + ": " + C::name() + " ops=" + num(nops));
		w.run(nops);
		h = w.trace.h;
		if(C::hasQueue) nontrivial = bitsOf(w.protoEnqueued) >= 3 && w.sawPifMixed && w.sawSlotChange && w.sawListenerCall;
		else nontrivial = bitsOf(w.protoBound) >= 3 && w.sawMultiBind && w.sawInvokeHit && w.sawRemove;
		count("events_created", w.events.size());
		count("listeners_created", w.lis.size());
	}
	if(! caseHasViolation()) {
		if(ledger().liveCount(K_PAYLOAD) != 0) violation("lifetime:payload-leaked-after-destruction", num(ledger().liveCount(K_PAYLOAD)) + " payload instance(s) alive after the container was destroyed");
	}
	count("ops", (uint64_t)nops);
	count((std::string("config.") + num(cfgIndex)).c_str());
	Fnv f; f.addu(h); f.addu((uint64_t)cfgIndex);
	if(nontrivial) { markNontrivial(f.h); count("cases_nontrivial"); }
	gTraceXor ^= mix(h, caseNo);
	if(wantSample() && nontrivial) addSample("{\"case\":" + unum(caseNo) + ",\"history\":" + oplogJson(ctx().oplog, 80) + "}");
}

template <bool Enabled, typename C>
static typename std::enable_if<Enabled>::type runCfgIf(const Mode & mode, Rng & rng, uint64_t caseNo, int cfgIndex) { runCfg<C>(mode, rng, caseNo, cfgIndex); }
template <bool Enabled, typename C>
static typename std::enable_if<! Enabled>::type runCfgIf(const Mode &, Rng &, uint64_t, int) {}
static void skipCase() { --ctx().casesRun; }

typedef eventpp::MultipleThreading MT;
typedef eventpp::SingleThreading ST;
typedef Cfg<CK_CL, 0, false, int, MT> Cfg0;
typedef Cfg<CK_EQ, 0, false, int, MT> Cfg1;
typedef Cfg<CK_ED, 1, false, int, ST> Cfg2;
typedef Cfg<CK_EQ, 1, false, int, ST> Cfg3;
typedef Cfg<CK_CL, 2, false, int, ST> Cfg4;
typedef Cfg<CK_EQ, 2, false, std::string, MT> Cfg5;
typedef Cfg<CK_ED, 0, true, int, MT> Cfg6;
typedef Cfg<CK_EQ, 1, true, std::string, MT> Cfg7;
typedef Cfg<CK_EQ, 2, true, int, ST> Cfg8;
typedef Cfg<CK_ED, 0, false, std::string, MT, true> Cfg9;
enum { NCFG = 10 };

// ------------------------------------------------------------------ value category selects the prototype
// Prototype lists in which a non-const lvalue-reference prototype is listed BEFORE a prototype that accepts the same type by value
// (or a wider type): a modifiable lvalue argument must select the reference prototype (and can be changed in place by its callbacks),
// a temporary / const argument the other one.  Run next to every generated case (cheap, independent of the configuration).
static void refPrototypeScenario(Rng & rng)
{
	// (the callbacks of the by-value prototype take std::string &&: a callback taking std::string by value would also be callable with
	// std::string & and be bound to the FIRST prototype it fits)
	std::vector<std::string> trace, want;
	const int n0 = 1 + (int)rng.below(3), n1 = 1 + (int)rng.below(3);
	const std::string orig = "t" + num((long long)rng.below(1000)) + std::string(rng.below(40), 'x');
	{
		typedef eventpp::HeterCallbackList<eventpp::HeterTuple<void(std::string &), void(std::string)> > L;
		L l;
		for(int i = 0; i < n0; ++i) l.append([&trace, i](std::string & s) { trace.push_back("ref" + num(i) + ":" + s); s += "+"; });
		for(int i = 0; i < n1; ++i) l.append([&trace, i](std::string && s) { trace.push_back("val" + num(i) + ":" + s); });
		std::string text = orig;
		l(text); // modifiable lvalue
		std::string cur = orig;
		for(int i = 0; i < n0; ++i) { want.push_back("ref" + num(i) + ":" + cur); cur += "+"; }
		if(text != cur && ! caseHasViolation()) violation("route:lvalue-argument-not-modified-through-reference-prototype", "HeterCallbackList<void(std::string&),void(std::string)> invoked with a modifiable lvalue: the argument reads '" + text + "' afterwards, the " + num(n0) + " callbacks of the reference prototype should have made it '" + cur + "'");
		l(std::string(orig)); // temporary
		const std::string c = orig;
		l(c); // const lvalue
		for(int k = 0; k < 2; ++k) for(int i = 0; i < n1; ++i) want.push_back("val" + num(i) + ":" + orig);
	}
	{
		typedef eventpp::HeterEventDispatcher<int, eventpp::HeterTuple<void(std::string &), void(std::string)> > D;
		D d;
		for(int i = 0; i < n0; ++i) d.appendListener(5, [&trace, i](std::string & s) { trace.push_back("dref" + num(i) + ":" + s); s += "-"; });
		for(int i = 0; i < n1; ++i) d.appendListener(5, [&trace, i](std::string && s) { trace.push_back("dval" + num(i) + ":" + s); });
		std::string text = orig;
		d.dispatch(5, text);
		std::string cur = orig;
		for(int i = 0; i < n0; ++i) { want.push_back("dref" + num(i) + ":" + cur); cur += "-"; }
		if(text != cur && ! caseHasViolation()) violation("route:lvalue-argument-not-modified-through-reference-prototype", "HeterEventDispatcher<void(std::string&),void(std::string)> dispatched with a modifiable lvalue: it reads '" + text + "' afterwards, expected '" + cur + "'");
		d.dispatch(5, std::string(orig));
		for(int i = 0; i < n1; ++i) want.push_back("dval" + num(i) + ":" + orig);
	}
	if(trace != want && ! caseHasViolation()) {
		std::string a, b;
		for(size_t i = 0; i < trace.size(); ++i) a += trace[i] + " ";
		for(size_t i = 0; i < want.size(); ++i) b += want[i] + " ";
		violation("route:value-category-selects-wrong-prototype", "prototype list with a non-const reference prototype listed before a by-value one: calls [" + a + "] expected [" + b + "]");
	}
	count("ref_prototype_scenarios");
}

static void runCase(uint64_t caseNo, Rng & rng)
{
	static Mode mode = modeOf(ctx().mode);
	{ Rng r2(mix(ctx().curSeed, 0x5eedULL)); refPrototypeScenario(r2); }
	long long only = ctx().optInt("cfg", -1);
	int cfg = only >= 0 ? (int)only : (int)(caseNo % NCFG);
	// VF_CFG_MASK: build only a subset of the configurations (parallel compilation); other cases are skipped
#ifndef VF_CFG_MASK
#define VF_CFG_MASK 0x3ff
#endif
#define VF_CFG(n) case n: if((VF_CFG_MASK >> n) & 1) { runCfgIf<((VF_CFG_MASK >> n) & 1) != 0, Cfg##n>(mode, rng, caseNo, n); } else { skipCase(); } break;
	switch(cfg) {
	VF_CFG(0) VF_CFG(1) VF_CFG(2) VF_CFG(3) VF_CFG(4) VF_CFG(5) VF_CFG(6) VF_CFG(7) VF_CFG(8) VF_CFG(9)
	default: skipCase(); break;
	}
}

int main(int argc, char ** argv)
{
	return runMain(argc, argv, runCase, []() {
		ctx().counters["trace_xor_lo"] = gTraceXor & 0xffffffffu;
		ctx().counters["trace_xor_hi"] = gTraceXor >> 32;
		ctx().counters["payload.constructed"] = (uint64_t)ledger().constructed[K_PAYLOAD].load();
		ctx().counters["payload.copied"] = (uint64_t)ledger().copied[K_PAYLOAD].load();
		ctx().counters["payload.moved"] = (uint64_t)ledger().moved[K_PAYLOAD].load();
		ctx().counters["payload.destroyed"] = (uint64_t)ledger().destroyed[K_PAYLOAD].load();
	});
}
