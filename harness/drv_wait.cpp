// drv_wait.cpp - wait / waitFor / DisableQueueNotify under an injected perturbing Threading policy (C07).  C++11.
// Verdicts are taken from STATE: MonCV keeps an explicit list of parked waiters (no spurious wake-ups), so
// "every waiter is parked, nobody can notify any more, events are pending and notification is enabled" is read, not timed.
#define VF_CUSTOM_HOOKS
#include "vcommon.h"
#include "vledger.h"
#include "vaccess.h"
#include "vpolicy.h"

#include <eventpp/eventqueue.h>
#include <eventpp/hetereventqueue.h>

#include <thread>
#include <algorithm>

using namespace vf;

struct PolMon { typedef MonThreading Threading; };
struct PolMonSpin { typedef MonSpinThreading Threading; };

enum { ROLE_WAITER = 1, ROLE_ENQ = 2, ROLE_POLL = 3, MAXEV = 2048 };
#if defined(VF_TSAN)
static const bool kTicks = false;
#else
static const bool kTicks = true;
#endif
static std::atomic<uint64_t> gTick(1);
static inline uint64_t tick() { return kTicks ? gTick.fetch_add(1, std::memory_order_seq_cst) : 0; }

struct Interval { uint64_t a, b; int kind; bool result; long long elapsedUs, wantUs; long long wa, wb; /* wall clock (us) just before / just after */ };
static inline long long nowUs() { return std::chrono::duration_cast<std::chrono::microseconds>(std::chrono::steady_clock::now().time_since_epoch()).count(); }

struct Shared
{
	std::atomic<int> state[MAXEV];       // 0 none, 1 enqueued, 2 dispatched
	std::atomic<uint64_t> enqStart[MAXEV];
	std::atomic<uint64_t> doneLate[MAXEV]; // tick after the processing call that dispatched it returned
	std::atomic<uint64_t> enqDone[MAXEV];  // tick after its enqueue call returned (0: not yet)
	std::atomic<uint64_t> consStart[MAXEV]; // tick at the start of its listener call (~0: not yet)
	std::atomic<int> dispatched, enqueued;
	std::atomic<bool> stop, aborting, pollStop;
	std::atomic<long> polls, listenerFailures;
	std::atomic<int> enqLeft;
	std::vector<Interval> waits[MAXTHREADS];
	std::vector<Interval> dqns[MAXTHREADS];
	std::vector<Interval> procs[MAXTHREADS]; // processing calls (they raise the "in dispatch" counter even when they find nothing)
	std::vector<int> batch[MAXTHREADS];
	void reset() {
		for(int i = 0; i < MAXEV; ++i) { state[i].store(0, std::memory_order_relaxed); enqStart[i].store(0, std::memory_order_relaxed); doneLate[i].store(~0ULL, std::memory_order_relaxed); enqDone[i].store(0, std::memory_order_relaxed); consStart[i].store(~0ULL, std::memory_order_relaxed); }
		dispatched = 0; enqueued = 0; stop = false; aborting = false; pollStop = false; polls = 0; listenerFailures = 0; enqLeft = 0;
		for(int i = 0; i < MAXTHREADS; ++i) { waits[i].clear(); dqns[i].clear(); procs[i].clear(); batch[i].clear(); }
	}
};
static Shared * S = new Shared();

struct ListenerFailure {};
static thread_local bool tThrowOk = false;

struct WSink : CallbackSink
{
	void onCall(int, const ArgPack & args, MutInts &) override {
		const long long eid = args.fp[args.n - 1];
		if(eid < 0 || eid >= MAXEV) { violation("dispatch:bad-argument", "listener received " + num(eid)); return; }
		S->consStart[eid].store(tick(), std::memory_order_relaxed);
		int expect = 1;
		if(! S->state[eid].compare_exchange_strong(expect, 2, std::memory_order_relaxed)) { violation("dispatch:event-dispatched-twice-or-never-enqueued", "event " + num(eid) + " state " + num(expect)); return; }
		S->dispatched.fetch_add(1, std::memory_order_relaxed);
		S->batch[tls().tid % MAXTHREADS].push_back((int)eid);
		// a listener that fails: only inside processOne (one event per call, so nothing else is discarded with it)
		if(tThrowOk && tls().rng.chance(1, 4)) { tThrowOk = false; throw ListenerFailure(); }
		perturb("listener.body");
	}
};

struct Scenario
{
	int waiters, enqueuers;
	int waitKind[4];     // 0 wait(), 1 waitFor(long), 2 waitFor(short)
	int shortMs[4];
	int steps[3];        // per enqueuer number of steps
	uint32_t plan[3][12]; // per step: low 2 bits = DisableQueueNotify nesting depth (0..3), next 3 bits = events (1..4 -> +1), next bits = pause
	bool drainAll;
	bool enqueuerProcesses;
	bool throwing;        // listeners fail now and then inside processOne
	int longPauseUs;      // > 0: pause inside every DisableQueueNotify scope (after its enqueues)
	int slowDrainUs;      // > 0: a released waiter sleeps this long before it starts draining
	int poller;          // 0 none, 1 a thread keeps calling processIf with a predicate that declines everything, 2 processUntil that stops at once
};

// homogeneous queue: has DisableQueueNotify
template <typename Q> struct QTraits
{
	static void enqueue(Q & q, int eid) { q.enqueue(3, eid); }
	static void listen(Q & q) { q.appendListener(3, TCallback(3)); }
	enum { hasDqn = 1 };
	typedef typename Q::DisableQueueNotify Dqn;
};
typedef eventpp::HeterEventQueue<int, eventpp::HeterTuple<void(int), void(int, int)>, PolMon> HQ;
template <> struct QTraits<HQ>
{
	static void enqueue(HQ & q, int eid) { if(eid & 1) q.enqueue(3, eid); else q.enqueue(3, 7, eid); }
	struct L1 { TCallback cb; L1() : cb(3) {} void operator() (int a) const { cb(a); } };
	struct L2 { TCallback cb; L2() : cb(4) {} void operator() (int a, int b) const { cb(a, b); } };
	static void listen(HQ & q) { q.appendListener(3, L1()); q.appendListener(3, L2()); }
	enum { hasDqn = 0 };
	struct Dqn { Dqn(HQ *) {} };
};

template <typename Q>
struct Runner
{
	Q q;
	Scenario sc;
	uint64_t caseSeed;

	void drain(int tid) {
		std::vector<int> & b = S->batch[tid % MAXTHREADS];
		for(;;) {
			b.clear();
			bool r;
			Interval pi; pi.kind = 0; pi.result = true; pi.elapsedUs = 0; pi.wantUs = 0; pi.a = tick();
			if(tls().rng.chance(1, 2)) {
				tThrowOk = sc.throwing;
				try { r = q.processOne(); }
				catch(const ListenerFailure &) { r = true; S->listenerFailures.fetch_add(1, std::memory_order_relaxed); } // the exception passes through processOne; the queue must be as idle afterwards as after a normal return
				tThrowOk = false;
			}
			else r = q.process();
			const uint64_t t = tick();
			pi.b = t; S->procs[tid % MAXTHREADS].push_back(pi);
			for(size_t i = 0; i < b.size(); ++i) S->doneLate[b[i]].store(t, std::memory_order_relaxed);
			if(! r) break;
			if(! sc.drainAll) break;
		}
	}

	void waiter(int tid, int w) {
		threadBegin(tid, ROLE_WAITER, caseSeed);
		try {
			while(! S->stop.load(std::memory_order_relaxed)) {
				Interval iv; iv.kind = sc.waitKind[w]; iv.result = true; iv.elapsedUs = 0; iv.wantUs = 0;
				const std::chrono::steady_clock::time_point t0 = std::chrono::steady_clock::now();
				iv.wa = nowUs();
				iv.a = tick();
				if(iv.kind == 0) q.wait();
				else {
					const int ms = iv.kind == 1 ? 20000 : sc.shortMs[w];
					iv.wantUs = ms * 1000LL;
					iv.result = q.waitFor(std::chrono::milliseconds(ms));
				}
				iv.b = tick();
				iv.wb = nowUs();
				iv.elapsedUs = std::chrono::duration_cast<std::chrono::microseconds>(std::chrono::steady_clock::now() - t0).count();
				if(S->aborting.load(std::memory_order_seq_cst)) break; // released by the harness, not by the library
				S->waits[tid % MAXTHREADS].push_back(iv);
				if(iv.result && sc.slowDrainUs) std::this_thread::sleep_for(std::chrono::microseconds(sc.slowDrainUs)); // a consumer that is slow to start draining
				if(iv.result) drain(tid);
			}
		}
		catch(const SelfDeadlock &) { violation("deadlock:self-relock", "waiter re-locked a mutex it owns"); }
	}

	// a processing thread that takes the pending events out and puts all of them back (it never consumes and never notifies):
	// while the events are out the queue list is empty, which is what an unlocked reader on another thread can see
	struct DeclineAll { template <typename ...A> bool operator() (A && ...) const { perturb("poller.predicate"); return false; } };
	struct StopAtOnce { template <typename ...A> bool operator() (A && ...) const { perturb("poller.predicate"); return true; } };
	template <typename QQ> static auto pollUntil(QQ & qq, int) -> decltype(qq.processUntil(StopAtOnce()), void()) { qq.processUntil(StopAtOnce()); }
	template <typename QQ> static void pollUntil(QQ & qq, long) { qq.processIf(DeclineAll()); }
	void poller(int tid) {
		threadBegin(tid, ROLE_POLL, caseSeed);
		try {
			while(! S->pollStop.load(std::memory_order_relaxed)) {
				if(sc.poller == 2) pollUntil(q, 0); else q.processIf(DeclineAll());
				S->polls.fetch_add(1, std::memory_order_relaxed);
			}
		}
		catch(const SelfDeadlock &) { violation("deadlock:self-relock", "poller re-locked a mutex it owns"); }
	}

	void scopes(int tid, int depth, int nEvents, int & nextEid, int pauseUs) {
		if(depth == 0) {
			for(int i = 0; i < nEvents; ++i) {
				const int eid = nextEid++;
				S->state[eid].store(1, std::memory_order_relaxed);
				S->enqStart[eid].store(tick(), std::memory_order_relaxed);
				S->enqueued.fetch_add(1, std::memory_order_relaxed);
				QTraits<Q>::enqueue(q, eid);
				S->enqDone[eid].store(tick(), std::memory_order_relaxed);
			}
			if(pauseUs) std::this_thread::sleep_for(std::chrono::microseconds(sc.longPauseUs ? sc.longPauseUs : pauseUs));
			return;
		}
		Interval iv; iv.kind = depth; iv.result = true; iv.elapsedUs = 0; iv.wantUs = 0;
		iv.wa = nowUs();
		{
			typename QTraits<Q>::Dqn d(&q);
			iv.a = tick(); // constructed
			scopes(tid, depth - 1, nEvents, nextEid, pauseUs);
			iv.b = tick(); // about to be destroyed
		}
		iv.wb = nowUs();
		S->dqns[tid % MAXTHREADS].push_back(iv);
	}

	void enqueuer(int tid, int e) {
		threadBegin(tid, ROLE_ENQ, caseSeed);
		int nextEid = e * 600;
		try {
			for(int s = 0; s < sc.steps[e]; ++s) {
				const uint32_t p = sc.plan[e][s];
				const int depth = QTraits<Q>::hasDqn ? (int)(p & 3) : 0;
				const int nEvents = (depth > 0 && ((p >> 30) & 1)) ? 0 : 1 + (int)((p >> 2) & 3); // a DisableQueueNotify scope may be empty
				const int pauseUs = (int)((p >> 4) % 1500);
				scopes(tid, depth, nEvents, nextEid, depth ? pauseUs : 0);
				if((p >> 16) & 1) std::this_thread::sleep_for(std::chrono::microseconds((p >> 17) % 800));
				// a processing call made by a thread that is NOT a waiter: an enqueue that happens meanwhile must still wake a waiter
				if(sc.enqueuerProcesses && ((p >> 28) & 3) == 0) { std::vector<int> & b = S->batch[tid % MAXTHREADS]; b.clear(); Interval pi; pi.kind = 0; pi.result = true; pi.elapsedUs = 0; pi.wantUs = 0; pi.a = tick(); q.process(); const uint64_t t = tick(); pi.b = t; S->procs[tid % MAXTHREADS].push_back(pi); for(size_t i = 0; i < b.size(); ++i) S->doneLate[b[i]].store(t, std::memory_order_relaxed); }
			}
		}
		catch(const SelfDeadlock &) { violation("deadlock:self-relock", "enqueuer re-locked a mutex it owns"); }
		S->enqLeft.fetch_sub(1, std::memory_order_seq_cst);
	}
};

static void pickWindow(Rng & rng)
{
	static const char * kTags[] = { "cv.pred-false", "cv.pred-false", "q.dqn.after-dec", "q.dqn.after-dec", "listener.body", "listener.body", "atomic.rmw.post", "atomic.rmw.pre", "atomic.load.post", "atomic.load.pre",
		"lock.pre", "lock.post", "unlock.post", "cv.notify.pre", "q.queueList.cs", "racy-read.end" };
	Sched & s = sched();
	s.seed = rng.next();
	s.tag2 = -1;
	const uint32_t m = rng.below(10);
	s.pRandom = (int)(5 + rng.below(40));
	if(m < 1) { s.mode = 0; return; }
	if(m < 3) { s.mode = 1; return; }
	s.mode = 2;
	s.tag = tags().idOf(kTags[rng.below(sizeof(kTags) / sizeof(kTags[0]))]);
	s.role = rng.chance(1, 2) ? ROLE_WAITER : ROLE_ENQ;
	if(s.tag.load() == tags().idOf("cv.pred-false")) s.role = ROLE_WAITER;
	if(s.tag.load() == tags().idOf("q.dqn.after-dec")) s.role = ROLE_ENQ;
	s.nth = 1 + (int)rng.below(4);
	s.delayUs = 300 + (int)rng.below(2500);
}

template <typename Q>
static void runScenario(uint64_t caseNo, Rng & rng, const char * cfgName)
{
	ledger().resetCase();
	S->reset();
	syncHash().store(0, std::memory_order_relaxed);
	syncSeq().store(0, std::memory_order_relaxed);
	threadBegin(0, 0, ctx().curSeed);

	Scenario sc;
	sc.waiters = 1 + (int)rng.below(3);
	sc.enqueuers = 1 + (int)rng.below(2);
	const bool timedScenario = ctx().mode == "c11" ? true : rng.chance(1, 4); // scenarios with short waitFor check the timeout rule; the others check lost wake-ups
	for(int w = 0; w < 4; ++w) { sc.waitKind[w] = timedScenario ? 2 : (int)rng.below(2); sc.shortMs[w] = 2 + (int)rng.below(12); }
	for(int e = 0; e < 3; ++e) { sc.steps[e] = 1 + (int)rng.below(8); for(int s = 0; s < 12; ++s) { sc.plan[e][s] = (uint32_t)rng.next(); if(rng.chance(1, 3)) sc.plan[e][s] &= ~3u; } }
	sc.drainAll = true;
	sc.enqueuerProcesses = rng.chance(1, 3);
	sc.throwing = rng.chance(1, 3);
	sc.longPauseUs = 0; sc.slowDrainUs = 0;
	if(sc.enqueuerProcesses) sc.enqueuers = 2;
	pickWindow(rng);
	// template aimed at the window of the statement: a waiter re-enters wait() (after draining a plain enqueue) while the
	// enqueuer is inside a DisableQueueNotify scope that is its LAST notifying action; the waiter is delayed between its
	// predicate evaluation and its blocking
	sc.poller = 0;
	static const bool c11Mode = ctx().mode == "c11";
	if(timedScenario && QTraits<Q>::hasDqn && (c11Mode || rng.chance(1, 3))) {
		// template 4 (the waitFor clause of C11): events are enqueued inside a long DisableQueueNotify scope, 2-3 waiters poll with short
		// waitFor calls; when the scope ends ONE waiter is notified and is slow to drain, the others are inside a waitFor that began after
		// the enqueue had returned and that reaches its timeout with the events still pending and no DisableQueueNotify left
		count("template4_scenarios");
		sc.enqueuers = 1; sc.enqueuerProcesses = false;
		sc.waiters = 2 + (int)rng.below(2);
		for(int w = 0; w < 4; ++w) sc.shortMs[w] = 3 + (int)rng.below(5);
		sc.steps[0] = 1 + (int)rng.below(2);
		for(int i = 0; i < sc.steps[0]; ++i) sc.plan[0][i] = (uint32_t)((1 + rng.below(2)) | (rng.below(2) << 2) | (1u << 4));
		sc.longPauseUs = 12000 + (int)rng.below(8000);
		sc.slowDrainUs = 15000 + (int)rng.below(10000);
		sched().mode = 1; sched().pRandom = (int)rng.below(30);
	}
	else if(! timedScenario && rng.chance(1, 5)) {
		// template 3: plain enqueues (each one the only thing that can wake the waiter) while a third thread keeps taking the pending
		// events out and putting them back (processIf declining everything / processUntil stopping at once).  The enqueuer is delayed
		// between the two unlocked reads it may make to decide whether to notify.
		count("template3_scenarios");
		sc.poller = 1 + (int)rng.below(2);
		sc.enqueuers = 1;
		sc.enqueuerProcesses = false;
		sc.waiters = 1 + (int)rng.below(2);
		sc.steps[0] = 1 + (int)rng.below(4);
		for(int i = 0; i < sc.steps[0]; ++i) sc.plan[0][i] = (uint32_t)((rng.below(2) << 2) | (1u << 16) | (rng.below(700) << 17)); // 1-2 events, no DisableQueueNotify, pause afterwards
		Sched & s = sched();
		s.mode = 2;
		static const char * kT[] = { "atomic.load.racy", "atomic.load.racy", "atomic.load.racy", "unlock.post", "atomic.load.pre" };
		s.tag = tags().idOf(kT[rng.below(5)]);
		s.role = ROLE_ENQ;
		s.nth = 1 + (int)rng.below(3);
		s.delayUs = 300 + (int)rng.below(1500);
		s.pRandom = (int)(100 + rng.below(300));
		if(QTraits<Q>::hasDqn && rng.chance(1, 4)) {
			// template 5: the ONE enqueue is made inside a DisableQueueNotify scope; ending the scope is the only thing that can wake the
			// waiter, and it decides whether to notify while the poller keeps taking the event out and putting it back
			count("template5_scenarios");
			sc.steps[0] = 1; sc.plan[0][0] = (uint32_t)(1 | ((300 + rng.below(1000)) << 4)); // depth 1, one event, pause inside
			s.tag = tags().idOf("atomic.load.racy"); s.nth = 1; s.delayUs = 300 + (int)rng.below(1500);
			s.tag2 = tags().idOf("q.dqn.after-dec"); s.nth2 = 1; s.delayUs2 = (int)rng.below(300);
			s.pRandom = (int)rng.below(60);
		}
		else if(rng.chance(2, 3)) {
			// the sharpest form: ONE enqueue in the whole scenario; the enqueuer is delayed after releasing the queue mutex (the poller
			// takes the event out) and again before the second of its unlocked reads (the poller puts the event back)
			sc.steps[0] = 1; sc.plan[0][0] = 0;
			s.tag = tags().idOf("unlock.post"); s.nth = 1 + (int)rng.below(2); s.delayUs = 20 + (int)rng.below(400);
			s.tag2 = tags().idOf("atomic.load.racy"); s.nth2 = 1; s.delayUs2 = 300 + (int)rng.below(1500);
			s.pRandom = (int)rng.below(60);
		}
	}
	else if(! timedScenario && QTraits<Q>::hasDqn && rng.chance(1, 4)) {
		// template 2: one thread ends an EMPTY DisableQueueNotify scope while another thread makes a plain enqueue that is its
		// last action; the plain enqueuer is delayed around its read of the notification counter / before taking the queue mutex
		count("template2_scenarios");
		sc.enqueuers = 2;
		sc.waiters = 1 + (int)rng.below(2);
		sc.enqueuerProcesses = false;
		sc.steps[0] = 1; sc.plan[0][0] = (uint32_t)((1 + rng.below(3)) | (1u << 30) | ((200 + rng.below(1200)) << 4)); // empty scope with a pause inside
		sc.steps[1] = 1; sc.plan[1][0] = (uint32_t)(rng.below(2) << 2);                                              // plain enqueue of 1-2 events
		Sched & s = sched();
		s.mode = 2;
		static const char * kT[] = { "atomic.load.post", "atomic.load.post", "lock.pre", "atomic.load.pre", "racy-read.end" };
		s.tag = tags().idOf(kT[rng.below(5)]);
		s.role = ROLE_ENQ;
		s.nth = 1 + (int)rng.below(8);
		s.delayUs = 800 + (int)rng.below(2500);
	}
	else if(! timedScenario && rng.chance(1, 2)) {
		count("template_scenarios");
		sc.enqueuers = 1;
		if(rng.chance(2, 3)) sc.waiters = 1;
		const int n = 1 + (int)rng.below(3);
		sc.steps[0] = 2 * n;
		for(int i = 0; i < n; ++i) {
			sc.plan[0][2 * i] = (uint32_t)(rng.below(4) << 2);                                  // plain enqueue, no pause
			sc.plan[0][2 * i + 1] = (uint32_t)((1 + rng.below(3)) | (rng.below(4) << 2) | (rng.below(1200) << 4)); // DisableQueueNotify scope with a pause inside
		}
		Sched & s = sched();
		s.mode = 2;
		static const char * kT[] = { "cv.pred-false", "cv.pred-false", "atomic.load.post", "q.dqn.after-dec", "lock.post" };
		const uint32_t t = rng.below(5);
		s.tag = tags().idOf(kT[t]);
		s.role = t == 3 ? ROLE_ENQ : ROLE_WAITER;
		s.nth = 1 + (int)rng.below(t == 2 ? 12 : 5);
		s.delayUs = 500 + (int)rng.below(2500);
	}
	Sched & sd = sched();
	const uint64_t forcedBefore = sd.forced.load();

	std::string desc = std::string("config ") + cfgName + ": waiters=" + num(sc.waiters) + " (";
	for(int w = 0; w < sc.waiters; ++w) desc += std::string(w ? "," : "") + (sc.waitKind[w] == 0 ? "wait" : sc.waitKind[w] == 1 ? "waitFor(long)" : "waitFor(" + num(sc.shortMs[w]) + "ms)");
	desc += ") enqueuers=" + num(sc.enqueuers) + (sc.enqueuerProcesses ? " (enqueuers also call process())" : "") + (sc.throwing ? " (listeners fail now and then inside processOne)" : "") + (sc.poller == 1 ? " +poller(processIf declining all)" : sc.poller == 2 ? " +poller(processUntil stopping at once)" : "") + " sched.mode=" + num(sd.mode.load()) + " tag=" + (sd.mode.load() == 2 ? tags().name[sd.tag.load()] : "-") + " role=" + num(sd.role.load())
		+ " nth=" + num(sd.nth.load()) + " delayUs=" + num(sd.delayUs.load());
	oplog(desc);
	for(int e = 0; e < sc.enqueuers; ++e) {
		std::string s = "  enqueuer " + num(e) + ":";
		for(int i = 0; i < sc.steps[e]; ++i) { const int dd = QTraits<Q>::hasDqn ? (int)(sc.plan[e][i] & 3) : 0; s += " [dqn-depth=" + num(dd) + " events=" + num((dd > 0 && ((sc.plan[e][i] >> 30) & 1)) ? 0 : 1 + (int)((sc.plan[e][i] >> 2) & 3)) + "]"; }
		oplog(s);
	}

	WSink sink;
	callbackSink() = &sink;
	bool lost = false;
	{
		Runner<Q> * R = new Runner<Q>();
		R->sc = sc; R->caseSeed = ctx().curSeed;
		QTraits<Q>::listen(R->q);
		MonCV & cv = eventpp_verif::Access::cv(R->q);
		S->enqLeft = sc.enqueuers;
		std::vector<std::thread> th;
		int tid = 1;
		for(int w = 0; w < sc.waiters; ++w, ++tid) th.push_back(std::thread(&Runner<Q>::waiter, R, tid, w));
		for(int e = 0; e < sc.enqueuers; ++e, ++tid) th.push_back(std::thread(&Runner<Q>::enqueuer, R, tid, e));
		std::thread pollThread;
		if(sc.poller) pollThread = std::thread(&Runner<Q>::poller, R, tid++);

		// quiescence: enqueuers finished and every waiter is registered in the condition variable's waiter list
		// (or, for short waitFor scenarios, everything has been consumed)
		const std::chrono::steady_clock::time_point limit = std::chrono::steady_clock::now() + std::chrono::seconds(15);
		bool quiescent = false;
		while(std::chrono::steady_clock::now() < limit) {
			if(S->enqLeft.load(std::memory_order_seq_cst) == 0) {
				if(timedScenario) { if(S->dispatched.load() == S->enqueued.load()) { quiescent = true; break; } }
				else if((int)cv.parkedCount() == sc.waiters) { quiescent = true; break; }
			}
			std::this_thread::sleep_for(std::chrono::microseconds(200));
		}
		if(sc.poller && quiescent) {
			// the poller neither consumes nor notifies; stop it so that the state read below is stable, then make sure the waiters are still parked
			S->pollStop = true;
			pollThread.join();
			count("poller_calls", (uint64_t)S->polls.load());
			std::this_thread::sleep_for(std::chrono::milliseconds(2));
			if((int)cv.parkedCount() != sc.waiters) {
				quiescent = false;
				const std::chrono::steady_clock::time_point limit2 = std::chrono::steady_clock::now() + std::chrono::seconds(15);
				while(std::chrono::steady_clock::now() < limit2) { if((int)cv.parkedCount() == sc.waiters) { quiescent = true; break; } std::this_thread::sleep_for(std::chrono::microseconds(200)); }
			}
		}
		if(! quiescent) {
			std::string dkey; const std::string cyc = findDeadlock(dkey);
			if(! cyc.empty()) violation(dkey, cyc);
			else oplog("INCONCLUSIVE: scenario did not reach quiescence within 15 s (parked=" + num((long long)cv.parkedCount()) + ", dispatched=" + num(S->dispatched.load()) + "/" + num(S->enqueued.load()) + ")");
			writeResult();
			_exit(cyc.empty() ? 4 : 3);
		}
		if(! timedScenario) {
			// all waiters parked, nobody left to notify: the statement forbids this state when events are pending and notification is enabled
			const bool pending = ! R->q.emptyQueue();
			const int disabled = eventpp_verif::Access::notifyCounter(R->q);
			if(pending && disabled == 0) {
				lost = true;
				violation("lost-wake-up:every-waiter-parked-with-events-pending-and-notification-enabled",
					num((long long)cv.parkedCount()) + " waiter(s) parked, " + num(S->enqueued.load() - S->dispatched.load()) + " event(s) pending, no DisableQueueNotify alive, no thread left that could notify");
			}
			else if(disabled != 0) violation("structure:notify-counter-not-zero-at-quiescence", "counter=" + num(disabled));
			else if(S->dispatched.load() != S->enqueued.load()) violation("conservation:queue-empty-but-events-missing", num(S->dispatched.load()) + " dispatched of " + num(S->enqueued.load()));
		}
		// release everybody (harness escape hatch) and join
		S->stop = true;
		S->aborting = true;
		cv.abortWaits = true;
		cv.notify_all();
		std::atomic<bool> joined(false);
		std::thread releaser([&cv, &joined]() { while(! joined.load()) { cv.notify_all(); std::this_thread::sleep_for(std::chrono::microseconds(300)); } });
		for(size_t i = 0; i < th.size(); ++i) th[i].join();
		joined = true;
		releaser.join();

		count("cv.notifies", cv.notifies.load());
		count("cv.notifies_without_waiter", cv.notifiesWithoutWaiter.load());
		count("cv.parks", cv.parks.load());
		count("listener_failures_through_processOne", (uint64_t)S->listenerFailures.load());

		// (b) a wait() during whose entire duration a DisableQueueNotify object was alive must not return
		// (c) a wait()/waitFor()==true must overlap a moment at which some event could be pending
		if(kTicks && ! lost) {
			std::vector<Interval> dq;
			for(int t = 0; t < MAXTHREADS; ++t) dq.insert(dq.end(), S->dqns[t].begin(), S->dqns[t].end());
			std::vector<Interval> pr;
			for(int t = 0; t < MAXTHREADS; ++t) pr.insert(pr.end(), S->procs[t].begin(), S->procs[t].end());
			uint64_t nw = 0, overlapped = 0;
			for(int t = 0; t < MAXTHREADS && ! caseHasViolation(); ++t) for(size_t i = 0; i < S->waits[t].size(); ++i) {
				const Interval & w = S->waits[t][i];
				++nw;
				if(w.kind == 2) { count(w.result ? "waitFor.short.true" : "waitFor.short.timeout"); }
				else count(w.kind == 0 ? "wait.returned" : "waitFor.long.returned");
				if(w.kind != 0 && ! w.result && w.elapsedUs + 1000 < w.wantUs) { violation("waitFor:returned-false-before-timeout", "waitFor returned false after " + num(w.elapsedUs) + "us, timeout " + num(w.wantUs) + "us"); break; }
				if(w.kind != 0 && ! w.result) {
					// (d) C11: a waitFor that times out while no DisableQueueNotify object exists says "nothing pending": every event whose enqueue
					// had returned before the call began must have been consumed.  The final look at the queue happens after the deadline, so a
					// DisableQueueNotify excuses the result only if it may have been alive at some moment between (deadline - 1 ms) and the return.
					int pend = -1;
					for(int e = 0; e < MAXEV && pend < 0; ++e) {
						const uint64_t ed = S->enqDone[e].load(std::memory_order_relaxed);
						if(ed != 0 && ed < w.a && S->consStart[e].load(std::memory_order_relaxed) > w.b) pend = e;
					}
					if(pend >= 0) {
						bool excused = false;
						for(size_t k = 0; k < dq.size() && ! excused; ++k) if(dq[k].wb >= w.wa + w.wantUs - 1000 && dq[k].wa <= w.wb) excused = true;
						count(excused ? "waitFor.timeout.with_pending_event.excused_by_DisableQueueNotify" : "waitFor.timeout.with_pending_event.unexcused");
						if(! excused) { violation("waitFor:timed-out-with-event-pending-and-no-DisableQueueNotify", "waitFor(" + num(w.wantUs / 1000) + "ms) [" + unum(w.a) + "," + unum(w.b) + "] returned false although event " + num(pend) + " had been enqueued before the call began, was not dispatched before it returned, and no DisableQueueNotify object existed from 1 ms before its deadline on"); break; }
					}
					continue;
				}
				for(size_t k = 0; k < dq.size(); ++k) {
					if(dq[k].a < w.a && dq[k].b > w.b) { violation("wait:returned-while-DisableQueueNotify-alive-throughout", "wait [" + unum(w.a) + "," + unum(w.b) + "] returned although a DisableQueueNotify object lived over [" + unum(dq[k].a) + "," + unum(dq[k].b) + "]"); break; }
					if(dq[k].a < w.b && dq[k].b > w.a) ++overlapped;
				}
				if(caseHasViolation()) break;
				// wait()/waitFor()==true "only after observing a non-empty queue": some enqueue must at least have begun before the call returned
				// (a processing call in progress also makes the queue non-empty, so nothing stronger can be demanded)
				// and the processing call that consumed it must not have returned before the wait began (then neither the event nor the
				// "in dispatch" state it stands for existed at any moment of the call)
				bool possible = false, begun = false;
				for(int e = 0; e < MAXEV && ! possible; ++e) {
					const uint64_t es = S->enqStart[e].load(std::memory_order_relaxed);
					if(es != 0 && es < w.b) { begun = true; if(S->doneLate[e].load(std::memory_order_relaxed) > w.a) possible = true; }
				}
				if(! begun) { violation("wait:returned-before-any-enqueue-began", "wait/waitFor [" + unum(w.a) + "," + unum(w.b) + "] returned true although no enqueue had even begun before it returned"); break; }
				// a processing call in progress counts as "in dispatch" even when it finds nothing to take (it raises the counter first):
				// any processing call overlapping the wait explains the return; with a poller thread there always is one
				if(! possible && sc.poller) possible = true;
				for(size_t k = 0; k < pr.size() && ! possible; ++k) if(pr[k].a < w.b && pr[k].b > w.a) possible = true;
				if(! possible) { violation("wait:returned-although-nothing-was-pending-or-in-dispatch-during-the-call", "wait/waitFor [" + unum(w.a) + "," + unum(w.b) + "] returned true, but every event enqueued before it returned had been consumed (its processing call had returned) before the wait began, and no processing call overlapped the wait"); break; }
			}
			count("waits_checked", nw);
			count("wait_dqn_overlaps", overlapped);
		}
		count("events", (uint64_t)S->enqueued.load());
		size_t nd = 0; for(int t = 0; t < MAXTHREADS; ++t) nd += S->dqns[t].size();
		count("dqn_scopes", nd);
		delete R;
	}
	callbackSink() = nullptr;
	count("windows_forced", sd.forced.load() - forcedBefore);
	count("second_windows_forced", sd.forced2.exchange(0));
	if(sd.mode.load() == 2) count("targeted_cases");
	if(timedScenario) count("timed_scenarios"); else count("parking_scenarios");
	const uint64_t sh = syncHash().load(std::memory_order_relaxed);
	Fnv f; f.addu(sh); f.addu(caseNo);
	markNontrivial(kTicks ? sh : f.h);
	if(wantSample()) addSample("{\"case\":" + unum(caseNo) + ",\"scenario\":" + oplogJson(ctx().oplog, 8) + ",\"sync_order_hash\":" + unum(sh) + "}");
}

typedef eventpp::EventQueue<int, void(int, int), PolMon> WQ0;
typedef eventpp::EventQueue<int, void(int, int), PolMonSpin> WQ1;

static void runCase(uint64_t caseNo, Rng & rng)
{
	long long only = ctx().optInt("cfg", -1);
	const int cfg = only >= 0 ? (int)only : (int)(caseNo % 5);
	if(cfg == 4) runScenario<HQ>(caseNo, rng, "HeterEventQueue MonMutex");
	else if(cfg == 3) runScenario<WQ1>(caseNo, rng, "EventQueue MonMutex(SpinLock)");
	else runScenario<WQ0>(caseNo, rng, "EventQueue MonMutex(std::mutex)");
}

int main(int argc, char ** argv)
{
	return runMain(argc, argv, runCase, []() {
		TagTable & tt = tags();
		for(int i = 0; i < tt.n.load(); ++i) ctx().counters[std::string("tag.") + tt.name[i]] = tt.visits[i].load();
	});
}
