#!/usr/bin/env python3
"""Keep a confirmed seeded change: tools/keepseed.py <Cxx> <A|B> '<RESULT json>' '<unit tests line>' '<demo line>'
Copies patch.diff, demo.cpp, README.md from /tmp/wt_<Cxx>/_seed/<v>/ to /verif/seeded/<Cxx>-<v>/ and writes meta.json."""
import sys, os, json, shutil, re
V = os.path.dirname(os.path.dirname(os.path.abspath(__file__)))
pid, v, res, tests, demo = sys.argv[1:6]
prefix = sys.argv[6] if len(sys.argv) > 6 else '/tmp/wt_'
name = sys.argv[7] if len(sys.argv) > 7 else '%s-%s' % (pid, v)
src = '%s%s/_seed/%s' % (prefix, pid, v)
dst = os.path.join(V, 'seeded', name)
os.makedirs(dst, exist_ok=True)
for f in ('patch.diff', 'demo.cpp', 'README.md'):
    shutil.copy(os.path.join(src, f), os.path.join(dst, f))
readme = open(os.path.join(src, 'README.md')).read()
title = readme.strip().splitlines()[0].lstrip('# ').strip()
m = re.search(r'(?is)##\s*What it needs[^\n]*\n(.*?)(\n##|\Z)', readme)
needs = ' '.join(m.group(1).split())[:700] if m else ''
meta = dict(id=name, breaks_property=pid, origin='independent sub-agent given only the property text and a scratch worktree',
            title=title, needs_to_manifest=needs,
            confirmed=dict(unit_tests_with_change=tests, demo=demo, how='tools/seedcheck.py <dir> --verify --demo (scratch worktree of /repo HEAD, patch applied, tests/unittest built and run, demo.cpp compiled against patched and unpatched headers)'),
            checks_quick=json.loads(res))
json.dump(meta, open(os.path.join(dst, 'meta.json'), 'w'), indent=1)
print('kept', dst)
