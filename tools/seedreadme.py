#!/usr/bin/env python3
"""Generate seeded/README.md (detection matrix) from seeded/*/meta.json."""
import os, json, glob
V = os.path.dirname(os.path.dirname(os.path.abspath(__file__)))
rows = []
for f in sorted(glob.glob(os.path.join(V, 'seeded', '*', 'meta.json')) + glob.glob(os.path.join(V, 'seeded', 'self', '*', 'meta.json'))):
    m = json.load(open(f))
    rows.append((os.path.relpath(os.path.dirname(f), os.path.join(V, 'seeded')), m))
out = ['# Seeded changes and which checks catch them', '',
       'Every directory holds `patch.diff` (apply with `git -C /repo apply`), for the independently written ones also the author\'s',
       '`demo.cpp` + `README.md`, and `meta.json`.  `C??-A..J` (rounds 1-5: A/B, C/D, E/F, G/H, I/J) were written by fresh sub-agents that saw only the property text and a scratch',
       'worktree; `self/*` are the check author\'s own mutations (DESIGN §8).  "quick" = result of `./vcheck <ID> --tier quick` with the',
       'change applied (tools/seedcheck.py).  A change is expected to be caught by the check of the property it breaks; other columns are informative.',
       '`[rebased]`: later fix:/hook commits changed the lines the seed touches; `patch.diff` is the change re-made on the current tree, `patch.as-written.diff` the original.', '',
       '| change | breaks | what | detected by (quick) | not detected by | first violation keys |', '|---|---|---|---|---|---|']
for name, m in rows:
    res = m.get('checks_quick') or m.get('quick_results') or {}
    extra = m.get('checks_after_strengthening') or {}
    det = [k for k, v in sorted(res.items()) if v.get('rc') == 1] + ['%s (after strengthening)' % k for k, v in sorted(extra.items()) if v.get('rc') == 1 and res.get(k, {}).get('rc') != 1]
    mis = [k for k, v in sorted(res.items()) if v.get('rc') == 0 and extra.get(k, {}).get('rc') != 1]
    keys = []
    for k, v in sorted(list(res.items()) + list(extra.items()), key=lambda kv: kv[0]):
        keys += v.get('keys', [])[:2]
    what = m.get('title') or m.get('description') or ''
    if m.get('obsolete'): what = '[no longer a defect: ' + m['obsolete'].get('since', '') + '] ' + what
    elif m.get('rebased'): what = '[rebased] ' + what
    if m.get('not_claimed'): what = '[outside the statement: see meta.json] ' + what
    out.append('| %s | %s | %s | %s | %s | %s |' % (name, m.get('breaks_property') or ','.join(m.get('properties', [])), what.replace('|', '/')[:160], ', '.join(det) or '-', ', '.join(mis) or '-', '; '.join(dict.fromkeys(keys))[:200].replace('|', '/')))
open(os.path.join(V, 'seeded', 'README.md'), 'w').write('\n'.join(out) + '\n')
print('seeded/README.md: %d changes' % len(rows))
