#!/usr/bin/env python3
"""Self-validation of the monitors (DESIGN §8): apply small hand-written breaks to a scratch worktree and run the
checks that should notice.  Usage: tools/selfmut.py [name ...]   (no name = all).  Writes seeded/self/<name>/patch.diff
and prints a detection table.  These are the author's own mutations; the independently written ones are under seeded/C*/."""
import os, sys, subprocess, json
V = os.path.dirname(os.path.dirname(os.path.abspath(__file__)))
CL = 'include/eventpp/callbacklist.h'
ED = 'include/eventpp/eventdispatcher.h'
EQ = 'include/eventpp/eventqueue.h'
M = [
 ('cl-no-removed-mark', CL, '\t\tnode->counter = removedCounter;\n\n\t\tif(head == node) {', '\t\tif(head == node) {', 'C02,C03',
  'doFreeNode no longer marks the node removed: a callback removed before its turn is still called'),
 ('cl-tail-not-fixed', CL, '\t\tif(tail == node) {\n\t\t\ttail = node->previous;\n\t\t}\n', '', 'C01,C02',
  'doFreeNode does not update tail when the last node is removed'),
 ('cl-drop-mutex-remove', CL, '\t\tstd::lock_guard<Mutex> lockGuard(mutex);\n\t\tEVENTPP_VERIF_POINT("cl.remove.cs");', '\t\tEVENTPP_VERIF_POINT("cl.remove.cs");', 'C03',
  'remove() without the list mutex'),
 ('cl-reset-links-on-remove', CL, "\t\t// don't modify node->previous or node->next\n", "\t\tnode->next.reset();\n", 'C02',
  'doFreeNode clears the removed node\'s next link: an invocation standing on it stops early'),
 ('cl-no-wrap-reset', CL, '\t\t\t\twhile(node) {\n\t\t\t\t\tnode->counter = 1;\n\t\t\t\t\tnode = node->next;\n\t\t\t\t}', '\t\t\t\t(void)node;', 'C19',
  'generation wrap does not reset the nodes\' generations'),
 ('cl-swap-no-counter', CL, '\t\tconst auto value = currentCounter.load();\n\t\tcurrentCounter.exchange(other.currentCounter.load());\n\t\tother.currentCounter.exchange(value);\n', '', 'C10,C19',
  'swap does not exchange the generation counters'),
 ('cl-insert-lock-late', CL, '\t\t\tstd::lock_guard<Mutex> lockGuard(mutex);\n\t\t\tEVENTPP_VERIF_POINT("cl.insert.cs");\n\n\t\t\t// beforeNode may have been removed already but is still referenced\n\t\t\t// by a running invocation or by another thread, then append to the end.\n\t\t\tif(beforeNode->counter != removedCounter) {',
  '\t\t\tconst bool beforeLive = beforeNode->counter != removedCounter;\n\t\t\tstd::lock_guard<Mutex> lockGuard(mutex);\n\t\t\tEVENTPP_VERIF_POINT("cl.insert.cs");\n\n\t\t\tif(beforeLive) {', 'C03',
  'insert checks the removed marker before taking the mutex (check-then-act race with a concurrent remove)'),
 ('ed-find-no-mutex', ED, '\t\tstd::lock_guard<Mutex> lockGuard(self->listenerMutex);\n\t\tEVENTPP_VERIF_POINT("ed.find.cs");', '\t\tEVENTPP_VERIF_POINT("ed.find.cs");', 'C03',
  'dispatcher looks the listener list up without listenerMutex'),
 ('q-putback-at-end', EQ, '\t\t\t\t\tqueueList.splice(queueList.begin(), tempList);\n\t\t\t\t}\n\n\t\t\t\tif(! idleList.empty()) {\n\t\t\t\t\tstd::lock_guard<Mutex> queueListLock(freeListMutex);\n\t\t\t\t\tEVENTPP_VERIF_POINT("q.freeList.cs");\n\t\t\t\t\tfreeList.splice(freeList.end(), idleList);\n\t\t\t\t\t\n\t\t\t\t\treturn true;\n\t\t\t\t}\n\t\t\t}\n\t\t}\n\t\tEVENTPP_VERIF_RACY_READ_END();\n\t\t\n\t\treturn false;\n\t}\n\t\n\ttemplate <typename Predictor>\n\tbool processUntil',
  '\t\t\t\t\tqueueList.splice(queueList.end(), tempList);\n\t\t\t\t}\n\n\t\t\t\tif(! idleList.empty()) {\n\t\t\t\t\tstd::lock_guard<Mutex> queueListLock(freeListMutex);\n\t\t\t\t\tEVENTPP_VERIF_POINT("q.freeList.cs");\n\t\t\t\t\tfreeList.splice(freeList.end(), idleList);\n\t\t\t\t\t\n\t\t\t\t\treturn true;\n\t\t\t\t}\n\t\t\t}\n\t\t}\n\t\tEVENTPP_VERIF_RACY_READ_END();\n\t\t\n\t\treturn false;\n\t}\n\t\n\ttemplate <typename Predictor>\n\tbool processUntil', 'C05',
  'processIf puts declined events back at the END of the queue'),
 ('q-no-clear-in-process', EQ, '\t\t\t\t\t\ttypename MakeIndexSequence<sizeof...(Args)>::Type()\n\t\t\t\t\t);\n\t\t\t\t\titem.clear();\n\t\t\t\t}\n\n\t\t\t\tstd::lock_guard<Mutex> queueListLock(freeListMutex);',
  '\t\t\t\t\t\ttypename MakeIndexSequence<sizeof...(Args)>::Type()\n\t\t\t\t\t);\n\t\t\t\t}\n\n\t\t\t\tstd::lock_guard<Mutex> queueListLock(freeListMutex);', 'C08,C05',
  'process() recycles slots without clearing them'),
 ('q-emptyqueue-counter-first', EQ, 'return queueList.empty() && (queueEmptyCounter.load(std::memory_order_acquire) == 0);', 'return (queueEmptyCounter.load(std::memory_order_acquire) == 0) && queueList.empty();', 'C11',
  'emptyQueue reads the processing counter before the list'),
 ('q-processone-guard-late', EQ, '\t\t\tCounterGuard<decltype(queueEmptyCounter)> counterGuard(queueEmptyCounter);\n\n\t\t\t{\n\t\t\t\tstd::lock_guard<Mutex> queueListLock(queueListMutex);\n\t\t\t\tEVENTPP_VERIF_POINT("q.queueList.cs");\n\t\t\t\tif(! queueList.empty()) {\n\t\t\t\t\ttempList.splice(tempList.end(), queueList, queueList.begin());\n\t\t\t\t}\n\t\t\t}\n',
  '\t\t\t{\n\t\t\t\tstd::lock_guard<Mutex> queueListLock(queueListMutex);\n\t\t\t\tEVENTPP_VERIF_POINT("q.queueList.cs");\n\t\t\t\tif(! queueList.empty()) {\n\t\t\t\t\ttempList.splice(tempList.end(), queueList, queueList.begin());\n\t\t\t\t}\n\t\t\t}\n\t\t\tCounterGuard<decltype(queueEmptyCounter)> counterGuard(queueEmptyCounter);\n', 'C11',
  'processOne raises the processing counter only after the event left the queue'),
 ('q-takeevent-no-recheck', EQ, '\t\t\t\tif(! queueList.empty()) {\n\t\t\t\t\ttempList.splice(tempList.end(), queueList, queueList.begin());\n\t\t\t\t}\n\t\t\t}\n\n\t\t\tif(! tempList.empty()) {\n\t\t\t\t*queuedEvent',
  '\t\t\t\ttempList.splice(tempList.end(), queueList, queueList.begin());\n\t\t\t}\n\n\t\t\tif(! tempList.empty()) {\n\t\t\t\t*queuedEvent', 'C06',
  'takeEvent does not re-check emptiness under the mutex'),
 ('q-dqn-no-lock', EQ, '\t\t\t\t{\n\t\t\t\t\tstd::lock_guard<Mutex> queueListLock(queue->queueListMutex);\n\t\t\t\t}\n', '', 'C07',
  'the D7 repair reverted: ~DisableQueueNotify notifies without synchronising with waiters'),
 ('q-dqn-no-notify', EQ, '\t\t\t\tqueue->queueListConditionVariable.notify_one();\n\t\t\t}\n\t\t}\n\n\t\tEventQueueBase * queue;', '\t\t\t}\n\t\t}\n\n\t\tEventQueueBase * queue;', 'C07',
  '~DisableQueueNotify never notifies'),
 ('q-copy-uninit', EQ, ': super(other), queueEmptyCounter(0), queueNotifyCounter(0)', ': super(other)', 'C10,C20',
  'the D4 repair reverted for the copy constructor'),
 ('q-clearevents-no-lock', EQ, '\t\t\t{\n\t\t\t\tstd::lock_guard<Mutex> queueListLock(queueListMutex);\n\t\t\t\tEVENTPP_VERIF_POINT("q.queueList.cs");\n\t\t\t\tstd::swap(queueList, tempList);\n\t\t\t}\n\n\t\t\tif(! tempList.empty()) {\n\t\t\t\tfor(auto & item : tempList) {\n\t\t\t\t\titem.clear();',
  '\t\t\t{\n\t\t\t\tEVENTPP_VERIF_POINT("q.queueList.cs");\n\t\t\t\tstd::swap(queueList, tempList);\n\t\t\t}\n\n\t\t\tif(! tempList.empty()) {\n\t\t\t\tfor(auto & item : tempList) {\n\t\t\t\t\titem.clear();', 'C06',
  'clearEvents swaps the queue out without the mutex'),
]


def sh(cmd):
    return subprocess.run(cmd, shell=True, stdout=subprocess.PIPE, stderr=subprocess.STDOUT, text=True)


def main():
    want = sys.argv[1:]
    rows = []
    for (name, f, old, new, props, desc) in M:
        if want and name not in want:
            continue
        d = os.path.join(V, 'seeded', 'self', name)
        os.makedirs(d, exist_ok=True)
        wt = '/tmp/selfmut_wt'
        sh('git -C /repo worktree remove --force ' + wt)
        r = sh('git -C /repo worktree add -q --detach %s HEAD' % wt)
        p = os.path.join(wt, f)
        s = open(p).read()
        if s.count(old) != 1:
            print('%-28s PATTERN NOT FOUND (%d)' % (name, s.count(old)))
            sh('git -C /repo worktree remove --force ' + wt)
            continue
        open(p, 'w').write(s.replace(old, new))
        diff = sh('git -C %s diff -- include' % wt).stdout
        open(os.path.join(d, 'patch.diff'), 'w').write(diff)
        sh('git -C /repo worktree remove --force ' + wt)
        r = sh('%s %s --props %s' % (os.path.join(V, 'tools', 'seedcheck.py'), d, props))
        res = {}
        for line in r.stdout.splitlines():
            if line.startswith('RESULT '):
                res = json.loads(line[7:])
        json.dump(dict(name=name, origin='self (author of the checks)', description=desc, file=f, properties=props.split(','), quick_results=res), open(os.path.join(d, 'meta.json'), 'w'), indent=1)
        summary = ' '.join('%s=%s' % (k, 'DETECTED' if v['rc'] == 1 else ('ERR' if v['rc'] == 2 else 'missed')) for k, v in sorted(res.items()))
        print('%-28s %s   %s' % (name, summary, ' | '.join(','.join(v['keys'][:2]) for v in res.values())[:160]), flush=True)
    return 0


sys.exit(main())
