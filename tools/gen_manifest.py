#!/usr/bin/env python3
"""Regenerate MANIFEST.json from checks.py (so the two never disagree)."""
import json, os, sys
V = os.path.dirname(os.path.dirname(os.path.abspath(__file__)))
sys.path.insert(0, V)
from checks import CHECKS, NOT_APPLICABLE, HOOK_COMMITS
props = [json.loads(l) for l in open(os.path.join(V, 'properties.jsonl'))]
ids = [p['id'] for p in props]
checks = []
for pid in ids:
    if pid not in CHECKS:
        continue
    c = CHECKS[pid]
    checks.append(dict(
        property_id=pid,
        quick_cmd='./vcheck %s --tier quick' % pid,
        thorough_cmd='./vcheck %s --tier thorough' % pid,
        evidence_file='/verif/evidence/%s.json' % pid,
        replay_cmd_template='./vcheck %s --replay {path}' % pid,
        engine='vcheck',
        level_claimed=dict(category=c.get('level', 'exploration'), text=c['level_text'], design_ref=c.get('design_ref', 'DESIGN.md §5 ' + pid)),
        level_note=c['level_note'],
        technique=c['technique'],
    ))
na = [dict(property_id=p, reason=r) for p, r in NOT_APPLICABLE.items() if p not in CHECKS]
for pid in ids:
    assert pid in CHECKS or pid in NOT_APPLICABLE, pid
m = dict(
    version=1,
    setup_cmd='python3 tools/setup.py',
    hooks=dict(guard='EVENTPP_VERIF', enable='every driver is compiled with -DEVENTPP_VERIF -I/repo/include (header-only library; see vcheck build_one)',
               baseline_off_cmd='python3 tools/baseline.py', source_commits=HOOK_COMMITS, add_only=True),
    engines=[dict(name='vcheck', path='/verif/vcheck', serves_properties=sorted(CHECKS.keys()),
                  kind_free_text='python driver: compiles C++ monitor drivers (harness/) against the current /repo/include per sanitizer variant, runs them sharded, '
                                 'routes every violation/crash/sanitizer report through known_findings.txt, writes evidence')],
    checks=checks,
    not_applicable=na,
    notes='Technique family: runtime monitoring and sanitizers. See DESIGN.md.',
)
json.dump(m, open(os.path.join(V, 'MANIFEST.json'), 'w'), indent=1)
print('MANIFEST.json: %d checks, %d not_applicable' % (len(checks), len(na)))
