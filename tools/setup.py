#!/usr/bin/env python3
"""setup_cmd: warm the build cache - compile every (driver, variant) pair the QUICK tier needs against the current /repo/include.
Checks still rebuild whenever the library headers, the harness or the flags change (content-hashed cache)."""
import os, sys, time, importlib.util, importlib.machinery
from concurrent.futures import ThreadPoolExecutor
V = os.path.dirname(os.path.dirname(os.path.abspath(__file__)))
sys.path.insert(0, V)
spec = importlib.util.spec_from_loader('vcheck', importlib.machinery.SourceFileLoader('vcheck', os.path.join(V, 'vcheck')))
vc = importlib.util.module_from_spec(spec)
spec.loader.exec_module(vc)
pairs = set()
for pid, c in vc.CHECKS.items():
    for j in c['jobs']:
        if 'quick' in j.get('tiers', ('quick', 'thorough')):
            pairs.add((j['driver'], j['variant'], tuple(j.get('defs', ()))))
t0 = time.time()
bad = 0
with ThreadPoolExecutor(max_workers=16) as ex:
    for p, (exe, secs, err) in zip(sorted(pairs), ex.map(lambda p: vc.build_one(*p), sorted(pairs))):
        if exe is None:
            bad += 1
            print('FAILED', p, (err or '')[-3000:])
print('setup: %d binaries, %d failed, %.0fs' % (len(pairs), bad, time.time() - t0))
sys.exit(1 if bad else 0)
