#!/usr/bin/env python3
"""Build /repo/tests (target unittest) WITHOUT EVENTPP_VERIF and compare the
junit result with /root/.vp/BASELINE.json (299 stable_pass names)."""
import json, os, subprocess, sys, xml.etree.ElementTree as ET, shutil
B = '/verif/build/baseline'
def main():
    shutil.rmtree(B, ignore_errors=True)
    os.makedirs(B)
    r = subprocess.run(['cmake', '-S', '/repo/tests', '-B', B, '-G', 'Ninja', '-DCMAKE_BUILD_TYPE=RelWithDebInfo'],
                       stdout=subprocess.PIPE, stderr=subprocess.STDOUT, text=True)
    if r.returncode: print(r.stdout); return 2
    r = subprocess.run(['cmake', '--build', B, '--target', 'unittest', '-j16'], stdout=subprocess.PIPE, stderr=subprocess.STDOUT, text=True)
    if r.returncode: print(r.stdout[-4000:]); print('BASELINE build failed'); return 1
    xml = os.path.join(B, 'junit.xml')
    r = subprocess.run([os.path.join(B, 'unittest', 'unittest'), '-r', 'junit', '-o', xml])
    names = set()
    failed = set()
    for tc in ET.parse(xml).getroot().iter('testcase'):
        n = '%s::%s' % (tc.get('classname'), tc.get('name'))
        names.add(n)
        if tc.find('failure') is not None or tc.find('error') is not None: failed.add(n)
    want = set(json.load(open('/root/.vp/BASELINE.json'))['stable_pass'])
    missing = want - names
    bad = want & failed
    print('baseline: %d expected, %d present, %d failed, %d missing, exit=%d' % (len(want), len(names & want), len(bad), len(missing), r.returncode))
    for n in sorted(bad | missing)[:20]: print('  NOT PASSING:', n)
    shutil.rmtree(B, ignore_errors=True)
    return 0 if not bad and not missing else 1
sys.exit(main())
