#!/usr/bin/env python3
"""Run checks against a seeded change WITHOUT touching /repo, evidence/ or replays/.

  tools/seedcheck.py <dir with patch.diff> --props C01,C02 [--tier quick] [--verify]

Creates a scratch worktree of /repo HEAD under /tmp, applies patch.diff, optionally (--verify) builds and runs the
repository's unit tests there, then runs ./vcheck <ID> with VERIF_REPO pointing at the worktree.  Prints one line per
check: detected / not detected (+ the violation keys).  The worktree is removed afterwards."""
import sys, os, subprocess, re, shutil, json, hashlib
V = os.path.dirname(os.path.dirname(os.path.abspath(__file__)))
def sh(cmd, **kw):
    return subprocess.run(cmd, shell=True, stdout=subprocess.PIPE, stderr=subprocess.STDOUT, text=True, **kw)
def main():
    a = sys.argv[1:]
    d = os.path.abspath(a[0]); props = []; tier = 'quick'; verify = False; demo = False; demoflags = '-std=c++17 -O1 -g'; democc = 'g++'
    i = 1
    while i < len(a):
        if a[i] == '--props': props = a[i+1].split(','); i += 2
        elif a[i] == '--tier': tier = a[i+1]; i += 2
        elif a[i] == '--verify': verify = True; i += 1
        elif a[i] == '--demo': demo = True; i += 1
        elif a[i] == '--demoflags': demoflags = a[i+1]; i += 2
        elif a[i] == '--democc': democc = a[i+1]; i += 2
        else: raise SystemExit('bad arg ' + a[i])
    tag = hashlib.md5(d.encode()).hexdigest()[:8]
    wt = '/tmp/seedwt_' + tag
    sh('git -C /repo worktree remove --force %s' % wt)
    r = sh('git -C /repo worktree add -q --detach %s HEAD' % wt)
    if r.returncode: print(r.stdout); return 2
    try:
        pf = os.path.join(d, 'patch.rebased.diff') if os.path.exists(os.path.join(d, 'patch.rebased.diff')) else os.path.join(d, 'patch.diff')  # a seed written against an older HEAD, rebased by hand
        r = sh('git -C %s apply --whitespace=nowarn %s' % (wt, pf))
        if r.returncode:
            r = sh('cd %s && patch -p1 < %s' % (wt, pf))
            if r.returncode: print('PATCH DOES NOT APPLY:', r.stdout[-2000:]); return 2
        if verify:
            r = sh('cd %s && cmake -S tests -B _b -G Ninja -DCMAKE_BUILD_TYPE=RelWithDebInfo >/dev/null && cmake --build _b --target unittest -j16 2>&1 | tail -3 && _b/unittest/unittest | tail -3' % wt)
            print('UNIT TESTS:', r.stdout.strip().splitlines()[-1] if r.stdout.strip() else '?')
            shutil.rmtree(os.path.join(wt, '_b'), ignore_errors=True)
        if demo:
            # the demonstration must fail with the change and pass without it
            res = {}
            for label, inc in (('with-change', os.path.join(wt, 'include')), ('without-change', '/repo/include')):
                exe = '/tmp/seeddemo_%s_%s' % (tag, label)
                r = sh('%s %s -I%s %s -o %s -pthread 2>&1 | tail -5' % (democc, demoflags, inc, os.path.join(d, 'demo.cpp'), exe))
                if not os.path.exists(exe):
                    res[label] = 'COMPILE-FAILED ' + r.stdout[-300:]
                    continue
                try:
                    rr = subprocess.run([exe], stdout=subprocess.PIPE, stderr=subprocess.STDOUT, text=True, timeout=180, errors='replace')
                    res[label] = 'exit=%d %s' % (rr.returncode, (rr.stdout.strip().splitlines() or [''])[-1][:120])
                except subprocess.TimeoutExpired:
                    res[label] = 'TIMEOUT(180s)'
                os.remove(exe)
            print('DEMO: with change: %s | without: %s' % (res.get('with-change'), res.get('without-change')))
        out = {}
        for p in props:
            env = dict(os.environ, VERIF_REPO=wt, VERIF_SCRATCH=tag)
            r = subprocess.run([os.path.join(V, 'vcheck'), p, '--tier', tier], stdout=subprocess.PIPE, stderr=subprocess.STDOUT, text=True, env=env, cwd=V)
            keys = re.findall(r'key=(\S+)', r.stdout)
            last = [l for l in r.stdout.splitlines() if l.startswith('[%s] tier' % p)]
            out[p] = dict(rc=r.returncode, keys=keys[:6])
            print('%s: %s rc=%d %s' % (p, 'DETECTED' if r.returncode == 1 else ('HARNESS-ERROR' if r.returncode == 2 else 'not detected'), r.returncode, ' '.join(keys[:4])))
            if r.returncode == 2: print(r.stdout[-1500:])
            shutil.rmtree(os.path.join(V, 'build', p + '-' + tag), ignore_errors=True)
        print('RESULT ' + json.dumps(out))
    finally:
        sh('git -C /repo worktree remove --force %s' % wt)
        shutil.rmtree(os.path.join(V, 'build', 'cache-scratch-' + tag), ignore_errors=True)
    return 0
sys.exit(main())
