#!/usr/bin/env python3
"""Evaluate and keep the seeded changes a round's sub-agent delivered for one property.

  tools/roundeval.py <Cxx> [--prefix /tmp/w5_] [--variants I,J] [--round 5] [--recheck]

For each variant: reads `Build: <compiler> <flags>` from the author's README (default g++ -std=c++17 -O1 -g), runs
tools/seedcheck.py --verify --demo --props <Cxx> (scratch worktree; /repo, evidence/ and replays/ are not touched), and, when
the unit tests pass with the change and the demonstration fails with it and passes without it, keeps the change under
seeded/<Cxx>-<v>/ (tools/keepseed.py) with the quick-check result.  --recheck: the seed is already kept; re-run the
property's quick check against it and store the result as checks_after_strengthening."""
import sys, os, re, json, subprocess
V = os.path.dirname(os.path.dirname(os.path.abspath(__file__)))


def main():
    a = sys.argv[1:]
    pid = a[0]; prefix = '/tmp/w5_'; variants = ['I', 'J']; rnd = 5; recheck = False; props = None
    i = 1
    while i < len(a):
        if a[i] == '--prefix': prefix = a[i + 1]; i += 2
        elif a[i] == '--variants': variants = a[i + 1].split(','); i += 2
        elif a[i] == '--round': rnd = int(a[i + 1]); i += 2
        elif a[i] == '--props': props = a[i + 1]; i += 2
        elif a[i] == '--recheck': recheck = True; i += 1
        else: raise SystemExit('bad arg ' + a[i])
    for v in variants:
        name = '%s-%s' % (pid, v)
        if recheck:
            d = os.path.join(V, 'seeded', name)
            r = subprocess.run([os.path.join(V, 'tools', 'seedcheck.py'), d, '--props', props or pid], stdout=subprocess.PIPE, stderr=subprocess.STDOUT, text=True)
            m = re.search(r'^RESULT (.*)$', r.stdout, re.M)
            if not m: print(name, 'NO RESULT', r.stdout[-800:]); continue
            meta = json.load(open(os.path.join(d, 'meta.json')))
            meta.setdefault('checks_after_strengthening', {}).update(json.loads(m.group(1)))
            json.dump(meta, open(os.path.join(d, 'meta.json'), 'w'), indent=1)
            print(name, 'recheck', m.group(1))
            continue
        src = '%s%s/_seed/%s' % (prefix, pid, v)
        if not all(os.path.exists(os.path.join(src, f)) for f in ('patch.diff', 'demo.cpp', 'README.md')):
            print(name, 'INCOMPLETE delivery in', src); continue
        readme = open(os.path.join(src, 'README.md')).read()
        cc, flags = 'g++', '-std=c++17 -O1 -g'
        m = re.search(r'(?m)^\s*`?Build:\s*`?\s*(g\+\+|clang\+\+)\s+([^`\n]*)', readme)
        if m:
            cc = m.group(1)
            fl = [t for t in m.group(2).split() if t.startswith('-') and not t.startswith('-I') and t not in ('-o', '-pthread')]
            flags = ' '.join(fl) or flags
        r = subprocess.run([os.path.join(V, 'tools', 'seedcheck.py'), src, '--props', props or pid, '--verify', '--demo', '--democc', cc, '--demoflags', flags],
                           stdout=subprocess.PIPE, stderr=subprocess.STDOUT, text=True)
        out = r.stdout
        ut = re.search(r'^UNIT TESTS: (.*)$', out, re.M); dm = re.search(r'^DEMO: (.*)$', out, re.M); rs = re.search(r'^RESULT (.*)$', out, re.M)
        print('==', name, '|', ut.group(1) if ut else '?', '|', dm.group(1) if dm else '?', '|', rs.group(1) if rs else out[-600:])
        if not (ut and dm and rs): continue
        ok_tests = 'All tests passed' in ut.group(1)
        dmm = re.match(r'with change: exit=(\d+).*\| without: exit=(\d+)', dm.group(1))
        ok_demo = bool(dmm) and dmm.group(1) != '0' and dmm.group(2) == '0'
        if not (ok_tests and ok_demo):
            print(name, 'NOT KEPT (tests ok=%s demo ok=%s)' % (ok_tests, ok_demo)); continue
        subprocess.run([os.path.join(V, 'tools', 'keepseed.py'), pid, v, rs.group(1), ut.group(1), dm.group(1), prefix], check=True)
        mp = os.path.join(V, 'seeded', name, 'meta.json')
        meta = json.load(open(mp))
        meta['round'] = rnd
        meta['origin'] = 'independent sub-agent given only the property text and a scratch worktree (round %d: told the titles of the earlier seeds of the property, asked for other clauses and mechanisms)' % rnd
        meta['confirmed']['demo_build'] = cc + ' ' + flags
        json.dump(meta, open(mp, 'w'), indent=1)


main()
