"""Table of checks: which drivers/variants/modes decide which property (see DESIGN.md §5)."""

ASAN_ENV = {
    'ASAN_OPTIONS': 'detect_leaks=1:abort_on_error=0:exitcode=86:allocator_may_return_null=0:detect_stack_use_after_return=1',
    'UBSAN_OPTIONS': 'print_stacktrace=1:halt_on_error=1',
    'LSAN_OPTIONS': 'exitcode=87',
}
TSAN_ENV = {
    'TSAN_OPTIONS': 'halt_on_error=0:exitcode=0:second_deadlock_stack=1:history_size=4:log_path={log}',
}
_G = ['-g', '-fno-omit-frame-pointer']
VARIANTS = {
    'plain':      dict(cc='g++', flags=['-std=c++11', '-O2'] + _G),
    'clang-plain': dict(cc='clang++', flags=['-std=c++11', '-O2'] + _G),
    'plain20':    dict(cc='g++', flags=['-std=c++20', '-O2'] + _G),
    'plain17':    dict(cc='g++', flags=['-std=c++17', '-O2'] + _G),
    'asan':       dict(cc='g++', flags=['-std=c++11', '-O1', '-fsanitize=address,undefined', '-fno-sanitize-recover=all'] + _G, env=ASAN_ENV),
    'asan17':     dict(cc='g++', flags=['-std=c++17', '-O1', '-fsanitize=address,undefined', '-fno-sanitize-recover=all'] + _G, env=ASAN_ENV),
    'asan20':     dict(cc='g++', flags=['-std=c++20', '-O1', '-fsanitize=address,undefined', '-fno-sanitize-recover=all'] + _G, env=ASAN_ENV),
    'clang-asan20': dict(cc='clang++', flags=['-std=c++20', '-O1', '-fsanitize=address,undefined', '-fno-sanitize-recover=all', '-fno-sanitize=object-size'] + _G, env=ASAN_ENV),
    'clang-asan': dict(cc='clang++', flags=['-std=c++11', '-O1', '-fsanitize=address,undefined', '-fno-sanitize-recover=all', '-fno-sanitize=object-size'] + _G, env=ASAN_ENV),
    'clang-asan17': dict(cc='clang++', flags=['-std=c++17', '-O1', '-fsanitize=address,undefined', '-fno-sanitize-recover=all', '-fno-sanitize=object-size'] + _G, env=ASAN_ENV),
    'tsan':       dict(cc='g++', flags=['-std=c++11', '-O1', '-fsanitize=thread', '-DVF_TSAN'] + _G, env=TSAN_ENV, extra_src=['vlistshim.cpp']),
    'clang-tsan': dict(cc='clang++', flags=['-std=c++11', '-O1', '-fsanitize=thread', '-DVF_TSAN'] + _G, env=TSAN_ENV, extra_src=['vlistshim.cpp']),
    'tsan17':     dict(cc='g++', flags=['-std=c++17', '-O1', '-fsanitize=thread', '-DVF_TSAN'] + _G, env=TSAN_ENV, extra_src=['vlistshim.cpp']),
    'O0':         dict(cc='g++', flags=['-std=c++11', '-O0'] + _G),
    'asan17-fault': dict(cc='g++', flags=['-std=c++17', '-O1', '-fsanitize=address,undefined', '-fno-sanitize-recover=all'] + _G, env=ASAN_ENV, extra_src=['vnew.cpp']),
    'clang-asan17-fault': dict(cc='clang++', flags=['-std=c++17', '-O1', '-fsanitize=address,undefined', '-fno-sanitize-recover=all', '-fno-sanitize=object-size'] + _G, env=ASAN_ENV, extra_src=['vnew.cpp']),
}
# the C20 matrix: compiler x standard x optimisation
for _cc, _ccn in (('g++', 'gcc'), ('clang++', 'clang')):
    for _std in ('11', '14', '17', '20'):
        for _o in ('0', '2'):
            VARIANTS['m-%s-%s-O%s' % (_ccn, _std, _o)] = dict(cc=_cc, flags=['-std=c++' + _std, '-O' + _o, '-g'])


def J(driver, variant, mode, quick, thorough, **kw):
    d = dict(driver=driver, variant=variant, mode=mode, quick=quick, thorough=thorough)
    d.update(kw)
    return d


def JS(driver, variant, mode, quick, thorough, masks, macro='VF_CFG_MASK', **kw):
    """one job per configuration subset, so that the subsets compile in parallel"""
    out = []
    for m in masks:
        d = J(driver, variant, mode, quick, thorough, defs=['-D%s=0x%x' % (macro, m)], **kw)
        out.append(d)
    return out


M4 = [0x03, 0x0c, 0x30, 0x6c0]
CHECKS = {}

CHECKS['C01'] = dict(
    title='CallbackList invokes exactly the current callbacks, once each, in list order',
    level='exploration',
    rule='seeded histories of append/prepend/insert/remove/ownsHandle/empty/forEach/forEachIf/invoke/eventutil helpers over live, stale, '
         'empty and repeated handles and EQUAL callbacks added more than once, 9 configurations (4 prototypes, 6 policies, CallbackList and dispatcher lists), each step compared with '
         'the sequential model + structural walk + ledger; user code that runs INSIDE an operation (the callback copy constructor inside insert) may remove the referenced callback; the histories '
         'in which operations are issued from inside invocations (C02 programs, g++ and clang++ builds) and the histories that take the list across a wrap of its generation counter (C19 programs) are run as well, since they are list histories too; the placement rules (append at the back, prepend at the front, insert before the referenced callback or at the back) are also checked when the calls come from several threads (the CallbackList target of the C03 concurrent histories: the final order must be that of some sequential execution); a case is non-trivial when it contains >=1 successful remove and '
         '>=1 invocation; distinct = distinct hash of the full operation/result trace',
    jobs=JS('drv_cblist', 'asan', 'c01', 4000, 150000, M4, shards=4) + JS('drv_cblist', 'plain', 'c01', 8000, 300000, M4, seed_offset=1, shards=4)
         + JS('drv_cblist', 'plain', 'c02', 8000, 100000, M4, seed_offset=2, shards=4)
         + JS('drv_cblist', 'clang-asan', 'c01', 4000, 100000, M4, seed_offset=3, shards=4)
         + JS('drv_cblist', 'plain', 'c19', 8000, 100000, M4, seed_offset=4, shards=4)
         + JS('drv_cblist', 'clang-asan', 'c02', 4000, 60000, M4, seed_offset=5, shards=4)
         + [J('drv_cblist_mt', 'plain', '', 4000, 80000, opts={'cfg': '0'}, seed_offset=6, shards=8, shards_thorough=16, label='order-mt')],
    assumptions=['model M-list (DESIGN §4) is the specification', 'single-threaded histories; schedules are C03 (one concurrent job is borrowed from it for the placement rules)'],
    technique='differential runtime monitor: generated histories vs sequential reference model, structural-invariant walker, instance ledger, ASan+UBSan',
    level_text='Exploration: thousands (quick) to hundreds of thousands (thorough) of seeded operation histories over 8 policy/prototype configurations are executed on the real headers; '
               'every return value, every callback call with its arguments, every enumeration and the linked structure itself are compared with a sequential model after each step. '
               'Held on the histories run, not proved.',
    level_note='Trusted: the ~100-line model M-list, the harness generator, g++ 12 ASan/UBSan runtimes. Single-threaded histories only (C03 covers schedules).',
)

CHECKS['C02'] = dict(
    title='Callbacks may mutate or re-invoke the list that is invoking them, safely',
    level='exploration',
    rule='re-entrant programs: callbacks and enumeration functions run generated operations (append/prepend/insert/remove incl. the running, next and '
         'previous callback, already removed handles, ownsHandle, forEach, nested invoke to depth 3, other lists of the same dispatcher) chosen '
         'online from the model state; every nested result and every call is checked against per-invocation snapshot frames; non-trivial = '
         '>=1 successful remove and >=1 invocation; distinct = distinct trace hash; built with g++ AND clang++ (clang++ defines __GNUC__ 4, so CallbackList::operator() compiles its separate hand-unrolled "GCC 4" traversal there)',
    jobs=JS('drv_cblist', 'asan', 'c02', 16000, 300000, M4, shards=4) + JS('drv_cblist', 'plain', 'c02', 40000, 800000, M4, seed_offset=1, shards=4)
         + JS('drv_cblist', 'clang-asan', 'c02', 8000, 200000, M4, seed_offset=2, shards=4),
    assumptions=['model M-list snapshot semantics', 'foreign live handles are only passed to ownsHandle (documented precondition)'],
    technique='online snapshot-frame monitor over generated re-entrant programs (operations issued from inside callbacks to depth 3), ledger, ASan+UBSan',
    level_text='Exploration: re-entrant programs are generated online from the model state, so dangerous compositions (remove the running/next/previous callback, act through '
               'already removed but still referenced handles, nested invocation) are frequent; each nested result and call is checked against the snapshot semantics of the statement.',
    level_note='Trusted: model snapshot semantics = the statement; foreign live handles only passed to ownsHandle. Self-deadlock would show as a hang (reported after one retry).',
)

CHECKS['C03'] = dict(
    title='Listener management and dispatch are thread-safe and linearizable',
    level='exploration',
    rule='concurrent histories: 2-4 threads x 4-10 operations (append/prepend/insert before a shared handle/remove a shared handle/ownsHandle/empty/forEach/invoke) on one CallbackList or one '
         'EventDispatcher (2 keys, history partitioned per key; std::map and unordered_map), or on one HeterCallbackList / HeterEventDispatcher (two prototypes, history partitioned per prototype; half of these start with no per-prototype list created yet, so the first uses are concurrent), std::mutex and SpinLock, 1-6 pre-populated callbacks, handles published between threads; every call '
         'stamped (call, return) by one global atomic tick at the client boundary; after join: Wing-Gong/Lowe linearizability search against M-list with the final enumeration as last operation, '
         'direct at-most-once-removal / no-loss / no-duplication counts, traversal oracle (no callback twice; callbacks present throughout visited exactly once; none removed before / added after; '
         'order consistent with final list order), structural walk, ledger; a sixth of the homogeneous histories start just before the wrap of the generation counter; schedule perturbation off/random/targeted (incl. the window between before.lock() and the mutex in insert); TSan builds with g++ and clang++; '
         'the "every call returns without deadlock" clause is also exercised after exceptions: the callback-list and dispatcher families of the C09 fault enumeration continue each history after every injected fault (a lock left held shows as a hang -> watchdog); '
         'distinct_nontrivial = distinct lock-acquisition-order hashes (plain builds)',
    jobs=[J('drv_cblist_mt', 'plain', '', 40000, 600000, shards=8, shards_thorough=16),
          J('drv_cblist_mt', 'tsan', '', 2400, 40000, seed_offset=1, shards=8, shards_thorough=16),
          J('drv_cblist_mt', 'clang-tsan', '', 2400, 40000, seed_offset=4, shards=8, shards_thorough=16),
          J('drv_cblist_mt', 'clang-plain', '', 12000, 200000, seed_offset=5, shards=8, shards_thorough=16),
          J('drv_cblist_mt', 'asan', '', 6000, 60000, seed_offset=2, shards=8, shards_thorough=16),
          J('drv_fault', 'asan17-fault', '', 540, 9000, defs=['-DVF_CFG_MASK=0x03'], seed_offset=3, shards=4, shards_thorough=8),
          J('drv_fault', 'asan17-fault', '', 540, 9000, defs=['-DVF_CFG_MASK=0x0c'], seed_offset=3, shards=4, shards_thorough=8)],
    assumptions=['x86-TSO only', 'schedules reached by perturbation, not enumerated', 'a linearizability search time-out (5 s) is inconclusive and counted'],
    technique='recorded concurrent histories + offline linearizability checker (Wing-Gong with memoisation, per-key partitioning) + traversal oracle; seeded schedule perturbation through injected policies and guarded preemption points; TSan; ASan',
    level_text='Exploration: thousands of short concurrent histories (<=36 operations each so the search is exact), with race windows widened on purpose; any result set that no sequential execution explains is reported with the history.',
    level_note='Trusted: the checker (model M-list, real-time order from one seq_cst tick), the perturbing policy wrappers (no added synchronisation in TSan builds).',
    parallel=8,
)

MD = [0x007, 0x038, 0x1c0, 0xe00, 0x7000, 0x30000]
CHECKS['C04'] = dict(
    title="dispatch reaches exactly the dispatched event's listeners, arguments intact",
    level='exploration',
    rule='17 dispatcher configurations (one in the exclude-event form whose getEvent policy reads a later by-value movable argument; one with two custom mixins: by-value parameters - must not consume what the listeners get - and by-reference parameters that change an argument - must run exactly once and be seen by the listeners; keys: int, enum class, std::string, OrdKey(<)->std::map, HashKey(hash,==)->unordered_map with 4 buckets; prototypes by value / const& / & ; '
         'include- and exclude-event forms; getEvent policies reading a field, a by-value movable argument (taken by const& and BY VALUE) and a non-identity policy in the exclude-event form; user map; custom Callback; 3 threading policies) x seeded histories of '
         'append/prepend/insert/remove/hasAnyListener/ownsHandle/forEach/forEachIf per key over 5 keys (differing only in case/length, empty) interleaved with dispatches whose arguments are '
         'lvalues, const lvalues and temporaries; listeners consume whatever they receive as rvalues; every listener call is checked (which listener, order, argument fingerprints) online; '
         'built with g++ AND clang++ (opposite argument evaluation orders); "the listeners currently registered for the event" is also exercised while other threads register listeners of other events and dispatch (the two dispatcher targets - hashed and ordered map - of the C03 concurrent histories, ThreadSanitizer build, with their traversal oracle); non-trivial = >=1 successful remove and >=1 dispatch reaching >=2 listeners; distinct = trace hash',
    jobs=JS('drv_dispatch', 'asan', 'c04', 3600, 150000, MD, shards=4) + JS('drv_dispatch', 'clang-asan', 'c04', 3600, 150000, MD, seed_offset=1, shards=4)
         + [J('drv_cblist_mt', 'tsan', '', 640, 12000, opts={'cfg': '2'}, seed_offset=2, shards=8, shards_thorough=16, label='lookup-mt-hashed'),
            J('drv_cblist_mt', 'tsan', '', 640, 12000, opts={'cfg': '3'}, seed_offset=3, shards=8, shards_thorough=16, label='lookup-mt-ordered')],
    assumptions=['model M-disp', 'listeners of other keys are observed through the same sink: any call not expected by the dispatch frame is a violation'],
    technique='online differential monitor over a configuration product, two compilers with opposite argument evaluation order, consuming listeners, ASan+UBSan',
    level_text='Exploration: each configuration is run on thousands of histories under both compilers; a dispatch that reaches a wrong, missing or extra listener, or hands any listener an argument that '
               'differs from what the caller supplied (moved-from, truncated, wrong key) is caught at that call.',
    level_note='Trusted: model, generator; two compilers sample the unspecified-evaluation-order dimension.',
)

MQ = [0x03, 0x0c, 0x30, 0x40, 0x700, 0x800]
CHECKS['C05'] = dict(
    title='EventQueue consumes every queued event exactly once, in FIFO order',
    level='exploration',
    rule='seeded single-threaded histories (50-200 ops) of enqueue/process/processOne/processIf/processUntil/peekEvent/takeEvent/dispatch(QueuedEvent)/'
         'clearEvents/emptyQueue/waitFor(0)/listener changes, DisableQueueNotify objects created and destroyed in any order (they must change nothing but waitFor), with operations issued from inside listeners and predicates (depth<=2), 10 queue configurations '
         '(int/std::string keys, by-value/by-reference/move-only payloads, include/exclude-event forms, getEvent policies incl. non-identity in the exclude form and by-value parameter with temporaries, ordered lists incl. a QueueList policy template with a defaulted second parameter, a payload type with alignof 16 whose address is checked wherever it is handed out); the model '
         '"dispatched by a processing call exactly as dispatch would" includes the mixins of the policies: queues with MixinFilter (alone, and behind a vetoing mixin) run the C12 histories, in which every queued dispatch must pass the filters like a direct one; '
         'predicts the next callback (listener, predicate or return) and every real callback is compared with it; per-event state machine and payload '
         'ledger; argument types whose copy/move throws are inputs too: the queue families of the C09 fault enumeration check that an event whose enqueue failed is not in the queue and that no '
         'other event is lost, duplicated or destroyed twice; non-trivial = >=1 processing call with events and (>=1 re-queued event or >=1 nested operation); distinct = trace hash',
    jobs=JS('drv_queue', 'asan', 'c05', 2100, 100000, MQ, shards=4) + JS('drv_queue', 'plain', 'c05', 4200, 200000, MQ, seed_offset=1, shards=4)
         + [J('drv_fault', 'asan17-fault', '', 540, 9000, defs=['-DVF_CFG_MASK=0x30'], seed_offset=2, shards=8, shards_thorough=8),
            J('drv_filter', 'asan17', 'c12', 1500, 40000, defs=['-DVF_CFG_MASK=0x7'], opts={'cfg': '2'}, seed_offset=3, shards=4, shards_thorough=8, label='queued-as-dispatch-would-filter'),
            J('drv_filter', 'asan17', 'c12', 1500, 40000, defs=['-DVF_CFG_MASK=0x38'], opts={'cfg': '4'}, seed_offset=4, shards=4, shards_thorough=8, label='queued-as-dispatch-would-veto-filter')],
    assumptions=['model M-queue + M-disp (DESIGN §4) is the specification', 'single-threaded; schedules are C06'],
    technique='online next-callback-expectation monitor over generated queue histories with re-entrant listeners/predicates; per-event exactly-once state machine; payload ledger; ASan+UBSan',
    level_text='Exploration: every listener call, predicate call and return of a processing call on the real queue is compared with what the sequential model expects next, so a lost, duplicated, '
               're-ordered or wrongly routed event is caught at the callback where it shows; payload instances are counted so a slot recycled without clearing or a leaked event is caught at the next quiescent point.',
    level_note='Trusted: model M-queue/M-disp, generator, ASan/UBSan. Single-threaded histories.',
)

CHECKS['C06'] = dict(
    title='Concurrent producers and consumers never lose or duplicate an event',
    level='exploration',
    rule='generated scenarios: 1-4 producers x 10-80 uniquely numbered events, 1-4 consumers each with its own random mix of process/processOne/processIf/processUntil/takeEvent/peekEvent/'
         'clearEvents, on EventQueue with std::list and OrderedQueueList, std::mutex and SpinLock, all through an injected Threading policy (MonMutex/MonAtomic/MonCV) that perturbs the schedule at '
         'every lock/unlock/atomic operation/unlocked emptiness check/critical section: off, random, or one targeted window (tag x role x n-th visit) widened by 100-1000us; per-event atomic state '
         'machine (CAS: a second consumption is caught at once), conservation after the final drain, payload checksum, FIFO for single-consumer runs without selective predicates, watchdog that reports lock cycles and threads that stay blocked on a lock nobody holds; a C++20 build as well (library code guarded by feature-test macros, e.g. in SpinLock, only exists there); '
         'ThreadSanitizer build with instrumented std::list primitives (documented unlocked reads bracketed); distinct_nontrivial = distinct lock-acquisition-order hashes observed (plain builds)',
    jobs=[J('drv_queue_mt', 'plain', 'c06', 8000, 160000, shards=8, shards_thorough=16),
          J('drv_queue_mt', 'tsan', 'c06', 800, 12000, seed_offset=1, shards=8, shards_thorough=16),
          J('drv_queue_mt', 'asan', 'c06', 1600, 20000, seed_offset=2, shards=8, shards_thorough=16),
          J('drv_queue_mt', 'plain20', 'c06', 2400, 40000, seed_offset=3, shards=8, shards_thorough=16)],
    assumptions=['x86-TSO only', 'schedules reached by perturbation, not enumerated', 'HeterEventQueue concurrent runs not included yet'],
    technique='stress + seeded schedule perturbation through the injected Threading policy and guarded preemption points; exactly-once ledger (CAS state machine) + conservation + FIFO oracles; ThreadSanitizer with list shim; ASan',
    level_text='Exploration: thousands of multi-threaded runs with deliberately widened race windows; every consumption is recorded by compare-and-swap so duplication is caught at the event, loss at the drain; '
               'TSan reports any unsynchronised access other than the documented unlocked reads.',
    level_note='Trusted: the perturbing policy wrappers do not add synchronisation in TSan builds (relaxed atomics only); MonCV is an own condition variable (adds its internal mutex).',
    parallel=8,
)

CHECKS['C07'] = dict(
    title='wait/waitFor never miss a wake-up; DisableQueueNotify only defers it',
    level='exploration',
    rule='generated scenarios: 1-3 waiter threads (wait, waitFor(20s), or short waitFor) that drain the queue when released, 1-2 enqueuer threads whose steps are plain enqueues or enqueues inside '
         'DisableQueueNotify scopes nested 1-3 deep with pauses; EventQueue (std::mutex, SpinLock) and HeterEventQueue; injected Threading policy with an own condition variable that keeps an explicit '
         'waiter list (no spurious wake-ups), schedule perturbation off/random/targeted (waiter delayed between predicate and blocking, enqueuer delayed after the counter decrement, ...), half of the '
         'parking scenarios follow a template aimed at the window named in the statement; a fifth of them add a third thread that keeps taking the pending events out and putting them back '
         '(processIf declining everything / processUntil stopping at once) while the enqueuer is delayed after releasing the queue mutex and between its unlocked reads; verdicts from state at quiescence (enqueuers joined, every waiter in the waiter list): events pending + '
         'notification enabled => lost wake-up; the notification state belongs to the queue object: the single-threaded C10 queue programs copy and move queues whose source has live DisableQueueNotify objects and check waitFor on the new queue; wait() covered by one DisableQueueNotify lifetime must not return; waitFor false only after its timeout; wait/true only after some enqueue began; '
         'distinct_nontrivial = distinct lock-order hashes',
    jobs=[J('drv_wait', 'plain', '', 10000, 200000, shards=8, shards_thorough=16), J('drv_wait', 'tsan', '', 1200, 16000, seed_offset=1, shards=8, shards_thorough=16),
          J('drv_queue', 'asan', 'c10', 2000, 60000, defs=['-DVF_CFG_MASK=0x03'], seed_offset=2, shards=4)],
    assumptions=['liveness restated as a state verdict at quiescence (DESIGN §5 C07)', 'fairness among several waiters is not checked'],
    technique='stress with targeted schedule perturbation through injected Mutex/Atomic/ConditionVariable policies; parked-waiter state oracle; interval (tick) oracle; TSan',
    level_text='Exploration: thousands of scenarios, each with one race window deliberately widened; the lost-wake-up verdict is read from the condition variable\'s waiter list once nobody is left to notify.',
    level_note='Trusted: MonCV (own condition variable with std::condition_variable semantics), the tick clock (plain builds).',
    parallel=8,
)

CHECKS['C08'] = dict(
    title='Stored callbacks and arguments are destroyed exactly once, never leaked',
    level='exploration',
    rule='lifetime mode of the C01/C02/C10 list histories and the C05/C10 queue histories: long histories with heavy removal during invocation, recycled queue '
         'slots, copy/move/swap of containers holding content, destruction of containers with content; every callback/payload object is a counted type: double '
         'destruction, use after destruction and, at every quiescent point, live instances != model content are violations; LeakSanitizer at exit; '
         'the "exceptions" part of the statement is covered by running the C09 fault enumeration (ledger after every injected fault), the AnyData holder by the C17 driver; '
         'recycled queue slots are also exercised while producers and consumers run concurrently (the C06 runs, ASan and plain builds: a slot handed out again while its previous occupant is still alive, or a payload read after its consumer destroyed it, shows in the per-event state machine, the payload checksums, the assertions of the library itself and ASan); '
         'non-trivial/distinct as in C02/C05/C09/C17',
    jobs=JS('drv_cblist', 'asan', 'c08', 4000, 80000, M4, shards=4) + JS('drv_queue', 'asan', 'c08', 4200, 80000, MQ, seed_offset=2, shards=4)
         + JS('drv_fault', 'asan17-fault', '', 540, 9000, [0x03, 0x0c, 0x30, 0xc0, 0x100], seed_offset=3, shards=4, shards_thorough=8)
         + JS('drv_anydata', 'asan17', 'random', 9000, 300000, [1, 2, 4], macro='VF_CAP_MASK', seed_offset=4, shards=3, shards_thorough=5)
         + [J('drv_queue_mt', 'asan', 'c06', 1600, 20000, seed_offset=5, shards=8, shards_thorough=16, label='slots-mt'), J('drv_queue_mt', 'plain', 'c06', 3200, 60000, seed_offset=6, shards=8, shards_thorough=16, label='slots-mt')],
    assumptions=['a removed callback must be released by the next quiescent point (no invocation in progress)'],
    technique='instance ledger of counted callback/payload types checked at every quiescent point + ASan/LeakSanitizer, driven by the list and queue monitors in lifetime mode',
    level_text='Exploration: the ledger knows every live instance by kind and id; after each top-level operation the live set must equal what the model says the containers hold, and after destruction it must be empty.',
    level_note='Trusted: the counted types (magic word + per-id live counts), LeakSanitizer. Exceptions are C09.',
)

CHECKS['C09'] = dict(
    title='Exceptions propagate and leave every container consistent and leak-free',
    level='fault_enumeration',
    rule='9 target families (AnyData arguments in an EventQueue, inline and heap held objects; CallbackList with std::function and custom callback; EventDispatcher over std::map with a throwing key comparison/copy and over unordered_map with throwing hash/==; '
         'EventQueue with std::list and OrderedQueueList; ScopedRemover/CounterRemover/ConditionalRemover on list and dispatcher; HeterCallbackList/HeterEventDispatcher/HeterEventQueue) x generated '
         'histories of 8-20 operations; pass 1 counts, per operation, the points where user code runs (callback copy/invoke/==, payload copy/move, key copy/compare/hash, predicate, condition) or memory '
         'is allocated (replaced global operator new); pass 2 replays the history once for EVERY operation i and EVERY point k (evenly sampled above 40 per operation), arms the k-th point of operation i, '
         'requires the exception to reach the caller unchanged (VFault / bad_alloc; a throw that dies in noexcept is caught by the terminate handler), compares the observable content with the pre-call '
         'model for the strong-guarantee operations, with the read-back-and-constrained model for the others, continues the rest of the history under the model and checks the ledger after destruction; '
         '1 in 5 runs arms a second fault later; evaluations = histories, non-trivial = history with >=20 fault points, distinct = history hash',
    jobs=JS('drv_fault', 'asan17-fault', '', 1350, 27000, [0x03, 0x0c, 0x30, 0xc0, 0x100], shards=4, shards_thorough=8)
         + JS('drv_fault', 'clang-asan17-fault', '', 450, 6750, [0x0f, 0x1f0], seed_offset=1, shards=8, shards_thorough=8),
    assumptions=['takeEvent, ScopedRemover::reset and dispatcher copy-assignment are not in the statement\'s strong-guarantee list: after a fault their result is read back and only constrained',
                 'after an exception escaping a processing call any part of the batch may be gone, events enqueued meanwhile must all remain'],
    technique='fault enumeration: count-down throwing from every user-code point and every allocation of every operation of generated histories, differential model oracle, instance ledger, ASan+LeakSanitizer',
    level_text='Fault enumeration: within each generated history the fault space (operation x k-th fault point) is enumerated completely up to 40 points per operation, i.e. tens of thousands (quick) to millions '
               '(thorough) of injected faults, each followed by the consistency, usability and leak oracles.',
    level_note='Trusted: replay determinism of the generator (prefix replays identically), the replaced operator new, the model.',
)

CHECKS['C10'] = dict(
    title='Copies are independent, moves transfer, swaps exchange; results fully functional',
    level='exploration',
    rule='pool of 2-4 objects in raw storage pre-filled with 0x00/0xFF/0xA5/0x5C/random bytes before each placement-new; copy-construct, copy-assign (also self), '
         'move-construct, move-assign, swap (also self), destroy/re-create interleaved with the C01/C02 list histories (counters placed far apart through the guarded hook) '
         'and the C05 queue histories; after each such operation the result is enumerated (handles harvested through forEach) and, for queues, emptyQueue/waitFor(0)/enqueue/process '
         'are exercised; all later operations on every pool member stay under the model; heterogeneous containers (HeterCallbackList, HeterEventDispatcher, HeterEventQueue) and containers with '
         'filters (MixinFilter on EventDispatcher/EventQueue, MixinHeterFilter) get the same treatment in drv_copyheter, with a forced independence probe (mutate one, trigger the other) after every '
         'structural operation; a memcheck run leaves the pool storage undefined; non-trivial/distinct as C02/C05 (drv_copyheter: >=1 copy, >=1 move, >=1 swap where available, >=1 independence probe)',
    jobs=JS('drv_cblist', 'asan', 'c10', 4000, 150000, M4, shards=4) + JS('drv_queue', 'asan', 'c10', 2100, 80000, MQ, seed_offset=2, shards=4)
         + JS('drv_dispatch', 'asan', 'c10', 2400, 80000, MD, seed_offset=3, shards=4)
         + JS('drv_copyheter', 'asan17', 'c10', 12000, 300000, [0x07, 0x38], seed_offset=4, shards=4, shards_thorough=8)
         + JS('drv_copyheter', 'clang-asan17', 'long', 2400, 60000, [0x07, 0x38], seed_offset=6, shards=4, shards_thorough=8)
         + [J('drv_queue', 'O0', 'c10', 42, 1400, opts={'noprefill': '1'}, wrapper=['valgrind', '-q', '--error-exitcode=99', '--undef-value-errors=yes'], seed_offset=5, shards=14, shards_thorough=16, label='memcheck')],
    assumptions=['content of a moved-from source is not asserted (source is destroyed and re-created)', 'copy/move-assignment into a queue that still has pending events is not generated (the statement does not say what happens to them)',
                 'what swap and move do to FILTER chains is read back, not asserted (the statement speaks of listeners there); observed: move transfers filters, swap leaves them in place'],
    technique='differential runtime monitor with copy/move/swap operations on pre-filled raw storage; ASan+UBSan',
    level_text='Exploration: every copy/move/swap result is checked for content, independence (all later changes to either object are compared with separate models) and full function.',
    level_note='Trusted: models, generator. Uninitialised members are made visible by pre-filling the storage with hostile byte patterns.',
)

CHECKS['C11'] = dict(
    title='A queue is never reported empty while an event is pending or in dispatch',
    level='exploration',
    rule='(a) single-threaded: listeners and predicates running inside process/processOne/processIf/processUntil (nested to depth 2) call emptyQueue() and waitFor(0) '
         'and the result is compared with the model (pending non-empty or a processing call in progress => not empty); (b) concurrent: 1-2 observer threads spin on emptyQueue()/waitFor(0) while '
         'producers enqueue and consumers run process/processOne/processIf/processUntil/takeEvent/clearEvents under the perturbing policy (EventQueue with std::list and OrderedQueueList, std::mutex and SpinLock, HeterEventQueue); every call and every ledger transition carries a tick from one global atomic clock; '
         'offline join: an observation "empty" [tc,tr] is a violation if an event whose enqueue returned before tc was fully consumed (end of its listener / start of the take or clear call) only after tr; '
         '(c) the waitFor clause with real durations: events enqueued inside a long DisableQueueNotify scope, 2-3 threads polling with waitFor(3-7 ms); when the scope ends one waiter is notified and is slow to drain, the others reach their timeout with the events pending and no DisableQueueNotify left - a waitFor that returns false there (event enqueued before the call began, not dispatched before it returned, no DisableQueueNotify alive from 1 ms before the deadline on) is a violation; '
         'non-trivial: (a) as C05, (b) distinct lock-order hashes; the run reports how many observations had prior events',
    jobs=JS('drv_queue', 'asan', 'c11', 2100, 100000, MQ, shards=4)
         + [J('drv_queue_mt', 'plain', 'c11', 6000, 120000, seed_offset=3, shards=8, shards_thorough=16),
            J('drv_queue_mt', 'tsan', 'c11', 600, 10000, seed_offset=4, shards=8, shards_thorough=16),
            J('drv_wait', 'plain', 'c11', 640, 12000, seed_offset=5, shards=8, shards_thorough=16)],
    assumptions=['consumption-complete ticks are taken at the earliest moment the statement allows, so clock placement can hide but never invent a violation'],
    technique='online monitor (observer = listener) + offline history checker over tick-stamped observations and per-event ledger (observer = other thread), schedule perturbation, TSan',
    level_text='Exploration: millions of emptiness observations per thorough run, joined with the event ledger by logical time.',
    level_note='Trusted: one global seq_cst tick counter (plain builds only; TSan builds contribute race reports only).',
    parallel=8,
)

MF = [0x007, 0x038, 0x1c0, 0x600, 0x1800]
CHECKS['C12'] = dict(
    title='Filters and canContinueInvoking gate every dispatch, synchronous or queued',
    level='exploration',
    rule='13 configurations (MixinFilter on EventDispatcher/EventQueue with by-value and by-reference prototypes, two mixins in both orders, a mixin without interceptor before/after MixinFilter, '
         'MixinHeterFilter on HeterEventDispatcher, canContinueInvoking policies on CallbackList/EventDispatcher/EventQueue (taking int&, const&, forwarding template; and - in drv_cblist configuration 9 - a by-value std::string '
         'parameter on a by-value prototype, where handing the policy an rvalue would empty the argument for later listeners), conditionalFunctor and argumentAdapter listeners incl. shared_ptr casts) x '
         'seeded histories of filter/listener additions and removals and dispatches direct and queued (process/processOne/processIf), scripted filters that rewrite and veto, nested operations from inside '
         'filters/listeners; every filter and listener call is compared online with the model (order, arguments as seen, stop rules); non-triviality per configuration family (a dispatch blocked at chain '
         'position >0 or a rewrite verified downstream; a queued dispatch; a canContinue cut-off; adapter + both condition outcomes); distinct = trace hash + configuration',
    jobs=JS('drv_filter', 'asan17', 'c12', 30000, 600000, MF, shards=3, shards_thorough=6) + JS('drv_filter', 'clang-asan17', 'deep', 8000, 200000, MF, seed_offset=1, shards=3, shards_thorough=6)
         + [J('drv_cblist', 'asan', 'c02', 20000, 300000, defs=['-DVF_CFG_MASK=0x400'], seed_offset=2, shards=8, shards_thorough=16)],
    assumptions=['return values of removeFilter/removeListener/process are resynchronised, not asserted', 'listeners/filters are only added while no open dispatch is in its filter phase'],
    technique='online differential monitor (filter chain + listener model) over a configuration product, g++ and clang++, ASan+UBSan',
    level_text='Exploration: every filter and listener invocation of tens of thousands of generated dispatch histories is checked against the gate rules of the statement.',
    level_note='Trusted: model of the filter chain, generator. One configuration (interceptor-less mixin listed before MixinFilter) is a recorded known finding.',
)

CHECKS['C13'] = dict(
    title='OrderedQueueList processes events in comparator order, stably, exactly once',
    level='exploration',
    rule='the C05 histories on queues with QueueList=OrderedQueueList (ascending keys; key%4 descending with many ties): model keeps the pending list '
         'stably sorted, re-queued events merged before newer equals; independent per-call monotonicity/stability check from the dispatch trace; '
         'the "exactly once" part also for an enqueue that FAILS because the comparator throws (the ordered-queue family of the C09 fault enumeration: every comparison of every enqueue throws once; the event must then not be in the queue, the order of the others must be intact, and the history continues); '
         'stability of equal keys is also checked while producers keep enqueuing next to one consumer that takes events out and puts them back (processUntil): per producer and key the consumer must see enqueue order (the ordered configuration of the C06 concurrent runs); '
         'non-trivial as C05; distinct = trace hash',
    jobs=[J('drv_queue', 'asan', 'c13', 2000, 100000, defs=['-DVF_CFG_MASK=0x818'], shards=8),
          J('drv_queue', 'plain', 'c13', 4000, 200000, defs=['-DVF_CFG_MASK=0x818'], seed_offset=1, shards=8),
          J('drv_fault', 'asan17-fault', '', 600, 12000, defs=['-DVF_CFG_MASK=0x30'], opts={'kind': '5'}, seed_offset=2, shards=8, shards_thorough=16, label='throwing-comparator'),
          J('drv_queue_mt', 'plain', 'c06', 3200, 60000, opts={'cfg': '2'}, seed_offset=3, shards=8, shards_thorough=16, label='stability-mt')],
    assumptions=['comparators used are strict weak orders'],
    technique='online next-callback-expectation monitor with ordered-pending model + trace-level monotonicity/stability oracle; ASan+UBSan',
    level_text='Exploration: as C05, on ordered queue lists, with heavy key duplication.',
    level_note='Trusted: model, generator.',
)

MH = [1 << i for i in range(10)]
CHECKS['C14'] = dict(
    title='Heterogeneous classes route by prototype and never confuse stored types',
    level='exploration',
    rule='10 configurations (HeterCallbackList, HeterEventDispatcher exclude-/include-event incl. one without a getEvent policy, HeterEventQueue exclude-/include-event with int and std::string keys; events also passed as another type that converts to the key type (const char *, long); 7 prototype kinds with non-trivial payloads of '
         'different sizes in 3 listing orders; single and multi threading) x seeded histories of listener management, invocation/dispatch/enqueue with 16 argument shapes (lvalues, temporaries, convertible '
         'types), process/processOne/processIf with 11 predicates (one per prototype, several callable with 2,3 or all prototypes)/clearEvents, long enough to recycle queue slots across payload kinds; the '
         'expected prototype is computed by an independent std::is_invocable fold; every listener and predicate call is checked online; a processIf call must show its predicate every event that was queued when it began, '
         'prototype by prototype in list order up to and including the first prototype of which it accepted one (a call that returns false has examined everything); the large payload type asks for 16-byte alignment and its address is checked wherever it is handed out; payload ledger; non-trivial: queues - >=3 prototypes enqueued, a '
         'processIf over own and foreign events, a slot recycled to another kind, >=1 listener call; lists/dispatchers - listeners of >=3 prototypes, a callable accepted by several prototypes, a successful '
         'remove, >=1 call; distinct = trace hash + configuration; '
         'the heterogeneous family of the C09 fault enumeration is run as well: a copy of an argument that throws at any point of an enqueue (the third copy constructs the object inside the type-erased slot) must leave no slot tagged as holding an object it does not hold; "reaches exactly the callbacks bound to that prototype" is also checked while several threads add and remove callbacks of one prototype and invoke (the HeterCallbackList / HeterEventDispatcher targets of the C03 concurrent histories, per-prototype linearizability + traversal oracle; half of them start with no per-prototype list yet)',
    jobs=JS('drv_heter', 'asan17', 'all', 36000, 900000, MH, shards=2, shards_thorough=4) + JS('drv_heter', 'clang-asan17', 'pif', 18000, 360000, MH, seed_offset=1, shards=2, shards_thorough=4)
         + [J('drv_fault', 'asan17-fault', '', 480, 9000, defs=['-DVF_CFG_MASK=0xc0'], opts={'kind': '7'}, seed_offset=2, shards=8, shards_thorough=16, label='heter-under-faults'),
            J('drv_cblist_mt', 'plain', '', 4000, 80000, opts={'cfg': '5'}, seed_offset=3, shards=8, shards_thorough=16, label='heter-list-mt'),
            J('drv_cblist_mt', 'plain', '', 4000, 80000, opts={'cfg': '6'}, seed_offset=4, shards=8, shards_thorough=16, label='heter-dispatcher-mt'),
            J('drv_cblist_mt', 'tsan', '', 480, 8000, opts={'cfg': '5'}, seed_offset=5, shards=8, shards_thorough=16, label='heter-list-mt')],
    assumptions=['processIf completeness is not asserted (only: right prototypes, queue order per prototype, at most one examination per event, accepted events dispatched once, result)',
                 'listener changes from inside callbacks belong to C02'],
    technique='online differential monitor with independent prototype-selection oracle, typed payload ledger, slot-recycling model, g++ and clang++, ASan+UBSan (type confusion shows as wild reads)',
    level_text='Exploration over mixed-prototype histories under both compilers; ASan/UBSan turn type confusion on non-trivial payloads into reports.',
    level_note='Trusted: the harness\'s own is_invocable fold as the definition of "first listed prototype callable with".',
)

CHECKS['C15'] = dict(
    title='No listener added through a ScopedRemover outlives its remover',
    level='exploration',
    rule='pool of 3-5 ScopedRemover objects (some default-constructed) over 2 instances of CallbackList / EventDispatcher / EventQueue (6 configurations incl. SingleThreading); operations: add via '
         'remover and directly, remove via remover and directly, reset, setDispatcher/setCallbackList (same and other instance), move-construct, move-assign into empty and non-empty removers, swap, '
         'destroy in any order, some issued from inside callbacks; after every operation every target is triggered and the callbacks that run are compared with the model (responsibility sets, limbo groups '
         'for what a move-assignment destination held: either resolution accepted until the deadline); plus the remover family of the C09 fault enumeration (an allocation failure or throwing copy while a '
         'listener is being added through a remover must not leave it attached and unrecorded) and a concurrent stress (2-4 threads add and remove their own listeners through ONE remover under the perturbing '
         'Threading policy; afterwards exactly the kept listeners are attached and destroying the remover detaches all; TSan build); non-trivial = >=1 move-assignment or swap between removers and >=1 remover destroyed while responsible '
         'for an attached listener; distinct = trace hash',
    jobs=[J('drv_remover', 'asan17', '', 60000, 2000000, shards=8, shards_thorough=16), J('drv_remover', 'clang-asan17', '', 20000, 600000, seed_offset=1, shards=8, shards_thorough=16),
          J('drv_fault', 'asan17-fault', '', 960, 16000, defs=['-DVF_CFG_MASK=0xc0'], opts={'kind': '6'}, seed_offset=2, shards=8, shards_thorough=16),
          J('drv_remover_mt', 'plain', '', 6000, 120000, seed_offset=3, shards=8, shards_thorough=16),
          J('drv_remover_mt', 'tsan', '', 800, 12000, seed_offset=4, shards=8, shards_thorough=16),
          J('drv_remover_mt', 'asan', '', 1600, 24000, seed_offset=5, shards=8, shards_thorough=16)],
    assumptions=['a moved-from remover has an unknown target until re-targeted', 'wrong-key / foreign-handle removals are not generated (documented preconditions)'],
    technique='online differential monitor with responsibility model (M-remover), g++ and clang++, ASan+UBSan',
    level_text='Exploration: hundreds of thousands of remover histories; every target is dispatched after every operation so an orphaned or prematurely detached listener shows at once.',
    level_note='Trusted: model M-remover including the limbo rule, generator.',
)

CHECKS['C16'] = dict(
    title='CounterRemover and ConditionalRemover detach listeners exactly when promised',
    level='exploration',
    rule='CounterRemover with n in [-3,6] and ConditionalRemover with scripted outcome sequences (conditions with and without arguments, evaluations counted) on CallbackList, EventDispatcher, EventQueue, '
         'HeterCallbackList, HeterEventDispatcher; plain listeners around them added/removed during the history; triggers direct, queued and re-entrant from inside the wrapped listener (depth<=3); helper '
         'object destroyed right after registration; every trigger carries a unique argument so calls and condition evaluations are attributed; non-trivial = >=1 wrapped listener reached its detachment '
         'and >=1 later trigger of that list; distinct = trace hash; two more configurations (CallbackList, EventQueue) carry a canContinueInvoking policy on the trigger arguments - a quarter of their triggers are already "stopped" when dispatched and must reach exactly the first listener; '
         'a sixth of the histories on the homogeneous targets place the generation counter of the list(s) 0-9 additions before its wrap (guarded hook; no operations from inside listeners in those histories)',
    jobs=[J('drv_autoremove', 'asan17', '', 20000, 700000, shards=8, shards_thorough=16), J('drv_autoremove', 'clang-asan17', '', 6000, 200000, seed_offset=1, shards=8, shards_thorough=16)],
    assumptions=['explicit user removal of a wrapped listener is not generated (not covered by the statement)'],
    technique='online differential monitor (counter / first-true state machine on top of the snapshot list model), g++ and clang++, ASan+UBSan',
    level_text='Exploration over trigger counts, condition outcome sequences and re-entrant trigger shapes.',
    level_note='Trusted: model, generator.',
)

CHECKS['C17'] = dict(
    title='AnyData holds, moves and destroys its value like the value itself',
    level='exploration',
    rule='AnyData capacities 16, 24, 64; stored types: an address-tracked Blob<N> for EVERY N from 1 to capacity+24 (sizeof==N, so N==capacity and capacity+1 are always present), int, std::string '
         '(SSO and heap), unique_ptr, shared_ptr, move-only and shared boxes of size capacity and capacity+8; construction from lvalue/const lvalue/rvalue/const rvalue/temporary/held object (ledger must show '
         'copy vs move); reads through get, T&, T*, getAddress twice (value, stable address, alignment); isType for all 48-96 instantiated types; move chains 1-20 with holders destroyed in random order; '
         'round trips through EventQueue<int, void(const AnyData&)> (enqueue, dispatch, process*, clearEvents, destruction with events pending, re-entrant enqueue); random mode + exhaustive mode (every type x '
         'every construction form); plus the AnyData family of the C09 fault enumeration (a held object whose copy/move throws, or an allocation failure, at every point of enqueue/process: every held '
         'object still destroyed exactly once); non-trivial = held >=1 inline and >=1 heap object and performed >=1 AnyData move; distinct = trace hash',
    jobs=JS('drv_anydata', 'asan17', 'random', 30000, 1500000, [1, 2, 4, 8], macro='VF_CAP_MASK', shards=3, shards_thorough=5)
         + JS('drv_anydata', 'asan17', 'exhaustive', 240, 9000, [1, 2, 4, 8], macro='VF_CAP_MASK', seed_offset=1, shards=3, shards_thorough=5)
         + [J('drv_fault', 'asan17-fault', '', 720, 14400, defs=['-DVF_CFG_MASK=0x100'], opts={'kind': '8'}, seed_offset=2, shards=8, shards_thorough=16)],
    assumptions=['over-aligned types (alignment > 8) are not promised by the statement and not stored', 'takeEvent/peekEvent do not compile with an AnyData argument and are not used'],
    technique='differential runtime monitor with address-tracked payload ledger, exhaustive sweep over object sizes 1..capacity+24 and construction forms, ASan+UBSan',
    level_text='Exploration + exhaustive size sweep: every size around the inline/heap boundary is stored, moved, queued and destroyed under the ledger.',
    level_note='Trusted: the Blob registry (address keyed), generator.',
)

CHECKS['C18'] = dict(
    title='AnyId keys are coherent: equality, ordering and hash agree',
    level='exploration',
    rule='8 configurations: Digester {std::hash, SmallHash (signed, range 4, salted per type: collisions across and within types)} x Storage {VStore (type tag + text, == and <), TStore (normalising: text only, == and <), EmptyAnyStorage, NStore '
         '(stores the value, no operators)}; per case a pool of 36-44 ids from ints/longs/chars/strings with duplicates and cross-type equal numbers; ALL ordered pairs and ALL triples of the pool checked '
         'for: == equivalence, < strict weak order, incomparability classes == equality classes, equal ids hash equally (also on copies), an id copy- or move-assigned over any other id of the pool is the assigned id (equal, incomparable, same hash), ground truth (value equality for VStore, digest equality otherwise); '
         'routing through EventDispatcher with unordered_map (default) and std::map (policy): exactly the listeners registered under ground-truth-equal ids run; non-trivial = pool has >=1 colliding-digest '
         'unequal pair and >=1 duplicate; distinct = trace hash; exhaustive within each pool',
    jobs=[J('drv_anyid', 'asan17', 'mixed', 24000, 1200000, shards=8, shards_thorough=16), J('drv_anyid', 'clang-asan17', 'dense', 8000, 300000, seed_offset=1, shards=8, shards_thorough=16),
          J('drv_anyid', 'asan20', 'mixed', 8000, 300000, seed_offset=2, shards=8, shards_thorough=16)],
    assumptions=['statement covers Storage types supporting both == and <, or neither'],
    technique='algebraic-law monitor: all pairs and triples of generated id pools + routing oracle through both map kinds, g++ (C++17, C++20) and clang++, ASan+UBSan',
    level_text='Exploration: ~64k triples per pool, tens of thousands of pools per quick run.',
    level_note='Trusted: ground-truth equality defined by the harness per storage kind.',
)

CHECKS['C19'] = dict(
    title='Generation-counter wrap-around never loses or resurrects a callback',
    level='exploration',
    rule='C01/C02/C10 histories in which the generation counter is placed 0..40 steps before 2^32 (guarded hook) at random points - idle, inside '
         'callbacks of running nested invocations, around copy/move/swap - and the history continues; invocations in progress at an observed wrap '
         'are relaxed exactly as stated, all others strict; the wrap is also crossed while several threads add, remove and invoke (the concurrent histories of C03, every one started just before the wrap, g++ and clang++ builds: a callback present for the whole duration of an invocation must be visited by it); non-trivial = >=1 remove and >=1 invocation; distinct = trace hash',
    jobs=JS('drv_cblist', 'asan', 'c19', 12000, 200000, M4, shards=4) + JS('drv_cblist', 'plain', 'c19', 32000, 600000, M4, seed_offset=1, shards=4)
         + JS('drv_cblist', 'clang-asan', 'c19', 6000, 100000, M4, seed_offset=2, shards=4)
         + [J('drv_cblist_mt', 'plain', '', 6000, 100000, opts={'nearwrap': '1'}, seed_offset=3, shards=8, shards_thorough=16),
            J('drv_cblist_mt', 'clang-plain', '', 6000, 100000, opts={'nearwrap': '1'}, seed_offset=4, shards=8, shards_thorough=16)],
    assumptions=['the wrap is observed by reading the real counter through the guarded friend hook'],
    technique='runtime monitor with guarded counter-placement hook: histories continue across an observed 2^32 wrap; relaxed frames for in-progress invocations only',
    level_text='Exploration: the generation counter is placed 0..40 additions before 2^32 at random points (idle, inside callbacks, around copy/move/swap); thousands of real wraps are '
               'observed per run and the invocations before, during and after are checked against the model.',
    level_note="Trusted: the friend hook that stores currentCounter (equivalent to the suite's #define private public); wrap detection reads the real counter.",
)

def _c20_jobs():
    quick = ['m-gcc-11-O2', 'm-clang-11-O2', 'm-gcc-20-O2', 'm-clang-20-O0']
    allv = ['m-%s-%s-O%s' % (c, st, o) for c in ('gcc', 'clang') for st in ('11', '14', '17', '20') for o in ('0', '2')]
    jobs = []
    for v in allv:
        tiers = ('quick', 'thorough') if v in quick else ('thorough',)
        for drv, mask in (('drv_cblist', 0x100), ('drv_dispatch', 0x8000), ('drv_queue', 0x80)):
            jobs.append(J(drv, v, 'c20', 1200, 8000, defs=['-DVF_CFG_MASK=0x%x' % mask], shards=4, shards_thorough=4, tiers=tiers))
    # prior memory: plain -O0 builds with the pool storage left UNDEFINED, under valgrind memcheck (uninitialised reads are fatal)
    vg = ['valgrind', '-q', '--error-exitcode=99', '--undef-value-errors=yes', '--track-origins=no']
    for drv, mask in (('drv_cblist', 0x100), ('drv_dispatch', 0x8000), ('drv_queue', 0x80)):
        jobs.append(J(drv, 'm-gcc-11-O0', 'c20', 16, 400, defs=['-DVF_CFG_MASK=0x%x' % mask], opts={'noprefill': '1'}, wrapper=vg, seed_offset=7, shards=8, shards_thorough=16, label='memcheck'))
    # prior memory for AnyId keys (default-initialised ids in pre-filled storage)
    jobs.append(J('drv_anyid', 'asan17', 'mixed', 2400, 60000, seed_offset=9, shards=8, shards_thorough=16, label='anyid'))
    # prior memory through a key built from a convertible event argument (const char * -> std::string): heterogeneous dispatcher / queue with std::string keys
    for v, so in (('asan17', 10), ('clang-asan17', 11)):
        jobs.append(J('drv_heter', v, 'all', 3000, 60000, defs=['-DVF_CFG_MASK=0x220'], opts={'tag': 'c20'}, seed_offset=so, shards=4, shards_thorough=8, label='heter-keys'))
    # compiler / standard level as a configuration of the queue with movable (std::string) keys and temporaries enqueued: `return e;` of an
    # rvalue-reference parameter copies with g++ up to C++17 and moves with g++ -std=c++20 and with clang++ at every level
    for v, so in (('asan20', 12), ('clang-asan', 13)):
        jobs.append(J('drv_queue', v, 'c05', 700, 20000, defs=['-DVF_CFG_MASK=0x3'], opts={'cfg': '1'}, seed_offset=so, shards=4, shards_thorough=8, label='string-keys'))
        jobs.append(J('drv_queue', v, 'c05', 700, 20000, defs=['-DVF_CFG_MASK=0x700'], opts={'cfg': '8'}, seed_offset=so, shards=4, shards_thorough=8, label='string-keys-getevent-by-value'))
    # threading policy under faults: after an exception inside listener management a really locking policy (std::mutex) must be as
    # usable as the no-op one (dispatcher families of the C09 fault enumeration: default policies and SingleThreading; a lock left held = hang)
    jobs.append(J('drv_fault', 'asan17-fault', '', 360, 6000, defs=['-DVF_CFG_MASK=0x0c'], opts={'tag': 'c20'}, seed_offset=14, shards=4, shards_thorough=8, label='policies-under-faults'))
    return jobs


def _c20_post(cov, counters, tier, log, perjob, pid):
    """the same seeds under every build must give the same trace accumulator per driver"""
    import json, os
    by_driver = {}
    for (drv, mode, variant, opts), c in perjob.items():
        if opts:
            continue  # memcheck runs use another option set
        by_driver.setdefault(drv, {})[variant] = (c.get('trace_xor_hi', 0) << 32 | c.get('trace_xor_lo', 0), c.get('cases_run', 0))
    rc = 0
    table = {}
    for drv, m in sorted(by_driver.items()):
        vals = set(m.values())
        table[drv] = {v: '%016x/%d' % x for v, x in sorted(m.items())}
        if len(vals) > 1:
            path = os.path.join(os.path.dirname(os.path.abspath(__file__)), 'replays', '%s-%s-cross-build.json' % (pid, drv))
            os.makedirs(os.path.dirname(path), exist_ok=True)
            json.dump(dict(property=pid, driver=drv, key='c20:trace-differs-between-builds', per_build=table[drv]), open(path, 'w'), indent=1)
            log('VIOLATION property=%s replay=%s' % (pid, path))
            log('   key=c20:trace-differs-between-builds :: %s produced different trace accumulators: %s' % (drv, table[drv]))
            rc = 1
    cov['builds_compared'] = table
    cov['builds'] = sorted(set(v for m in by_driver.values() for v in m))
    return rc


CHECKS['C20'] = dict(
    title='Behaviour is independent of policies, compiler, standard level, prior memory',
    level='exploration',
    rule='policy families: the SAME generated program (C01/C02/C10 list programs incl. copy/move/swap and counter wrap; C04/C10 dispatcher programs; C05/C10 queue programs) is run under every member of a family '
         'that differs only in policies - lists: {std::mutex+std::function, SingleThreading, SpinLock, custom callback+Single, custom callback+SpinLock}; dispatchers: {default unordered_map, SingleThreading, '
         'std::map, user map(std::greater)+Single, IncludeEvent+SpinLock, custom callback}; queues (argument type with alignof 16: misplaced storage works at -O0 and faults at -O2): {default, Single, SpinLock, std::map+custom callback, IncludeEvent+Single} - each member checked against the model '
         'in-process and the observable traces (operations, results, calls with arguments) compared by hash; a second dispatcher family has a by-value std::string key in the prototype (the shape on which unspecified argument evaluation order shows); build matrix: g++ 12 / clang++ 14 x -std=c++11/14/17/20 x -O0/-O2 (4 builds quick, 16 thorough), same '
         'seeds, per-driver trace accumulators compared across builds; heterogeneous dispatcher and queue with std::string keys whose events are also passed as const char * (the key object the library builds must outlive its use: ASan), g++ and clang++; pool storage pre-filled with 0x00/0xFF/0xA5/0x5C/random before construction, plus a memcheck run with the storage left undefined; '
         'the queue configurations with movable std::string keys and temporaries enqueued (default getEvent, and a getEvent policy taking the key by value) are also built with g++ -std=c++20 and clang++ (an rvalue-reference parameter returned by name is copied up to C++17 and moved from C++20 on / by clang++); '
         'threading policy under faults: the dispatcher families of the C09 fault enumeration (default = std::mutex, and SingleThreading) must stay equally usable after every injected exception (a lock left held on an exception path hangs only the locking policies); '
         'evaluations = programs x family members x builds; distinct = trace hash',
    jobs=_c20_jobs(),
    post=_c20_post,
    assumptions=['"any conforming compiler" is sampled at the two installed compilers (opposite argument evaluation orders)', 'own PRNG and distributions: the same program is generated under every build'],
    technique='differential execution of identical generated programs across policy families and a compiler x standard x optimisation build matrix, each run under the model monitor; valgrind memcheck for prior-memory independence',
    level_text='Exploration: every program runs 5-6 times per build under different policies and in 4 (quick) / 16 (thorough) builds; any difference in the observable trace between two of them, or from the model, is a violation.',
    level_note='Trusted: the trace canonicalisation (no addresses/timing), the two installed compilers.',
    timeout_quick=1500,
)

HOOK_COMMITS = ['104b3fd', '2c7a501', '6ad2faa', 'f317eda', '2616476']

NOT_APPLICABLE = {}
for _i in range(1, 21):
    _p = 'C%02d' % _i
    if _p not in CHECKS:
        NOT_APPLICABLE[_p] = 'check not built yet (work in progress; runtime monitoring applies - see DESIGN.md §5)'
