"""Table of checks: which drivers/variants/modes decide which property (see DESIGN.md §5)."""

ASAN_ENV = {
    'ASAN_OPTIONS': 'detect_leaks=1:abort_on_error=0:exitcode=86:allocator_may_return_null=0:detect_stack_use_after_return=1',
    'UBSAN_OPTIONS': 'print_stacktrace=1:halt_on_error=1',
    'LSAN_OPTIONS': 'exitcode=87',
}
TSAN_ENV = {
    'TSAN_OPTIONS': 'halt_on_error=0:exitcode=0:second_deadlock_stack=1:history_size=4:log_path={log}',
}
_G = ['-g', '-fno-omit-frame-pointer']
VARIANTS = {
    'plain':      dict(cc='g++', flags=['-std=c++11', '-O2'] + _G),
    'plain17':    dict(cc='g++', flags=['-std=c++17', '-O2'] + _G),
    'asan':       dict(cc='g++', flags=['-std=c++11', '-O1', '-fsanitize=address,undefined', '-fno-sanitize-recover=all'] + _G, env=ASAN_ENV),
    'asan17':     dict(cc='g++', flags=['-std=c++17', '-O1', '-fsanitize=address,undefined', '-fno-sanitize-recover=all'] + _G, env=ASAN_ENV),
    'clang-asan': dict(cc='clang++', flags=['-std=c++11', '-O1', '-fsanitize=address,undefined', '-fno-sanitize-recover=all', '-fno-sanitize=object-size'] + _G, env=ASAN_ENV),
    'clang-asan17': dict(cc='clang++', flags=['-std=c++17', '-O1', '-fsanitize=address,undefined', '-fno-sanitize-recover=all', '-fno-sanitize=object-size'] + _G, env=ASAN_ENV),
    'tsan':       dict(cc='g++', flags=['-std=c++11', '-O1', '-fsanitize=thread', '-DVF_TSAN'] + _G, env=TSAN_ENV, extra_src=['vlistshim.cpp']),
    'tsan17':     dict(cc='g++', flags=['-std=c++17', '-O1', '-fsanitize=thread', '-DVF_TSAN'] + _G, env=TSAN_ENV, extra_src=['vlistshim.cpp']),
    'O0':         dict(cc='g++', flags=['-std=c++11', '-O0'] + _G),
}
# the C20 matrix: compiler x standard x optimisation
for _cc, _ccn in (('g++', 'gcc'), ('clang++', 'clang')):
    for _std in ('11', '14', '17', '20'):
        for _o in ('0', '2'):
            VARIANTS['m-%s-%s-O%s' % (_ccn, _std, _o)] = dict(cc=_cc, flags=['-std=c++' + _std, '-O' + _o, '-g'])


def J(driver, variant, mode, quick, thorough, **kw):
    d = dict(driver=driver, variant=variant, mode=mode, quick=quick, thorough=thorough)
    d.update(kw)
    return d


def JS(driver, variant, mode, quick, thorough, masks, **kw):
    """one job per configuration subset, so that the subsets compile in parallel"""
    out = []
    for m in masks:
        d = J(driver, variant, mode, quick, thorough, defs=['-DVF_CFG_MASK=0x%x' % m], **kw)
        out.append(d)
    return out


M4 = [0x03, 0x0c, 0x30, 0xc0]
CHECKS = {}

CHECKS['C01'] = dict(
    title='CallbackList invokes exactly the current callbacks, once each, in list order',
    level='exploration',
    rule='seeded histories of append/prepend/insert/remove/ownsHandle/empty/forEach/forEachIf/invoke/eventutil helpers over live, stale, '
         'empty and repeated handles, 8 configurations (3 prototypes, 4 policies, CallbackList and dispatcher lists), each step compared with '
         'the sequential model + structural walk + ledger; a case is non-trivial when it contains >=1 successful remove and >=1 invocation; '
         'distinct = distinct hash of the full operation/result trace',
    jobs=JS('drv_cblist', 'asan', 'c01', 4000, 150000, M4, shards=4) + JS('drv_cblist', 'plain', 'c01', 8000, 300000, M4, seed_offset=1, shards=4),
    assumptions=['model M-list (DESIGN §4) is the specification', 'single-threaded histories; concurrency is C03'],
)

CHECKS['C02'] = dict(
    title='Callbacks may mutate or re-invoke the list that is invoking them, safely',
    level='exploration',
    rule='re-entrant programs: callbacks and enumeration functions run generated operations (append/prepend/insert/remove incl. the running, next and '
         'previous callback, already removed handles, ownsHandle, forEach, nested invoke to depth 3, other lists of the same dispatcher) chosen '
         'online from the model state; every nested result and every call is checked against per-invocation snapshot frames; non-trivial = '
         '>=1 successful remove and >=1 invocation; distinct = distinct trace hash',
    jobs=JS('drv_cblist', 'asan', 'c02', 5000, 200000, M4, shards=4) + JS('drv_cblist', 'plain', 'c02', 10000, 400000, M4, seed_offset=1, shards=4),
    assumptions=['model M-list snapshot semantics', 'foreign live handles are only passed to ownsHandle (documented precondition)'],
)

CHECKS['C19'] = dict(
    title='Generation-counter wrap-around never loses or resurrects a callback',
    level='exploration',
    rule='C01/C02/C10 histories in which the generation counter is placed 0..40 steps before 2^32 (guarded hook) at random points - idle, inside '
         'callbacks of running nested invocations, around copy/move/swap - and the history continues; invocations in progress at an observed wrap '
         'are relaxed exactly as stated, all others strict; non-trivial = >=1 remove and >=1 invocation; distinct = trace hash',
    jobs=JS('drv_cblist', 'asan', 'c19', 4000, 150000, M4, shards=4) + JS('drv_cblist', 'plain', 'c19', 8000, 300000, M4, seed_offset=1, shards=4),
    assumptions=['the wrap is observed by reading the real counter through the guarded friend hook'],
)


# ----------------------------------------------------------------------------- manifest texts
_T = {
 'C01': dict(technique='differential runtime monitor: generated histories vs sequential reference model, structural-invariant walker, instance ledger, ASan+UBSan',
             level_text='Exploration: thousands (quick) to hundreds of thousands (thorough) of seeded operation histories over 8 policy/prototype configurations are executed on the real headers; '
                        'every return value, every callback call with its arguments, every enumeration and the linked structure itself are compared with a sequential model after each step. '
                        'Held on the histories run, not proved.',
             level_note='Trusted: the ~100-line model M-list, the harness generator, g++ 12 ASan/UBSan runtimes. Single-threaded histories only (C03 covers schedules).'),
 'C02': dict(technique='online snapshot-frame monitor over generated re-entrant programs (operations issued from inside callbacks to depth 3), ledger, ASan+UBSan',
             level_text='Exploration: re-entrant programs are generated online from the model state, so dangerous compositions (remove the running/next/previous callback, act through '
                        'already removed but still referenced handles, nested invocation) are frequent; each nested result and call is checked against the snapshot semantics of the statement.',
             level_note='Trusted: model snapshot semantics = the statement; foreign live handles only passed to ownsHandle. Self-deadlock would show as a hang (reported after one retry).'),
 'C19': dict(technique='runtime monitor with guarded counter-placement hook: histories continue across an observed 2^32 wrap; relaxed frames for in-progress invocations only',
             level_text='Exploration: the generation counter is placed 0..40 additions before 2^32 at random points (idle, inside callbacks, around copy/move/swap); thousands of real wraps are '
                        'observed per run and the invocations before, during and after are checked against the model.',
             level_note='Trusted: the friend hook that stores currentCounter (equivalent to the suite\'s #define private public); wrap detection reads the real counter.'),
}
for _k, _v in _T.items():
    if _k in CHECKS:
        CHECKS[_k].update(_v)

HOOK_COMMITS = ['104b3fd', '2c7a501', '6ad2faa', 'f317eda']

NOT_APPLICABLE = {
}
for _i in range(1, 21):
    _p = 'C%02d' % _i
    if _p not in CHECKS:
        NOT_APPLICABLE[_p] = 'check not built yet (work in progress; runtime monitoring applies - see DESIGN.md §5)'
