#include "vcommon.h"
#include "vledger.h"
#include "vaccess.h"
#include <eventpp/eventqueue.h>
#include <eventpp/utilities/anydata.h>
using namespace vf;
typedef eventpp::AnyData<16> AD;
static void runCase(uint64_t, Rng &) { eventpp::EventQueue<int, void(const AD&)> q; q.appendListener(1, [](const AD&){}); q.enqueue(1, 5); q.process(); }
int main(int argc, char ** argv) { return runMain(argc, argv, runCase); }
